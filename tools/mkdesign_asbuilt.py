#!/usr/bin/env python3
"""Regenerates section 11 of DESIGN.md (between the AS-BUILT markers) from the development itself:
theorem names from coq/Props, Gen tables from the harness modules, findings from findings/*.json and
known_findings.json, seeded-change outcomes from seeded/*/detected.json.  Maintenance helper; not part of any check."""
import glob, json, os, re, subprocess
HERE = os.path.dirname(os.path.dirname(os.path.abspath(__file__)))
os.chdir(HERE)

BLURB = {
 "C01": ("Values.v, Serializers.v", "nested value type; per serializer `wire tb s path v` = Pyro5's own layers (default fallbacks, marshal's top-level conversion, msgpack ext_hook, recreate_classes, base64) around the library mapping (assumed, validated by correspondence); hook table per (serializer, path) regenerated from serializers.py", "serializer level (loadsCall∘dumpsCall vs loads∘dumps) and end to end through the loopback in seven positions, compression on/off around the threshold"),
 "C02": ("StrFun.v, Expose.v", "class shapes (members, kinds, where defined, marks), the five request kinds, `is_private_attribute` translated statement by statement from server.py, reserved-dunder list regenerated; pinned baseline list", "synthesised classes registered with a real Daemon, raw INVOKE bytes fed to the real `handleRequest` through a fake connection (client-side filter bypassed)"),
 "C03": ("ClientProto.v", "proxy {seq mod 2^16, connection}, per-connection reply queues, server executing each delivered request once; 13 fault kinds incl. reset after delivery; defences (release on error, sequence check, 0xffff mask, retry classes) extracted from client.py", "real Proxy ↔ real Daemon through the loopback with fault scripts, nine call kinds, MAX_RETRIES 0..2, sequence numbers around the wrap"),
 "C04": ("ClassTagDefs.v, ClassTag.v", "`decide` interprets the if/elif chain of `dict_to_class` extracted from serializers.py (literal names, prefixes, issubclass guards, imports, position of the `__` refusal); `recreate` over nested payloads; converter registries as state with register/unregister histories through both entry points", "real decoders of all four serializers on both paths, class census + audit events (import/exec/compile/open/socket/subprocess)"),
 "C05": ("ContainmentDefs.v, Containment.v", "exception-routing interpreter over handler tables extracted from server.py / svr_threads.py / svr_multiplex.py (every try/except/suppress site, enclosure of every peer-influenced call, errors.py hierarchy); event machine with pool/selector accounting", "real daemons (thread and multiplex, with/without COMMTIMEOUT) attacked over raw sockets with a witness client; a tracer records where each exception surfaced and the model must predict reply/close/hook/loop state"),
 "C06": ("Bytes.v, Wire.v", "SendingMessage / ReceivingMessage / add_payload / recv_stub over byte lists; zlib as oracle; constants and header layout regenerated from protocol.py", "real codec read through the real `receive_data` over a randomly fragmenting fake socket; mutated and handcrafted streams"),
 "C07": ("Excs.v", "exception = (class, args, attrs) over a small lossless value type plus objects whose serialisation raises class c; whitelist, routing of the raised class (reply/keep, reply/close, no reply) and the fallback's except tuple regenerated from the tree", "77 exception classes × args/attrs × 4 serializers × plain/attribute/batch/stream through the loopback; next call on the same proxy"),
 "C08": ("HandshakeGate.v", "per-connection machine NotHandshaken|Accepted|Closed over classified messages; guard structure of both transport servers and the accepted message types extracted from the source", "real daemons of both server types over raw sockets, INVOKE pipelined in the same TCP segment behind a failing first message"),
 "C09": ("Instances.v (+Atomic.v)", "events Call/Close, instances with arbitrary truthiness/equality, failing creators; lookup tests (`is None`) and the lock region of the single branch extracted from `_getInstance`; concurrent first calls under the interleaving semantics", "histories through the loopback; concurrent `_getInstance` calls of real threads under the cooperative scheduler"),
 "C10": ("Streams.v", "stream table {owner, created, linger stamp, remaining items}; events open/next/close/disconnect/housekeep/tick; client layer; expiry comparisons (direction, strictness, field) extracted from `_housekeeping`", "real Proxy/_StreamResultIterator ↔ real Daemon through the loopback with a virtual clock; housekeeping as explicit step"),
 "C11": ("Batch.v", "reference object as arbitrary deterministic state machine, exposure gate as data, server batch loop and client result generator; loop structure (break, gate per member, oneway) extracted", "real BatchProxy ↔ Daemon through the loopback against the same calls made one by one on a twin object, 4 serializers"),
 "C12": ("CallCtx.v", "thread-local contexts, micro-events tagged with the serving thread (every interleaving and every assignment of connections to threads is a history); where `response_annotations` is reset and which fields are set up extracted from server.py/client.py/callcontext.py", "real daemons (both server types, pool sizes 1–3, worker reuse) over raw sockets with methods held at gates; real Proxies for the client half"),
 "C13": ("Cleanup.v", "per-connection {accepted, socket, ended, tracked set, session instance, slot}; every way of ending; the `finally` of the thread job, the `not active` branch of multiplex `events`, `SocketConnection.close` extracted statement by statement", "real daemons (thread/multiplex × COMMTIMEOUT) with cuts at every byte offset, other connections open"),
 "C14": ("NameServer.v", "spec map; NameServer over a storage interface; memory storage; sqlite storage as statements + transactions + failure points; SQL statements and commit sequence of each method extracted; regex matches as data", "both real back-ends in lock-step with an independent reference map; failure injection at every statement via a `sqlite3.connect` wrapper; reopen"),
 "C15": ("Atomic.v, NsAtomic.v", "generic interleaving semantics (one re-entrant lock, one shared access per step, arbitrary schedule); name-server operations one storage primitive per step; lock coverage per method regenerated from nameserver.py", "the same schedules on the model and on the real NameServer (real threads, cooperative scheduler); sqlite judged by a linearizability oracle"),
 "C16": ("Registry.v", "objectsById, per-object marks, pending weak finalizers, generated ids; events register/unregister/uriFor/proxyFor/call/return/gc; quirk switches for the repaired defects (probed each run)", "real Proxy ↔ Daemon through the loopback (serpent/json/msgpack auto-proxying), gc points"),
 "C17": ("SockIO.v", "socket = script of deliver-k / EOF / retryable errno / fatal errno / timeout; receive_data (MSG_WAITALL attempt, 60000 cap) and send_data; retry list and cap regenerated from socketutil.py", "real functions on scripted fake sockets"),
 "C18": ("Pool.v", "fine-grained machine: accept loop, workers, job slots, events, count_lock explicit; which Pool methods are whole lock regions regenerated from svr_threads.py", "the same (thread, pop-choice) schedules on the model and on the real Pool/Worker/ClientConnectionJob/events code under the cooperative scheduler, full primitive trace compared"),
 "C19": ("Uri.v", "hand-written matchers for the two regexes (texts regenerated and compared), `_parseLocation`, full `int()` grammar over interpreter tables, printer, state equality and hash", "grammar-based strings and near-misses; paired variants; four serializers, Proxy state path, name-server round trip"),
 "C20": ("Gateway.v", "`route cfg req backend-script` → response + backend actions; regex match of the expose pattern as oracle; routing constants and guard order of `process_pyro_request` extracted", "real `pyro_app` on synthetic WSGI environs with recording name-server and Proxy stubs"),
}


def theorems(pid):
    src = open("coq/Props/%s.v" % pid, encoding="utf-8").read()
    return re.findall(r"^\s*Theorem\s+([A-Za-z0-9_']+)", src, flags=re.M)


def gen_tables(pid):
    h = open("tools/harness/%s.py" % pid, encoding="utf-8").read()
    m = re.search(r"^GEN\s*=\s*\[(.*?)\]", h, flags=re.M | re.S)
    return [x.strip().strip("\"'") for x in m.group(1).split(",") if x.strip()] if m else []


def findings():
    out = []
    if os.path.exists("known_findings.json"):
        out += json.load(open("known_findings.json"))
    for p in sorted(glob.glob("findings/C*.json")):
        out += json.load(open(p))
    return out


def main():
    L = []
    w = L.append
    w("## 11. As built\n")
    w("(Generated by `tools/mkdesign_asbuilt.py` from `coq/Props`, the harness modules, `findings/`, `seeded/`; "
      "regenerate after changes.)\n")
    total = 0
    w("### 11.0 Commands\n")
    w("* `./setup.sh` - regenerate `coq/Gen/*.v` from `/repo`, regenerate `_CoqProject`, full `.vo` build (`make -j16`).\n"
      "* `./check Cxx [--tier quick|thorough] [--replay FILE]` - one property: regenerate Gen tables from `$PYRO5_TREE` (default `/repo`), "
      "re-check `Props/Cxx.vo` (+ `Print Assumptions`, forbidden-construct scan; thorough: `coqchk -o`), probe quirk switches, run the "
      "correspondence + oracle, write `evidence/Cxx.json`; exit 1 with `VIOLATION property=Cxx replay=<path>` lines (ending in "
      "`no-failing-input-found` when a proof obligation / the correspondence broke but the search found no failing input), `KNOWN-FINDING:` "
      "lines for open findings. `VERIF_SEED`, `VERIF_TIER`, `VERIF_NPROC` are honoured.\n"
      "* `tools/run_all.sh [quick|thorough] [Cxx ...]` - all registered checks, one summary line each.\n"
      "* `tools/mutant_run.sh <patch.diff> Cxx [tier]` - the same check against a scratch copy of `/repo` with the patch applied, in a scratch copy "
      "of the Coq build directory (`VERIF_COQ_DIR`, `VERIF_OUT_DIR`); nothing in `/repo`, `coq/Gen` or `evidence/` is touched.\n"
      "* `tools/seed_intake.sh`, `tools/seed_recheck.sh`, `tools/confirm_seed.sh` - confirm an independently written seeded change in a scratch "
      "git worktree (demo fails with / passes without, full test-suite with the patch) and record which checks catch it.\n"
      "* `tools/mkmanifest.py` (from `tools/manifest/*.json` + `claimed.json`), `tools/mkdesign_asbuilt.py` (this section), "
      "`tools/update_finding_commits.py` - maintenance helpers, never run by a check.\n")
    w("### 11.1 Per property: model, tie, theorems\n")
    w("Every property is claimed at level *proof*: Coq theorems (no axioms; `Print Assumptions` under every theorem says "
      "\"Closed under the global context\") over an executable Gallina model, tied to `/repo` on every run by (a) Gen tables "
      "regenerated from the source with `ast` (fail closed) that the theorems are instantiated at or re-check computed facts "
      "about, and (b) a correspondence run: the model is evaluated by `vm_compute` inside Coq on the same generated inputs / "
      "histories / schedules as the real code and the results are compared; plus a Python oracle stating the property "
      "directly over the implementation's observations (used for `VIOLATION` replays and the search after a broken tie).\n")
    for i in range(1, 21):
        pid = "C%02d" % i
        th = theorems(pid)
        total += len(th)
        model, what, corr = BLURB[pid]
        w("**%s** — model `%s`: %s. *Gen tables:* %s. *Correspondence:* %s. *Theorems (%d):* %s.\n" % (
            pid, model, what, ", ".join(gen_tables(pid)) or "none (correspondence and quirk probes only)", corr, len(th),
            ", ".join("`%s`" % t for t in th)))
    w("Total: %d property theorems (`_refuted` theorems are machine-checked witnesses that a defective or weakened variant "
      "of the model violates the statement; `_partial` marks a theorem that proves only part of the property, see the "
      "manifest `level_note`).\n" % total)
    w("### 11.2 Findings (genuine defects of Pyro5 found by these checks)\n")
    w("`fixed` = repaired by one unguarded `fix:` commit in `/repo` (hash given; the check passes on the repaired tree with no "
      "KNOWN-FINDING line and reports the violation again if it returns). `open` = recorded, not repaired (no small and safe "
      "patch, or a policy decision of the library); the check prints `KNOWN-FINDING` for it and exits 0; any *other* violation "
      "of the same property still prints `VIOLATION`.\n")
    w("| property | signature | status | commit | what fails |")
    w("|---|---|---|---|---|")
    for k in sorted(findings(), key=lambda k: (k.get("property"), k.get("status"), k.get("signature"))):
        what = (k.get("what_fails") or k.get("entry") or "").replace("|", "\\|").replace("\n", " ")
        what = re.sub(r"^fixed: property=C\d+ \S+ ", "", what)
        w("| %s | %s | %s | %s | %s |" % (k.get("property"), k.get("signature"), k.get("status"), k.get("commit") or "", what[:400]))
    w("")
    w("### 11.3 Seeded changes (written by independent sub-agents from the property text only) and which checks catch them\n")
    w("Each `seeded/<id>/` holds `patch.diff`, the author's demonstration `demo.py` (fails with the change, passes without), "
      "`meta.json`, `confirmed.json` (my confirmation in a scratch worktree: demo exit codes clean/patched, full test-suite result "
      "with the patch) and `detected.json` (outcome of `tools/mutant_run.sh <patch> <check>`). `seeded/builder_Cxx/` hold the "
      "builders' own mutants (results in their README).\n")
    w("| seeded change | what it breaks | caught by | concrete replay |")
    w("|---|---|---|---|")
    for d in sorted(glob.glob("seeded/C??_*")):
        name = os.path.basename(d)
        if not os.path.exists(os.path.join(d, "meta.json")):
            continue
        meta = json.load(open(os.path.join(d, "meta.json")))
        det = json.load(open(os.path.join(d, "detected.json"))) if os.path.exists(os.path.join(d, "detected.json")) else {}
        runs = det.get("runs") or ([{"check": name.split("_")[0], **det}] if det else [])
        caught = [r["check"] for r in runs if r.get("detected")]
        conc = [r["check"] for r in runs if r.get("detected") and r.get("with_concrete_replay")]
        summ = (meta.get("summary") or "").replace("|", "\\|").replace("\n", " ")
        w("| %s | %s | %s | %s |" % (name, summ[:260] + ("…" if len(summ) > 260 else ""),
                                   ", ".join(caught) if caught else ("**not caught**" if runs else "not run"),
                                   ", ".join(conc) if conc else ("—" if caught else "")))
    w("")
    w("### 11.3b Property-preserving changes (written by independent sub-agents from the property text only): the checks must stay silent\n")
    w("Each `seeded_harmless/<id>_h<k>/` holds `patch.diff`, `meta.json` (kind: refactoring / incidental behaviour / hardening, the "
      "author's argument why the property still holds, the observable differences) and `result.json` (test-suite result with the "
      "patch; outcome of `tools/mutant_run.sh <patch> <check>` for the property's own check and for the neighbouring checks that "
      "were also run). Re-run with `tools/harmless_recheck.sh <id>_h<k> [checks]`.\n")
    w("| change | kind | what it does | checks run | outcome |")
    w("|---|---|---|---|---|")
    nh = ns = 0
    for d in sorted(glob.glob("seeded_harmless/C??_h*")):
        name = os.path.basename(d)
        if not os.path.exists(os.path.join(d, "result.json")):
            continue
        meta = json.load(open(os.path.join(d, "meta.json")))
        r = json.load(open(os.path.join(d, "result.json")))
        runs = r.get("runs") or []
        loud = [x for x in runs if not x.get("silent")]
        nh += 1
        ns += 0 if loud or not runs else 1
        summ = (meta.get("summary") or "").replace("|", "\\|").replace("\n", " ")
        out = "silent" if runs and not loud else ("not run" if not runs else "; ".join(
            "%s: VIOLATION (%s)" % (x["check"], "no-failing-input-found" if x.get("no_failing_input_found") == x.get("violation_lines")
                                    else "**concrete replay: false alarm**") for x in loud))
        w("| %s | %s | %s | %s | %s |" % (name, meta.get("kind", ""), summ[:200] + ("…" if len(summ) > 200 else ""),
                                        ", ".join(x["check"] for x in runs), out))
    w("")
    w("%d of %d property-preserving changes leave every check that was run against them silent.\n" % (ns, nh))
    w("### 11.4 Trusted base as built\n")
    w("* **Kernel**: `coqc` 8.16.1; every property file is a full `.vo` build (`make`, never `-vos`); the thorough tier re-checks "
      "`Props/Cxx.vo` and everything it depends on with `coqchk -o` (reports: no axioms, no type-in-type, no unsafe fixpoints, no "
      "assumed positivity). `vm_compute` is used for computed checks over Gen tables, for `_refuted` witnesses / non-vacuity Examples "
      "and to run the models in the correspondence files; no `native_compute`. No `Axiom`/`Parameter`/`Admitted`/`admit` anywhere "
      "(scanned on every run over the dependency closure of the property; whole development: clean). Libraries imported: Coq stdlib "
      "`List Arith NArith ZArith Bool Lia String Ascii` only; `Print Assumptions` under every property theorem: Closed under the global context.")
    w("* **Extractors** (`tools/gen/*.py`: Python `ast` readers, fail closed; where a plugin says so, a second reader that imports the "
      "module from the tree under test and reads a value constant or measures a structural fact by driving the real function with "
      "recording stubs, used when the `ast` shape is not recognised: `info[\"mode\"]` in the evidence says which reader ran) and the **correspondence harnesses / oracles** (`tools/harness/*.py`, "
      "`tools/lib/*.py`): trusted to read the source / drive the implementation correctly; differential testing bounded by generator "
      "quality (the evidence prints the input distribution). No extraction to OCaml is used.")
    w("* **Modelled, not verified** (assumptions each check states in its evidence file):\n")
    import ast
    for i in range(1, 21):
        pid = "C%02d" % i
        tree = ast.parse(open("tools/harness/%s.py" % pid, encoding="utf-8").read())
        assum = []
        for node in tree.body:
            if isinstance(node, ast.Assign) and any(isinstance(t, ast.Name) and t.id == "ASSUMPTIONS" for t in node.targets):
                try:
                    assum = ast.literal_eval(node.value)
                except Exception:
                    assum = ["(computed in the harness; see evidence/%s.json)" % pid]
        w("  - **%s**: %s" % (pid, "; ".join(a.strip().rstrip(".") for a in assum) or "—"))
    w("")
    text = "\n".join(L)
    s = open("DESIGN.md", encoding="utf-8").read()
    b, e = "<!-- AS-BUILT BEGIN -->", "<!-- AS-BUILT END -->"
    if b in s:
        s = s[:s.index(b) + len(b)] + "\n" + text + "\n" + s[s.index(e):]
    else:
        marker = "--------------------------------------------------------------------------------\n\n## Appendix A"
        s = s.replace(marker, b + "\n" + text + "\n" + e + "\n\n" + marker, 1)
    open("DESIGN.md", "w", encoding="utf-8").write(s)
    print("section 11 written:", total, "theorems")


if __name__ == "__main__":
    main()
