"""C19 — URIs: real Pyro5.core.URI vs Model/Uri.v (DESIGN 6/C19).

For every generated string s (and a second string s2 that is a respelling or a near variant of s):
implementation observations = accept/reject, the state tuple, str(), the re-parse of str(), ==, hash,
round trips through the four serializers, the Proxy state path and the name server's store/lookup.
(1) ORACLE: the property stated directly over those observations; (2) the same observations are printed as a
Gallina `case` and the model is run on s / s2 inside Coq (vlib.run_cases)."""
import json
from tools.lib import vlib
from tools.lib.vlib import cN, cZ, cbool, clist, copt, ctext

PROP = "C19"
GEN = ["GenUri"]
ASSUMPTIONS = [
    "accepted sets are compared one-sidedly: what the implementation accepts must be what the model says; strings it rejects although the "
    "model accepts them are not compared (the property quantifies over accepted strings); rejection = errors.PyroError, its text is not observed",
    "re.match behaves as the hand-written matchers for the two patterns (the pattern texts are regenerated and re-checked against "
    "the ones the model implements; behaviour is compared on every generated string)",
    "int() on str: strips the code points of GenUri.intws_table, accepts a sign and decimal digits of any Unicode block with single "
    "underscores between digits; the 4300-digit limit is not modelled (generator stays below it)",
    "str.isspace / \\s / \\d tables are those of the running interpreter (GenUri.ws_table, dzero_table)",
    "Python str/int equality and hashing: equal values have equal hashes; hash of a frozenset is order-independent; a plain set is unhashable",
    "the iteration order of a Python set is not modelled: it is observed per case and the theorems quantify over all orders",
    "serializer round trips and Proxy.__getstate__/__setstate__ are checked by the Python oracle only (the model covers them through "
    "str()/URI() and to_state/of_state: both paths carry the text form or the state tuple; that a serializer returns the tuple's values "
    "unchanged is C01's statement); NameServer histories are compared with the map model (ns_run) on every storage backend",
    "the name server's own entry Pyro.NameServer (protected from removal) is not used as a name in the store histories",
]
IMPORTS = "From V Require Import Model.Uri Gen.GenUri Harness.Cmp Harness.H19."
OPEN_CAUSES = ("meta-empty-tag", "meta-at-tag", "host-dot-slash-u")


class Unexpected(Exception):
    pass


# ---------------------------------------------------------------- implementation runner
def state_of(u):
    """canonical form of URI.__getstate__(): {"proto","name"|"tags","loc"}; raises Unexpected for shapes outside the model"""
    st = u.__getstate__()
    if not (isinstance(st, tuple) and len(st) == 5):
        raise Unexpected("state is not a 5-tuple: %r" % (st,))
    proto, obj, sock, host, port = st
    if proto not in ("PYRO", "PYRONAME", "PYROMETA"):
        raise Unexpected("protocol %r" % (proto,))
    out = {"proto": proto}
    if isinstance(obj, str):
        out["name"] = obj
    elif isinstance(obj, (set, frozenset)) and all(isinstance(t, str) for t in obj):
        out["tags"] = sorted(obj)
    else:
        raise Unexpected("object %r" % (obj,))
    if sock is None and host is None and port is None:
        out["loc"] = ["none"]
    elif isinstance(sock, str) and host is None and port is None:
        out["loc"] = ["sock", sock]
    elif sock is None and isinstance(host, str) and isinstance(port, int) and not isinstance(port, bool):
        out["loc"] = ["host", host, port]
    else:
        raise Unexpected("location fields %r" % ((sock, host, port),))
    return out


def try_parse(s):
    """-> ("ok", uri) | ("reject", None) | ("other:<Type>", None)"""
    from Pyro5 import core, errors
    try:
        return "ok", core.URI(s)
    except errors.PyroError:
        return "reject", None
    except BaseException as x:
        return "other:" + type(x).__name__, None


def obs_parse(s, o, prefix):
    kind, u = try_parse(s)
    o[prefix + "kind"] = kind
    o[prefix + "state"] = None
    if u is not None:
        try:
            o[prefix + "state"] = state_of(u)
        except Unexpected as x:
            o[prefix + "kind"] = "other:state " + str(x)
            u = None
    return u


_NS = {}


def nameserver(tree):
    if tree not in _NS:
        from Pyro5 import nameserver as nsmod
        _NS[tree] = nsmod.NameServer()
    return _NS[tree]


def run_impl(case, tree="/repo", deep=True):
    from Pyro5 import core, errors, config
    o = {"ns": config.NS_PORT}
    u = obs_parse(case["s"], o, "p_")
    v = obs_parse(case.get("s2", case["s"]), o, "v_")
    o["eq_v"] = o["ne_v"] = None
    o["hash_v_equal"] = None
    if u is not None and v is not None:
        o["eq_v"] = bool(u == v)
        o["ne_v"] = bool(u != v)
        o["eq_vu"] = bool(v == u)
        o["ne_vu"] = bool(v != u)
        try:
            o["hash_v_equal"] = hash(u) == hash(v)
        except TypeError:
            o["hash_v_equal"] = None
    if u is None:
        return o
    o["order"] = list(u.object) if isinstance(u.object, (set, frozenset)) else []
    try:
        o["str"] = str(u)
    except BaseException as x:
        o["str"] = None
        o["p_kind"] = "other:str raised " + type(x).__name__
        return o
    if o["order"] and o["str"].startswith("PYROMETA:"):
        # the order in which str() listed the tags (tags are comma-free, so the joined length is order-independent)
        printed = o["str"][len("PYROMETA:"):][:len(",".join(o["order"]))].split(",")
        if sorted(printed) == sorted(o["order"]):
            o["order"] = printed
    u2 = obs_parse(o["str"], o, "r_")
    o["eq12"] = bool(u2 == u) if u2 is not None else None
    o["str2"] = str(u2) if u2 is not None else None
    try:
        h = hash(u)
        o["hash"] = "ok"
        if u2 is not None:
            try:
                o["hash12_equal"] = hash(u2) == h
            except TypeError:
                o["hash12_equal"] = None
    except TypeError:
        o["hash"] = "TypeError"
    except BaseException as x:
        o["hash"] = "other:" + type(x).__name__
    # copy constructor
    try:
        o["copy_eq"] = bool(core.URI(u) == u)
    except BaseException as x:
        o["copy_eq"] = "raised " + type(x).__name__
    if not deep:
        return o
    # serializers / proxy state / name server (oracle only)
    from Pyro5 import serializers, client
    o["ser"] = {}
    o["proxy"] = {}

    def ser_result(w):
        if not isinstance(w, core.URI):
            return {"res": "not-a-uri"}
        try:
            wst = state_of(w)
        except Unexpected:
            wst = None
        return {"res": "ok", "eq": bool(w == u), "str": str(w), "objtype": type(w.object).__name__, "state": wst}
    for name in ("serpent", "json", "marshal", "msgpack"):
        ser = serializers.serializers[name]
        try:
            o["ser"][name] = ser_result(ser.loads(ser.dumps(u)))
        except BaseException as x:
            o["ser"][name] = {"res": "raised " + type(x).__name__}
        # the call path (URI as positional and keyword argument of a remote call)
        try:
            _obj, _meth, args, kwargs = ser.loadsCall(ser.dumpsCall("obj", "meth", (u,), {"k": u}))
            ra, rk = ser_result(args[0]), ser_result(kwargs["k"])
            o["ser"][name + "/call"] = ra if ra.get("res") != "ok" or not ra["eq"] or ra["state"] != o["p_state"] else rk
        except BaseException as x:
            o["ser"][name + "/call"] = {"res": "raised " + type(x).__name__}
    try:
        p = client.Proxy(u)
    except BaseException as x:
        p = None
        o["proxy"]["new"] = {"res": "raised " + type(x).__name__}
    if p is not None:
        for name in ("direct", "serpent", "json", "marshal", "msgpack"):
            try:
                if name == "direct":
                    p2 = client.Proxy.__new__(client.Proxy)
                    p2.__setstate__(p.__getstate__())
                else:
                    ser = serializers.serializers[name]
                    p2 = ser.loads(ser.dumps(p))
                o["proxy"][name] = {"res": "ok", "eq": bool(p2._pyroUri == u), "str": str(p2._pyroUri)}
            except errors.PyroError:
                o["proxy"][name] = {"res": "rejected"}
            except BaseException as x:
                o["proxy"][name] = {"res": "raised " + type(x).__name__}
    try:
        ns = nameserver(tree)
        ns.register("c19.entry", u)
        w = ns.lookup("c19.entry")
        o["nslookup"] = {"res": "ok", "eq": bool(w == u), "str": str(w)}
    except errors.PyroError as x:
        o["nslookup"] = {"res": "rejected"}
    except BaseException as x:
        o["nslookup"] = {"res": "raised " + type(x).__name__}
    return o


def probe_quirks():
    """replay the two witnesses whose repair is pending/applied to learn which variant the code is"""
    from Pyro5 import core
    q = {}
    try:
        q["q_empty_host"] = str(core.URI("PYRO:obj@:55")) == "PYRO:obj"
    except BaseException:
        q["q_empty_host"] = False
    try:
        hash(core.URI("PYROMETA:a,b"))
        q["q_meta_unhashable"] = False
    except TypeError:
        q["q_meta_unhashable"] = True
    except BaseException:
        q["q_meta_unhashable"] = False
    return q


# ---------------------------------------------------------------- oracle
def cause(state):
    """input classes with a recorded finding (open ones first, so that a repaired one never hides behind them)"""
    if state is None:
        return None
    tags = state.get("tags")
    if tags is not None:
        if tags == [""]:
            return "meta-empty-tag"
        if any("@" in t for t in tags):
            return "meta-at-tag"
    if state["loc"][0] == "host":
        if state["loc"][1] == "./u":
            return "host-dot-slash-u"
        if state["loc"][1] == "":
            return "empty-host"
    return None


def text_key(text, ntagchars):
    """text form compared up to the order of PYROMETA tags; ntagchars = length of the joined tag list (None: not PYROMETA)"""
    if text is None or ntagchars is None or not text.startswith("PYROMETA:"):
        return text
    body = text[len("PYROMETA:"):]
    return "PYROMETA:" + ",".join(sorted(body[:ntagchars].split(","))) + body[ntagchars:]


def oracle(case, o):
    """The property over what the implementation did. Returns [(signature, what)]."""
    bad = []
    for pre in ("p_", "v_", "r_"):
        k = o.get(pre + "kind")
        if k and k.startswith("other:"):
            bad.append(("unexpected-exception", "URI(%r) did not answer with a URI or PyroError: %s" % (
                case["s"] if pre == "p_" else case.get("s2") if pre == "v_" else o.get("str"), k[6:])))
    st, vs = o.get("p_state"), o.get("v_state")
    if st is not None and vs is not None and o["eq_v"] is not None:
        same = st == vs
        if o["eq_v"] and st["loc"] != vs["loc"]:
            bad.append(("unequal-locations-equal", "URIs with locations %r and %r compare equal" % (st["loc"], vs["loc"])))
        elif o["eq_v"] and not same:
            bad.append(("equal-but-different-state", "URI(%r) == URI(%r) although their fields differ" % (case["s"], case.get("s2"))))
        if same and not o["eq_v"]:
            bad.append(("same-state-unequal", "URI(%r) != URI(%r) although protocol, object and location are the same" % (case["s"], case.get("s2"))))
        if o["ne_v"] == o["eq_v"] or o.get("ne_vu", not o.get("eq_vu")) == o.get("eq_vu"):
            bad.append(("ne-inconsistent", "!= is not the negation of == for %r / %r" % (case["s"], case.get("s2"))))
        if o.get("eq_vu", o["eq_v"]) != o["eq_v"]:
            bad.append(("eq-asymmetric", "URI(%r) == URI(%r) is %s but the other way round it is %s" % (
                case["s"], case.get("s2"), o["eq_v"], o.get("eq_vu"))))
        if o["eq_v"] and o["hash_v_equal"] is False:
            bad.append(("equal-uris-unequal-hash", "URI(%r) == URI(%r) but their hashes differ" % (case["s"], case.get("s2"))))
    if st is None or o.get("p_kind") != "ok":
        return bad
    c = cause(st)
    text = o["str"]
    ntc = len(",".join(o["order"])) if "tags" in st else None
    # text form accepted again, to an equal URI, and a fixed point
    if o["r_kind"] == "reject":
        bad.append((c or "text-form-rejected", "URI(%r) prints as %r which the parser rejects" % (case["s"], text)))
    elif o["r_kind"] == "ok":
        if not o["eq12"] or o["r_state"] != st:
            bad.append((c or "reparse-differs", "URI(%r) prints as %r which parses to a different URI %r (was %r)" % (
                case["s"], text, o["r_state"], st)))
        elif text_key(o["str2"], ntc) != text_key(text, ntc):
            bad.append((c or "text-form-not-fixpoint", "str(URI(%r)) = %r but str(URI(that)) = %r" % (case["s"], text, o["str2"])))
        if o["eq12"] and o.get("hash12_equal") is False:
            bad.append(("equal-uris-unequal-hash", "URI(%r) and its re-parse are equal but hash differently" % (case["s"],)))
    # hashable
    if o["hash"] != "ok":
        if "tags" in st and o["hash"] == "TypeError":
            bad.append(("meta-unhashable", "hash(URI(%r)) raises TypeError (state tuple contains a set)" % (case["s"],)))
        else:
            bad.append(("hash-raises", "hash(URI(%r)) raises %s" % (case["s"], o["hash"])))
    if o.get("copy_eq") is not True:
        bad.append(("copy-differs", "URI(URI(%r)) is not equal to the original: %r" % (case["s"], o.get("copy_eq"))))
    # through the serializers, the proxy state and the name server
    for name, r in sorted(o.get("ser", {}).items()):
        if r["res"] != "ok":
            bad.append(("serializer-roundtrip-raises", "URI(%r) through %s: %s" % (case["s"], name, r["res"])))
        elif not r["eq"] or r["state"] != st or text_key(r["str"], ntc) != text_key(text, ntc):
            if "tags" in st and r["objtype"] == "list":
                bad.append(("meta-serializer-list", "URI(%r) through %s arrives with its tag set turned into a list and compares unequal" % (case["s"], name)))
            else:
                bad.append(("serializer-roundtrip-differs", "URI(%r) through %s arrives as %r, equal=%s" % (case["s"], name, r["str"], r["eq"])))
    for name, r in sorted(o.get("proxy", {}).items()):
        if r["res"] != "ok" or not r["eq"]:
            bad.append((c or "proxy-state-differs", "Proxy(URI(%r)) state via %s: %s" % (
                case["s"], name, r["res"] if r["res"] != "ok" else "arrives holding " + repr(r["str"]))))
    r = o.get("nslookup")
    if r is not None and (r["res"] != "ok" or not r["eq"]):
        bad.append((c or "nameserver-lookup-differs", "URI(%r) registered in the name server and looked up again: %s" % (
            case["s"], r["res"] if r["res"] != "ok" else "comes back as " + repr(r["str"]))))
    # one entry per signature
    seen, out = set(), []
    for sig, what in bad:
        if sig not in seen:
            seen.add(sig)
            out.append((sig, what))
    return out


# ---------------------------------------------------------------- Gallina encodings
def c_uri(st):
    if st is None:
        return "None"
    obj = "OName %s" % ctext(st["name"]) if "name" in st else "OTags %s" % clist([ctext(t) for t in st["tags"]])
    loc = st["loc"]
    L = "LNone" if loc[0] == "none" else "LSock %s" % ctext(loc[1]) if loc[0] == "sock" else "LHost %s %s" % (ctext(loc[1]), cZ(loc[2]))
    return "(Some {| u_proto := %s; u_obj := %s; u_loc := %s |})" % (st["proto"], obj, L)


def c_case(case, o, q):
    acc = o["p_kind"] == "ok"
    return ("{| c_q := {| q_empty_host := %s; q_meta_unhashable := %s |}; c_ns := %s; c_s := %s; c_parse := %s; c_order := %s; "
            "c_str := %s; c_reparse := %s; c_eq12 := %s; c_hash_ok := %s; c_s2 := %s; c_parse2 := %s; c_eq_v := %s |}") % (
        cbool(q["q_empty_host"]), cbool(q["q_meta_unhashable"]), cZ(o["ns"]), ctext(case["s"]), c_uri(o["p_state"]),
        clist([ctext(t) for t in o["order"]]) if acc else "[]",
        ctext(o["str"]) if acc else "[]", c_uri(o.get("r_state")) if acc else "None",
        cbool(bool(o.get("eq12"))) if acc else "false", cbool(o.get("hash") == "ok") if acc else "false",
        ctext(case.get("s2", case["s"])), c_uri(o["v_state"]), cbool(bool(o["eq_v"])))


# ---------------------------------------------------------------- generator
PROTOS = ["PYRO", "PYRONAME", "PYROMETA"]
BAD_PROTOS = ["PYR", "PYROX", "PYRONAMES", "XPYRO", "", "PYRO ", "PYRO1", "PYROmetaa", "PYRÖ", " PYRO", "PY:RO"]
OBJECTS = ["obj", "Pyro.NameServer", "a.b_c-d/e", "obj@", "@", "@obj", "o@@", "o,b", "o:b", "o[", "ö", "x", "0", "obj_12ab", "o%41",
           "./u:x", "[::1]", "o\\n", "日本", "o\U0001d7ce"]
BAD_OBJECTS = ["ob j", "o\u2003b", "", "o\x1cb", "o\tb", " o", "o\x85", "o\u00a0x", "a\nb"]
TAGS = ["a", "b", "blue", "x.y", "", "@", "@a", "a@", "a@b", "t:1", "ü", "metal", "a.b", "c-d", "[", "./u:"]
HOSTS = ["localhost", "h", "a.b-c.d", "192.168.1.1", "host name", "h@x", "ho,st", "./u", "./", ".", "u", "", "h[", "]", "%", "abc", "dead",
         "ünï", "h\tx", "example.com", "10.0.0.7", "@", "h@", "./u.x", "H", "%eth0", "0"]
IP6 = ["[::1]", "[fe80::1%25]", "[abc]", "[a:b]", "[1:2]", "[fe80::2%3]", "[1:2:3:4:5:6:7:8]", "[::]", "[%]", "[::ffff:10.0.0.1]", "[fe80::1%eth0]", "[]", "[[::1]]", "[::1",
       "[::g]", "[::1]x", "[:]", "[::1]]", "[a:b]@"]
SOCKS = ["./u:/tmp/sock", "./u:sock name", "./u:", "./u:a:b", "./u:@", "./U:x", "./u:x", "./u:ü.sock", "./u:[", "./u:./u", "./u:a\tb"]
DIGIT_ZEROS = [0x30, 0x660, 0x6f0, 0x966, 0xff10, 0x1d7ce, 0x1e950, 0xe50, 0x1810]
INT_WS = [" ", "\t", "\x0b", "\x0c", "\r", "\x85", "\xa0", "\u2003", "\u3000", "\u2028"]
NOT_INT_WS = ["\x1c", "\x1d", "\x1f", "\u200b", "\x00"]
BAD_PORTS = ["0x1F", "1.0", "1e3", "1__0", "_1", "1_", "- 1", "+-1", "--1", "٣x", "5 5", "½", "²", "5\x1c", "\x1c5", "١_", "5:6", "abc",
             "+", "-", " ", "1,000", "0b1", "٣ ٣", "5\x00", "1_ 0", "５．", "\u200b5", "5@6", "5\n"]
PORT_VALUES = [0, 1, 5, 7, 9, 10, 80, 443, 9090, 9091, 55, 65535, 65536, 99999, 2 ** 31, 2 ** 63 - 1, 10 ** 25, -1, -5, -9090]
# the URI parser accepts any int() port: the whole integer range, around every width boundary, both signs
WIDE_PORTS = sorted({sg * (2 ** k + d) for k in (7, 8, 15, 16, 31, 32, 63, 64, 65, 127, 128, 200) for d in (-1, 0, 1) for sg in (1, -1)}
                    | {10 ** 19, -10 ** 19, 10 ** 25, -10 ** 25, 10 ** 60, -10 ** 60, -2 ** 63 - 2 ** 40, -255 * 2 ** 64})
SPECIALS = list(":@,[]./u%_+- \n\t0٣\x1c") + ["./u:", "@@", "::", "\n"]


def rand_case(rng, word):
    return "".join(ch.upper() if rng.random() < 0.5 else ch.lower() for ch in word)


def spell_digits(rng, digits, style):
    if style == "plain":
        return digits
    out = []
    z = rng.choice(DIGIT_ZEROS)
    for i, ch in enumerate(digits):
        if style in ("unicode",):
            out.append(chr(z + int(ch)))
        elif style == "mixed":
            out.append(chr(rng.choice(DIGIT_ZEROS) + int(ch)))
        else:
            out.append(ch)
        if style == "underscore" and i + 1 < len(digits) and rng.random() < 0.5:
            out.append("_")
    return "".join(out)


def spell_port(rng, value, rich=True):
    """a spelling of `value` that int() accepts"""
    digits = str(abs(value))
    if not rich or rng.random() < 0.35:
        return ("-" if value < 0 else "") + digits
    if rng.random() < 0.3:
        digits = "0" * rng.randint(1, 3) + digits
    body = spell_digits(rng, digits, rng.choice(["plain", "unicode", "mixed", "underscore", "underscore"]))
    sign = "-" if value < 0 else rng.choice(["", "", "+"])
    if value == 0 and rng.random() < 0.2:
        sign = "-"
    s = sign + body
    if rng.random() < 0.35:
        s = "".join(rng.choice(INT_WS) for _ in range(rng.randint(0, 2))) + s + "".join(rng.choice(INT_WS) for _ in range(rng.randint(0, 2)))
    return s


def gen_spec(rng):
    """structured description of a mostly-valid URI"""
    spec = {"proto": rng.choice(PROTOS)}
    r = rng.random()
    if spec["proto"] == "PYROMETA":
        n = rng.choice([1, 1, 2, 2, 3, 4])
        pool = TAGS if rng.random() < 0.45 else [t for t in TAGS if "@" not in t and t != ""]
        spec["tags"] = [rng.choice(pool) for _ in range(n)]
        if rng.random() < 0.15:
            spec["tags"].append(spec["tags"][0])
    else:
        spec["obj"] = rng.choice(OBJECTS) if r < 0.92 else rng.choice(BAD_OBJECTS)
        if rng.random() < 0.2:
            spec["obj"] = "".join(rng.choice("abcxyz._-/09AZ@,:%[]ö") for _ in range(rng.randint(1, 9)))
    k = rng.random()
    if k < (0.08 if spec["proto"] == "PYRO" else 0.3):
        spec["loc"] = None
    elif k < 0.45:
        spec["loc"] = {"kind": "host", "host": rng.choice(HOSTS)}
    elif k < 0.55:
        spec["loc"] = {"kind": "host", "host": "".join(rng.choice("abh.-_19 ./u@[]%,") for _ in range(rng.randint(0, 6)))}
    elif k < 0.8:
        spec["loc"] = {"kind": "ip6", "host": rng.choice(IP6), "junk": rng.choice(["", "", "", "x", " ", "]", ":1", "@"])}
    else:
        spec["loc"] = {"kind": "sock", "text": rng.choice(SOCKS)}
    if spec["loc"] and spec["loc"]["kind"] in ("host", "ip6"):
        p = rng.random()
        if p < 0.12:
            spec["loc"]["port"] = None          # no colon
        elif p < 0.2:
            spec["loc"]["port"] = ""            # colon, nothing behind it
        elif p < 0.32:
            spec["loc"]["port"] = ("bad", rng.choice(BAD_PORTS))
        else:
            r3 = rng.random()
            spec["loc"]["port"] = ("val", rng.choice(PORT_VALUES) if r3 < 0.62 else rng.choice(WIDE_PORTS) if r3 < 0.82
                                   else rng.randint(-70000, 70000) if r3 < 0.94 else rng.choice([1, -1]) * rng.getrandbits(rng.choice([64, 70, 96, 130])))
    return spec


def render(rng, spec, rich=True):
    proto = rand_case(rng, spec["proto"]) if rich else spec["proto"]
    if "tags" in spec:
        tags = list(spec["tags"])
        if rich:
            rng.shuffle(tags)
        obj = ",".join(tags)
    else:
        obj = spec["obj"]
    s = proto + ":" + obj
    loc = spec["loc"]
    if loc is not None:
        if loc["kind"] == "sock":
            s += "@" + loc["text"]
        else:
            s += "@" + loc["host"]
            port = loc["port"]
            if port is not None:
                if loc["kind"] == "ip6":
                    # \d+ only: no sign / underscore / whitespace survive as a port there, but they are tried
                    ptxt = "" if port == "" else port[1] if port[0] == "bad" else (
                        spell_digits(rng, str(abs(port[1])), rng.choice(["plain", "unicode", "mixed"])) if rng.random() < 0.8 else spell_port(rng, port[1], rich))
                else:
                    ptxt = "" if port == "" else port[1] if port[0] == "bad" else spell_port(rng, port[1], rich)
                s += ":" + ptxt
            if loc["kind"] == "ip6":
                s += loc.get("junk", "")
    if rich and rng.random() < 0.12:
        s += "\n"
    return s


def mutate_spec(rng, spec):
    """a near variant: one component changed"""
    v = json.loads(json.dumps(spec))
    r = rng.random()
    loc = v["loc"]
    if r < 0.35 and loc is not None and loc["kind"] != "sock" and isinstance(loc.get("port"), list) and loc["port"][0] == "val":
        loc["port"][1] += rng.choice([1, -1, 10, 1000])
    elif r < 0.55 and loc is not None and loc["kind"] == "host":
        loc["host"] = rng.choice(HOSTS)
    elif r < 0.65:
        v["proto"] = rng.choice(PROTOS)
        if v["proto"] == "PYROMETA" and "tags" not in v:
            v["tags"] = [v.pop("obj")]
        elif v["proto"] != "PYROMETA" and "tags" in v:
            v["obj"] = ",".join(v.pop("tags"))
    elif r < 0.8 and "tags" in v:
        if rng.random() < 0.5 and len(v["tags"]) > 1:
            v["tags"].pop()
        else:
            v["tags"].append(rng.choice(TAGS))
    elif r < 0.9 and "obj" in v:
        v["obj"] = rng.choice(OBJECTS)
    else:
        v["loc"] = gen_spec(rng)["loc"]
    for k in ("loc",):
        if isinstance(v.get(k), dict) and isinstance(v[k].get("port"), list):
            v[k]["port"] = tuple(v[k]["port"])
    return v


def _swapcase_some(rng, t):
    """change the letter case of at least one letter of t (None if t has no cased letter)"""
    idx = [i for i, ch in enumerate(t) if ch.swapcase() != ch and len(ch.swapcase()) == 1]
    if not idx:
        return None
    pick = set(idx) if rng.random() < 0.5 else set(rng.sample(idx, rng.randint(1, len(idx))))
    return "".join(ch.swapcase() if i in pick else ch for i, ch in enumerate(t))


def _change_char(rng, t):
    if not t:
        return None
    i = rng.randrange(len(t))
    repl = rng.choice([c for c in "abcxyz019" if c != t[i]])
    return t[:i] + repl + t[i + 1:]


def unequal_variant(rng, spec, ns_port):
    """a spec that differs from `spec` in exactly one respect which must make the two URIs UNEQUAL
    (letter case of host / object / a tag / socket name, one character changed, port +-1, default port vs another
    port, host with a trailing dot, one tag more or less); None if the chosen respect does not apply"""
    v = json.loads(json.dumps(spec))
    loc = v["loc"]
    if isinstance(loc, dict) and isinstance(loc.get("port"), list):
        loc["port"] = tuple(loc["port"])
    kinds = ["objcase", "objchar"]
    if loc is not None:
        if loc["kind"] in ("host", "ip6"):
            kinds += ["hostcase", "hostcase", "hostcase", "hostchar", "port", "port", "dot"]
        else:
            kinds += ["sockcase", "sockcase", "sockchar"]
    if "tags" in v:
        kinds += ["tagset"]
    k = rng.choice(kinds)
    if k in ("objcase", "objchar"):
        f = _swapcase_some if k == "objcase" else _change_char
        if "tags" in v:
            i = rng.randrange(len(v["tags"]))
            t = f(rng, v["tags"][i])
            if t is None or "," in t:
                return None
            old = v["tags"][i]
            v["tags"] = [t if x == old else x for x in v["tags"]]
        else:
            t = f(rng, v["obj"])
            if t is None:
                return None
            v["obj"] = t
    elif k in ("hostcase", "hostchar"):
        h = loc["host"]
        if loc["kind"] == "ip6":
            if not (h.startswith("[") and "]" in h):
                return None
            inner = h[1:h.index("]")]
            t = _swapcase_some(rng, inner) if k == "hostcase" else (_change_char(rng, inner) if inner else None)
            if t is None:
                return None
            loc["host"] = "[" + t + h[h.index("]"):]
        else:
            t = _swapcase_some(rng, h) if k == "hostcase" else _change_char(rng, h)
            if t is None:
                return None
            loc["host"] = t
    elif k == "dot":
        if loc["kind"] != "host" or not loc["host"]:
            return None
        loc["host"] = loc["host"] + "."
    elif k == "port":
        port = loc.get("port")
        if isinstance(port, tuple) and port[0] == "val":
            loc["port"] = ("val", port[1] + rng.choice([1, -1]))
        elif port in (None, ""):
            loc["port"] = ("val", ns_port + rng.choice([1, -1, 10]))     # default port vs another port
        else:
            return None
    elif k in ("sockcase", "sockchar"):
        t = loc["text"]
        if not t.startswith("./u:") or len(t) <= 4:
            return None
        name = _swapcase_some(rng, t[4:]) if k == "sockcase" else _change_char(rng, t[4:])
        if name is None:
            return None
        loc["text"] = "./u:" + name
    elif k == "tagset":
        if len(set(v["tags"])) > 1 and rng.random() < 0.5:
            drop = v["tags"][0]
            v["tags"] = [x for x in v["tags"] if x != drop]
        else:
            new = [t for t in TAGS if t not in v["tags"]]
            v["tags"].append(rng.choice(new))
    return v


def equal_variant(rng, spec, ns_port):
    """same URI written differently: protocol letter case, port spelling, tag order/duplicates come from render();
    here additionally the default port written explicitly"""
    v = json.loads(json.dumps(spec))
    loc = v["loc"]
    if isinstance(loc, dict) and isinstance(loc.get("port"), list):
        loc["port"] = tuple(loc["port"])
    if loc is not None and loc["kind"] in ("host", "ip6") and loc.get("port") in (None, "") and v["proto"] != "PYRO" \
            and rng.random() < 0.7 and not (loc["kind"] == "ip6" and loc.get("junk")):
        loc["port"] = ("val", ns_port)
    return v


def edit_string(rng, s):
    for _ in range(rng.choice([1, 1, 2, 3])):
        i = rng.randint(0, len(s))
        r = rng.random()
        if r < 0.4:
            s = s[:i] + rng.choice(SPECIALS) + s[i:]
        elif r < 0.7 and s:
            s = s[:i] + s[i + 1:]
        elif s:
            s = s[:i] + rng.choice(SPECIALS) + s[i + 1:]
    return s


def gen_cases(ctx, ns_port=9090):
    rng = ctx.rng
    n = ctx.n(3000, 45000)
    cases = []
    for _ in range(n):
        spec = gen_spec(rng)
        r = rng.random()
        if r < 0.06:
            s = rng.choice(BAD_PROTOS) + render(rng, spec)[len(spec["proto"]):]
        elif r < 0.22:
            s = edit_string(rng, render(rng, spec))
        else:
            s = render(rng, spec)
        r2 = rng.random()
        if r2 < 0.30:
            s2 = render(rng, equal_variant(rng, spec, ns_port))   # respelling: must compare equal when both parse
        elif r2 < 0.78:
            v = unequal_variant(rng, spec, ns_port)               # one respect changed: must compare unequal
            s2 = render(rng, v if v is not None else mutate_spec(rng, spec))
        elif r2 < 0.90:
            s2 = render(rng, mutate_spec(rng, spec))              # near variant: one component replaced
        else:
            s2 = edit_string(rng, s)
        if len(s) > 300 or len(s2) > 300:
            continue
        cases.append({"s": s, "s2": s2})
    return cases


def targeted(info):
    """the recorded witnesses, every protocol x location form once in canonical spelling, port boundary spellings"""
    out = [{"s": "PYRO:obj@:55", "s2": "PYRO:obj"}, {"s": "PYRONAME:o@:9090", "s2": "PYRONAME:o"},
           {"s": "PYROMETA:a,b", "s2": "PYROMETA:b,a,a"}, {"s": "PYROMETA:,", "s2": "PYROMETA:"},
           {"s": "PYROMETA:a,b@", "s2": "PYROMETA:b@,a"}, {"s": "PYROMETA:@a,b", "s2": "PYROMETA:b,@a"},
           {"s": "PYRONAME:x@./u", "s2": "PYRONAME:x@./u:9090"}, {"s": "PYROMETA:,@h:1", "s2": "PYROMETA:@h:1"},
           {"s": "PYRONAME:x@[::1]", "s2": "PYRONAME:x@[::1]:%d" % info.get("ns_port", 9090)},
           {"s": "PYRONAME:x@h", "s2": "pyroname:x@h:%d\n" % info.get("ns_port", 9090)},
           {"s": "PYRO:o@[abc]:5", "s2": "PYRO:o@abc:5"}, {"s": "PYRO:o@[::1]:٣4x", "s2": "PYRO:o@[::1]:34"},
           {"s": "PYRO:o@h:-0", "s2": "PYRO:o@h:0"}, {"s": "PYRO:o@h:1_0", "s2": "PYRO:o@h:\u20031٠ "},
           {"s": "PYRO:o@h:\x1c5", "s2": "PYRO:o@h:\x855"}, {"s": "PYRO:@@h:1", "s2": "PYRO:@@@h:1"},
           {"s": "PYRONAME:abc@", "s2": "PYRONAME:abc@\n"}, {"s": "PYRO:o@./u:a b", "s2": "PYRO:o@./u:a:b"},
           {"s": "PYRO:o@h:5\n", "s2": "PYRO:o@h:5\n\n"}, {"s": "PYRO:o@h:" + "9" * 60, "s2": "PYRO:o@h:" + "9" * 59 + "8"}]
    pool = ["PYRO:obj@host.example.com:4444", "pyro:obj@host.example.com:4444", "PYRO:obj@Host.Example.COM:4444",
            "PYRO:obj@HOST.EXAMPLE.COM:+4444", "PYRO:obj@host.example.com:4445", "PYRO:Obj@host.example.com:4444",
            "PYRO:obj@host.example.com.:4444", "PYRO:obj@127.0.0.1:4444", "PYRO:obj@[::1]:4444", "PYRO:obj@[FE80::A]:4444",
            "PYRO:obj@[fe80::a]:4444", "PYRO:obj@:4444", "PYRO:obj@./u:/tmp/Sock", "PYRO:obj@./u:/tmp/sock", "PYRONAME:name",
            "PYRONAME:name@nshost", "PyroName:name@NSHOST:%d" % info.get("ns_port", 9090), "PYRONAME:name@nshost:%d" % (info.get("ns_port", 9090) + 1),
            "PYROMETA:a,b@nshost", "PYROMETA:b,a@NsHost", "PYROMETA:b,a", "PYROMETA:B,a"]
    for i in range(len(pool)):
        for j in range(i, len(pool)):
            out.append({"s": pool[i], "s2": pool[j]})
    for p in PROTOS:
        for loc in ["", "@h:1", "@[::1]:1", "@./u:s", "@h", "@[::1]"]:
            out.append({"s": "%s:a%s" % (p, loc), "s2": "%s:a%s" % (p.lower(), loc)})
    return out


def nontrivial(case, o):
    st = o.get("p_state")
    return st is not None and (st["loc"][0] != "none" or "tags" in st)


def short(o):
    return {k: v for k, v in o.items() if k not in ("ser", "proxy")}


def execute(ctx, cases, model_ok, res, with_oracle=True, deep=True):
    q = probe_quirks()
    res.quirks.update(q)
    lits, kept = [], []
    for case in cases:
        o = run_impl(case, ctx.tree, deep=deep)
        res.seen(case, nontrivial(case, o))
        st = o.get("p_state")
        res.count("parse:" + (o["p_kind"] if not o["p_kind"].startswith("other") else "other"))
        if st is not None:
            res.count("proto:" + st["proto"])
            res.count("loc:" + st["loc"][0])
            if o.get("r_kind") and o["r_kind"] != "ok":
                res.count("reparse:" + o["r_kind"])
        if o.get("eq_v") is not None:
            res.count("variant_equal" if o["eq_v"] else "variant_unequal")
        if with_oracle:
            for sig, what in oracle(case, o):
                res.violations.append({"signature": sig, "what": what, "case": case})
        if any(str(o.get(k, "")).startswith("other:") for k in ("p_kind", "v_kind", "r_kind")):
            res.mismatches.append({"component": "C19", "case": case, "impl": short(o), "model": "no such outcome"})
            continue
        lits.append(c_case(case, o, q))
        kept.append((case, o))
    if model_ok:
        for idx in vlib.run_cases(ctx, "c", IMPORTS, "case", "check_case", lits):
            case, o = kept[idx]
            res.mismatches.append({"component": "C19", "case": case, "impl": short(o)})
    return res


# ---------------------------------------------------------------- name-server store histories (every storage backend)
BACKENDS = ("memory", "sql")
STORE_NAMES = ["n", "obj.a", "Pyro.Other", "x/y", "ü", "N", "n2", "a b"]
_TMP = {}


def store_tmpdir():
    import atexit, shutil, tempfile
    if "d" not in _TMP:
        _TMP["d"] = tempfile.mkdtemp(prefix="C19_store_")
        atexit.register(shutil.rmtree, _TMP["d"], True)
    return _TMP["d"]


def run_store(case, tree="/repo"):
    """play the history on a NameServer over the named storage backend; -> list of observations"""
    import os, tempfile
    from Pyro5 import nameserver as nsmod, core, errors
    path = None
    if case["backend"] == "sql":
        fd, path = tempfile.mkstemp(prefix="ns_", suffix=".sqlite", dir=store_tmpdir())
        os.close(fd)
        os.unlink(path)

    def open_ns():
        return nsmod.NameServer(nsmod.SqlStorage(path)) if path else nsmod.NameServer()
    obs = []
    try:
        ns = open_ns()
        for op in case["ops"]:
            try:
                if op[0] == "reg":
                    _, name, text, tagged, as_obj = op
                    arg, eff, is_obj = text, text, False
                    if as_obj:
                        try:
                            arg = core.URI(text)
                            eff, is_obj = str(arg), True
                        except errors.PyroError:
                            arg = text
                    try:
                        ns.register(name, arg, safe=False, metadata={"m"} if tagged else None)
                        obs.append(["reg", "ok", eff, is_obj])
                    except errors.NamingError as x:
                        obs.append(["other", "register raised NamingError %s" % x])
                    except errors.PyroError:
                        obs.append(["reg", "rejected", eff, is_obj])
                elif op[0] == "del":
                    obs.append(["del", int(ns.remove(op[1]))])
                elif op[0] == "lookup":
                    try:
                        w = ns.lookup(op[1])
                        obs.append(["lookup", state_of(w)])
                    except errors.NamingError:
                        obs.append(["lookup", None])
                    except errors.PyroError:
                        obs.append(["lookup", "unparseable"])     # the stored text is not accepted by URI()
                elif op[0] in ("list", "yp"):
                    d = ns.list(return_metadata=False) if op[0] == "list" else ns.yplookup(meta_any={"m"}, return_metadata=False)
                    obs.append([op[0], sorted([k, str(v)] for k, v in d.items())])
                elif op[0] == "reopen":
                    if path:
                        ns.storage.close()
                        ns = open_ns()
                    obs.append(["reopen"])
            except Unexpected as x:
                obs.append(["other", "state " + str(x)])
            except BaseException as x:
                obs.append(["other", "%s raised %s: %s" % (op[0], type(x).__name__, str(x)[:80])])
    finally:
        if path:
            for ext in ("", "-journal", "-wal", "-shm"):
                try:
                    os.unlink(path + ext)
                except OSError:
                    pass
    return obs


def oracle_store(case, obs):
    """the store is a map name -> uri: what lookup / list / yplookup return is what was registered last under that name"""
    from Pyro5 import core
    bad, ref = [], {}
    where = "backend %s" % case["backend"]
    for i, (op, ob) in enumerate(zip(case["ops"], obs)):
        if ob[0] == "other":
            bad.append(("unexpected-exception", "name server history step %d on %s: %s" % (i, where, ob[1])))
            break
        if op[0] == "reg":
            kind, _ = try_parse(ob[2])
            if (ob[1] == "ok") != (kind == "ok" or ob[3]):      # a URI object is stored as its text form, unchecked
                bad.append(("nameserver-store-differs", "step %d on %s: register(%r, %r) was %s although URI() %s it" % (
                    i, where, op[1], ob[2], ob[1], "accepts" if kind == "ok" else "rejects")))
            if ob[1] == "ok":
                ref[op[1]] = (ob[2], bool(op[3]))
        elif op[0] == "del":
            exp = 1 if op[1] in ref else 0
            ref.pop(op[1], None)
            if ob[1] != exp:
                bad.append(("nameserver-store-differs", "step %d on %s: remove(%r) returned %r, expected %r" % (i, where, op[1], ob[1], exp)))
        elif op[0] == "lookup":
            exp = None
            if op[1] in ref:
                try:
                    exp = state_of(core.URI(ref[op[1]][0]))
                except BaseException:
                    exp = "unparseable"
            if ob[1] != exp:
                bad.append(("nameserver-store-differs", "step %d on %s: lookup(%r) gives %r but the uri registered last under that name is %r" % (
                    i, where, op[1], ob[1], ref.get(op[1], (None,))[0])))
        elif op[0] in ("list", "yp"):
            exp = sorted([k, v[0]] for k, v in ref.items() if op[0] == "list" or v[1])
            if ob[1] != exp:
                bad.append(("nameserver-store-differs", "step %d on %s: %s returns %r, the registrations are %r" % (
                    i, where, "list()" if op[0] == "list" else "yplookup(meta_any={'m'})", ob[1][:6], exp[:6])))
    seen, out = set(), []
    for sig, what in bad:
        if sig not in seen:
            seen.add(sig)
            out.append((sig, what))
    return out


def c_scase(case, obs, ns_port):
    ops, outs = [], []
    for op, ob in zip(case["ops"], obs):
        if op[0] == "reg":
            if ob[1] == "ok":
                ops.append("SReg %s %s %s %s" % (ctext(op[1]), ctext(ob[2]), cbool(bool(op[3])), cbool(not ob[3])))
                outs.append("ORegOk")
            else:   # refused: nothing stored; the property does not say which strings must be accepted
                ops.append("SRefused %s %s" % (ctext(op[1]), ctext(ob[2])))
                outs.append("ORegRejected")
        elif op[0] == "del":
            ops.append("SDel %s" % ctext(op[1]))
            outs.append("ODel %s" % cN(ob[1]))
        elif op[0] == "lookup":
            ops.append("SLookup %s" % ctext(op[1]))
            outs.append("OLookupBad" if ob[1] == "unparseable" else "OLookup %s" % c_uri(ob[1]))
        elif op[0] in ("list", "yp"):
            ops.append("SList" if op[0] == "list" else "SYp")
            outs.append("OListing %s" % clist(["(%s, %s)" % (ctext(k), ctext(v)) for k, v in ob[1]]))
        else:
            ops.append("SReopen")
            outs.append("ONone")
    return "{| sc_ns := %s; sc_ops := %s; sc_obs := %s |}" % (cZ(ns_port), clist(ops), clist(outs))


def gen_store_cases(ctx, ns_port=9090):
    """histories over a few names so that overwrites (register an already registered name, safe=False), removals and
    re-registrations are frequent; every history is played on every backend"""
    rng = ctx.rng
    out = []
    for _ in range(ctx.n(110, 1400)):
        names = rng.sample(STORE_NAMES, rng.choice([1, 2, 3, 4]))
        ops = []
        for _ in range(rng.randint(3, 12)):
            r = rng.random()
            if r < 0.45 or not ops:
                text = render(rng, gen_spec(rng))
                if rng.random() < 0.1:
                    text = edit_string(rng, text)
                if len(text) > 200:
                    continue
                ops.append(["reg", rng.choice(names), text, rng.random() < 0.4, rng.random() < 0.5])
            elif r < 0.68:
                ops.append(["lookup", rng.choice(names)])
            elif r < 0.78:
                ops.append(["list"])
            elif r < 0.86:
                ops.append(["yp"])
            elif r < 0.93:
                ops.append(["del", rng.choice(names)])
            else:
                ops.append(["reopen"])
        ops += [["lookup", n] for n in names] + [["reopen"], ["list"], ["yp"]] + [["lookup", n] for n in names[:2]]
        for b in BACKENDS:
            out.append({"kind": "store", "backend": b, "ops": ops})
    return out


def targeted_store():
    a, b, c = "PYRO:first@host.a:1", "PYRO:second@host.b:2", "PYRONAME:third@[::1]"
    hist = [
        [["reg", "n", a, False, False], ["reg", "n", b, False, False], ["lookup", "n"], ["list"], ["reopen"], ["lookup", "n"], ["list"]],
        [["reg", "n", a, True, True], ["reg", "n", b, True, True], ["lookup", "n"], ["yp"], ["reopen"], ["yp"], ["lookup", "n"]],
        [["reg", "n", a, True, False], ["reg", "m", c, False, True], ["reg", "n", c, False, True], ["yp"], ["list"], ["del", "n"], ["lookup", "n"],
         ["reg", "n", b, True, False], ["lookup", "n"], ["reopen"], ["list"], ["yp"]],
        [["reg", "n", a, False, False], ["reg", "n", "PYRO:bad", False, False], ["lookup", "n"], ["del", "zz"], ["list"]],
    ]
    return [{"kind": "store", "backend": bk, "ops": h} for h in hist for bk in BACKENDS]


def execute_store(ctx, cases, model_ok, res, with_oracle=True):
    from Pyro5 import config
    lits, kept = [], []
    for case in cases:
        obs = run_store(case, ctx.tree)
        res.seen(case, True)
        res.count("store:" + case["backend"])
        res.count("store_ops", len(case["ops"]))
        seen_names = set()
        for op in case["ops"]:
            if op[0] == "reg":
                res.count("store_overwrite" if op[1] in seen_names else "store_first_registration")
                seen_names.add(op[1])
        if with_oracle:
            for sig, what in oracle_store(case, obs):
                res.violations.append({"signature": sig, "what": what, "case": case})
        if any(ob[0] == "other" for ob in obs) or len(obs) != len(case["ops"]):
            res.mismatches.append({"component": "C19-store", "case": case, "impl": obs[-3:], "model": "no such outcome"})
            continue
        lits.append(c_scase(case, obs, config.NS_PORT))
        kept.append((case, obs))
    if model_ok:
        for idx in vlib.run_cases(ctx, "s", IMPORTS, "scase", "check_scase", lits):
            case, obs = kept[idx]
            res.mismatches.append({"component": "C19-store", "case": case, "impl": obs})
    return res


def gen_info(ctx):
    from tools.gen import gen
    st = gen.regenerate(ctx.tree, only=["GenUri"])["GenUri"]
    return st["info"] if st["ok"] else {}


def run(ctx, model_ok=True):
    res = vlib.Result()
    info = gen_info(ctx)
    corpus = vlib.load_corpus(PROP)
    cases = [c for c in corpus if c.get("kind") != "store"] + targeted(info) + gen_cases(ctx, info.get("ns_port", 9090))
    execute(ctx, cases, model_ok, res)
    scases = [c for c in corpus if c.get("kind") == "store"] + targeted_store() + gen_store_cases(ctx, info.get("ns_port", 9090))
    execute_store(ctx, scases, model_ok, res)
    res.rule = ("seeded grammar-based strings: protocol in random letter case (and near-miss protocol words), objects with @ , : [ "
                "punctuation / tag lists with empty, duplicate and @ tags, locations = hostnames, IPv4, bracketed IPv6 (valid and broken), "
                "empty host, ./u: sockets, ports spelled with signs, zero padding, underscores, surrounding whitespace, digits of other "
                "Unicode blocks, missing and malformed ports, optional final newline; 16% of the strings get 1-3 random character edits; "
                "each string is paired with a respelling that must stay equal (protocol case, port spelling, tag order, explicit default port: 30%), "
                "a variant differing in exactly one respect that must make it unequal (letter case of host/object/tag/socket name, one "
                "character, port +-1, default vs other port, trailing dot, tag added/removed: 48%), a one-component replacement or a random edit; "
                "plus all pairs of a 22-string pool; on each pair: == iff all state fields equal, == implies equal hash, symmetry, != is not ==; "
                "ports from the whole integer range (around every width boundary up to 2**200, both signs) through every serializer "
                "(plain and call path), the proxy state and the name server; name-server histories (register incl. overwriting a registered "
                "name, as string and as URI object, with/without metadata; remove; lookup; list; yplookup; reopen) over a few names on every "
                "storage backend (memory, sqlite file) compared with the map model; "
                "non-trivial = accepted with a location or a tag set, or a store history; distinct = distinct case hash")
    res.samples = cases[-3:] + cases[:2]
    return res


def search(ctx, broken):
    res = vlib.Result()
    info = gen_info(ctx)
    allc = [b["case"] for b in broken if b.get("case")] + vlib.load_corpus(PROP)
    for case in [c for c in allc if c.get("kind") == "store"] + targeted_store() + gen_store_cases(ctx, info.get("ns_port", 9090)):
        res.seen(case)
        for sig, what in oracle_store(case, run_store(case, ctx.tree)):
            res.violations.append({"signature": sig, "what": what, "case": case})
    cases = [c for c in allc if c.get("kind") != "store"] + targeted(info) + gen_cases(ctx, info.get("ns_port", 9090))
    for case in cases:
        o = run_impl(case, ctx.tree, deep=False)
        res.seen(case)
        for sig, what in oracle(case, o):
            res.violations.append({"signature": sig, "what": what, "case": case})
    return res


def replay(ctx, case):
    if case.get("kind") == "store":
        obs = run_store(case, ctx.tree)
        bad = oracle_store(case, obs)
        if bad:
            return True, {"oracle": bad, "impl": obs}
        res = vlib.Result()
        execute_store(ctx, [case], True, res, with_oracle=False)
        if res.mismatches:
            from Pyro5 import config
            model = vlib.eval_model(ctx, IMPORTS, "model_store (%s)" % c_scase(case, obs, config.NS_PORT))
            return True, {"mismatch": True, "impl": obs, "model": model[-2500:]}
        return False, {"impl": obs}
    o = run_impl(case, ctx.tree)
    bad = oracle(case, o)
    if bad:
        return True, {"oracle": bad, "impl": short(o)}
    res = vlib.Result()
    execute(ctx, [case], True, res, with_oracle=False, deep=False)
    if res.mismatches:
        model = vlib.eval_model(ctx, IMPORTS, "model_out (%s)" % c_case(case, o, probe_quirks()))
        return True, {"mismatch": True, "impl": short(o), "model": model[-2500:]}
    return False, {"impl": short(o)}
