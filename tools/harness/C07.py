"""C07 — remote exceptions arrive as the same exception with the same content.
Real Proxy <-> real Daemon through the in-process loopback vs Model/Excs.v (DESIGN 6/C07)."""
import json
from tools.lib import vlib, c07impl
from tools.lib.vlib import cbool, clist, ctext, cnat, cZ

PROP = "C07"
GEN = ["GenExcs"]
ASSUMPTIONS = [
    "the four serializer libraries return plain data (None/bool/int/str/list/str-keyed dict) unchanged and refuse an "
    "`object()` instance (model parameter `codec`; instance std_codec validated by every correspondence case); the class of the "
    "error a serializer raises for unserialisable content (model parameter `serr`) is measured per case by calling "
    "serializers[...].dumps(exc) directly, outside the daemon",
    "cls(*args).args == args for the generated argument tuples (model parameter `ctor`; probed per case, cases whose "
    "constructor rejects or rewrites the arguments are skipped and counted)",
    "the server side is driven synchronously through tools/lib/loopback.py with the containment of the thread server "
    "(an exception leaving handleRequest closes the connection)",
    "nested dicts carrying a '__class__' key and Pyro object tags (URI/Proxy/Daemon) are outside the modelled domain (C04)",
]
IMPORTS = "From V Require Import Model.Excs Gen.GenExcs Harness.Cmp Harness.H07."
SER_COQ = {"serpent": "Serpent", "marshal": "Marshal", "json": "Json", "msgpack": "Msgpack"}
COMM = "Pyro5.errors.CommunicationError"
SERR = "Pyro5.errors.SerializeError"
SEC = "Pyro5.errors.SecurityError"

_RIG = {}


def rig(ctx):
    if "rig" not in _RIG:
        _RIG["rig"] = c07impl.Rig()
        _RIG["quirks"] = c07impl.probe_quirks(_RIG["rig"])
    return _RIG["rig"], _RIG["quirks"]


# ---------------------------------------------------------------- Gallina printers
_SERR = [None]     # class of the error the serializer raises for the current case's content (probe_dumps)


def c_xval(v):
    if v is None:
        return "XNone"
    if isinstance(v, bool):
        return "(XBool %s)" % cbool(v)
    if isinstance(v, int):
        return "(XInt %s)" % cZ(v)
    if isinstance(v, str):
        return "(XStr %s)" % ctext(v)
    if isinstance(v, list):
        return "(XList %s)" % clist([c_xval(x) for x in v])
    if "$opaque" in v:
        return "XOpaque"
    if "$bad" in v or "$deep" in v:
        return "(XBadObj %s)" % c_cinfo(_SERR[0])
    return "(XDict %s)" % c_attrs(v["$dict"])


def c_attrs(kvs):
    return clist(["(%s, %s)" % (ctext(k), c_xval(x)) for k, x in kvs])


def c_cinfo(canon):
    mod, name = canon["cls"].rsplit(".", 1)
    return "{| c_name := %s; c_mod := %s; c_mro := %s |}" % (ctext(name), ctext(mod), clist([ctext(m) for m in canon["mro"]]))


def c_outcome(o):
    k = o["o"]
    if k == "raised":
        return "(ORaised %s %s %s)" % (ctext(o["cls"]), clist([c_xval(a) for a in o["args"]]), c_attrs(o["attrs"]))
    if k == "fallback":
        return "(OFallback %s %s %s)" % (ctext(o["cls"]), ctext(o["orig"]), cbool(o["tb"]))
    if k == "sererr":
        return "(OSerErr %s)" % ctext(o["cls"])
    if k == "client":
        return "(OClientErr %s)" % ctext(o["cls"])
    if k == "local":
        return "(OLocalErr %s)" % ctext(o["cls"])
    if k == "lost":
        return "OConnLost"
    if k == "hang":
        return "OHang"
    if k == "returned":
        return "OReturned"
    raise KeyError(k)


def c_case(case, canon, obs, quirks):
    _SERR[0] = canon.get("serr")
    kind = {"plain": "KPlain", "attr": "KAttr", "setattr": "KAttr", "stream": "KStream"}.get(case["kind"])   # attribute access: get or set
    if kind is None:
        kind = "(KBatch %s)" % clist(["(XInt %s)" % cZ(100 + i) for i in range(case.get("before", 0))])
    return ("{| cs_quirks := {| q_marshal_none_kwargs := %s; q_marshal_shallow := %s |}; cs_ser := %s; cs_kind := %s; "
            "cs_exc := {| e_cls := %s; e_args := %s; e_attrs := %s |}; cs_tb := (XStr %s); cs_before := %s; cs_out := %s; "
            "cs_server_open := %s; cs_client_conn := %s; cs_next_ok := %s |}") % (
        cbool(quirks["q_marshal_none_kwargs"]), cbool(quirks["q_marshal_shallow"]), SER_COQ[case["ser"]], kind,
        c_cinfo(canon), clist([c_xval(a) for a in canon["args"]]), c_attrs(canon["attrs"]), ctext(c07impl.expected_token(canon["entry"])),
        cnat(obs["before"]), c_outcome(obs["out"]), cbool(obs["server_open"]), cbool(obs["client_conn"]), cbool(obs["next_ok"]))


# ---------------------------------------------------------------- the property, stated over the observation
def oracle(case, canon, obs):
    """[] or [(signature, what)]"""
    bad = []
    out = obs["out"]
    cls, mro = canon["cls"], canon["mro"]
    short = cls.rsplit(".", 1)[1]
    content_ok = not any(c07impl.has_opaque(a) for a in canon["args"]) and not any(c07impl.has_opaque(v) for _, v in canon["attrs"])
    known = c07impl.whitelisted(cls)
    where = "%s/%s/%s" % (case["ser"], case["kind"], cls)
    k = out["o"]
    if k == "hang":
        bad.append(("hang:no-reply-connection-kept", "%s: the method raised %s, the daemon neither answered nor closed the connection: the caller blocks (TimeoutError only because this client has a timeout)" % (where, short)))
    elif k == "lost":
        if COMM in mro and SERR not in mro:
            bad.append(("no-reply:communication-error-from-method",
                        "%s: the method raised %s, the daemon sent no reply and dropped the connection; caller got ConnectionClosedError" % (where, short)))
        elif "builtins.Exception" not in mro:
            bad.append(("no-reply:non-Exception-class", "%s: the method raised %s (not an Exception subclass): no reply, connection dropped" % (where, short)))
        else:
            bad.append(("no-reply", "%s: no reply to a call whose method raised %s" % (where, short)))
    elif k == "returned":
        bad.append(("silent-return", "%s: the call returned %s although the method raised %s" % (where, out.get("values"), short)))
    elif k == "local":
        if case["ser"] == "marshal" and case["kind"] in ("attr", "batch") and "NoneType" in obs.get("exc_str", ""):
            bad.append(("marshal-none-kwargs", "%s: with the marshal serializer attribute access / batch calls fail inside the client (%s) before anything is sent" % (where, obs.get("exc_str"))))
        else:
            bad.append(("call-failed-locally", "%s: the call failed in the client before anything was sent: %s" % (where, obs.get("exc_str"))))
    elif known and content_ok:
        # first sentence of the property: same class, equal args, equal attributes, traceback
        if k != "raised" or out["cls"] != cls:
            got = out.get("cls")
            if case["kind"] == "batch" and "builtins.StopIteration" in mro and got == "builtins.RuntimeError":
                bad.append(("batch-stopiteration-becomes-runtimeerror", "%s: a batch member raising StopIteration reaches the caller as RuntimeError (raised inside the result generator)" % where))
            elif k == "client" and got == cls:
                bad.append(("traceback-missing", "%s: %s arrives without the remote traceback text%s" % (
                    where, short, " (another worker answered a call that raised the same exception instance while this reply was being serialised)" if case.get("concurrent") else "")))
            elif case["kind"] == "batch" and case["ser"] == "marshal" and k == "sererr":
                bad.append(("marshal-batch-unmarshallable", "%s: marshal converts only the top-level object, the batch result list holding the wrapped exception is unmarshallable; caller got %s" % (where, got)))
            else:
                bad.append(("wrong-class", "%s: caller got %s (%s) instead of %s" % (where, got, k, cls)))
        else:
            if out["args"] != canon["args"]:
                bad.append(("args-differ", "%s: args %r arrived as %r" % (where, canon["args"], out["args"])))
            got = sorted([kv for kv in out["attrs"] if kv[0] != "_pyroTraceback"])
            want = sorted([kv for kv in canon["attrs"] if kv[0] != "_pyroTraceback"])
            if got != want:
                bad.append(("attrs-differ", "%s: attributes %r arrived as %r" % (where, want, got)))
            tok = [kv[1] for kv in out["attrs"] if kv[0] == "_pyroTraceback"]
            if not tok or not tok[0]:
                bad.append(("traceback-missing", "%s: the exception carries no remote traceback" % where))
            elif tok[0] != c07impl.expected_token(canon["entry"]):
                bad.extend(tb_violation(where, tok[0], canon, case))
            if case["kind"] == "batch" and obs["before"] != case.get("before", 0):
                bad.append(("batch-position", "%s: exception raised after %d results instead of %d" % (where, obs["before"], case.get("before", 0))))
    else:
        # second sentence: a Pyro error describing the original
        text = obs.get("exc_str", "")
        describes = short in text
        if not obs.get("exc_is_pyroerror") or not describes:
            if case["kind"] == "batch" and not content_ok:
                bad.append(("batch-unserialisable-no-fallback", "%s: unserialisable exception content in a batch: caller got %s (%r), not a Pyro error describing the original" % (where, out.get("cls"), text[:120])))
            elif case["kind"] == "batch" and case["ser"] == "marshal" and k == "sererr":
                bad.append(("marshal-batch-unmarshallable", "%s: caller got %s" % (where, out.get("cls"))))
            else:
                bad.append(("no-pyro-error-for-unserialisable", "%s: caller got %s (%r) instead of a Pyro error describing %s" % (where, out.get("cls"), text[:120], short)))
        if k == "fallback" and not (canon["typerepr"] in text and canon["str"] in text):
            bad.append(("fallback-does-not-describe-original", "%s: the generic error %r does not name the original class and message (%s: %s)" % (where, text[:160], canon["typerepr"], canon["str"][:80])))
        if k == "fallback" and out["tb"] and out.get("tbtok") != c07impl.expected_token(canon["entry"]):
            bad.extend(tb_violation(where + " (generic error)", out.get("tbtok") or "TB:?@?", canon, case))
        if k == "fallback" and not out["tb"]:
            bad.append(("traceback-missing", "%s: the fallback error carries no remote traceback" % where))
    nested = obs.get("nested")
    if nested is not None and (k in ("raised", "fallback") or (k == "client" and out.get("cls") == cls)):
        # the second, concurrent call that raised the same instance must get its own complete error reply as well
        ntok = [kv[1] for kv in nested.get("attrs", []) if kv[0] == "_pyroTraceback"] if nested["o"] == "raised" else [nested.get("tbtok")]
        if nested["o"] not in ("raised", "fallback") or not ntok or ntok[0] != c07impl.expected_token(canon["entry"]):
            bad.append(("traceback-missing", "%s: the concurrent second call raising the same exception instance got %s without this call's remote traceback" % (where, nested.get("cls", nested["o"]))))
    if k not in ("local",) and not obs["next_ok"]:
        fam = "SecurityError" if SEC in mro else ("SerializeError" if SERR in mro else "other-class")
        bad.append(("dead-connection-after:" + fam, "%s: the next call on the same proxy failed with %s (server closed the connection after replying, client kept it)" % (where, obs.get("next_exc"))))
    return bad


def tb_violation(where, tok, canon, case):
    ent, _, site = tok[3:].partition("@")
    if ent != canon["entry"]:
        return [("traceback-of-another-call", "%s: the remote traceback text describes %s, not the call that failed (entry point %s)%s" % (
            where, ent, canon["entry"], "; the same exception instance was raised before by a %s call" % case["prior"] if case.get("prior") else ""))]
    return [("traceback-lacks-raise-site", "%s: the remote traceback text starts at the entry point %s but does not show the function and line that raised (%s, %d calls below the entry point)" % (
        where, ent, c07impl.RAISE_FN, case.get("depth", 0) + 1))]


# ---------------------------------------------------------------- generator
WORDS = ["", "x", "boom", "not found", "a.b", "Error: 7", "café", "你好", "\U0001f600 ok", "line1\nline2", "'q\"", "\\", "0", " "]
ATTR_NAMES = ["foo", "bar", "code2", "detail", "x", "_private", "payload", "Mixed_Case9", "_pyroTraceback"]
# every shape of name vars(exc) can hold: plain, leading underscore, dunder (PEP 678 notes are vars(e)["__notes__"]),
# strings that are not identifiers (set through __dict__)
ODD_ATTR_NAMES = ["__notes__", "__notes__", "__custom__", "__x", "__", "___", "_", "__pyro", "_Cls__mangled", "has space", "1abc", "a.b",
                  "", "ü-é", "with-dash", "class", "None", "k\tt", "__exception__", "args2", "0", "😀"]


def gen_val(rng, depth=0):
    r = rng.random()
    if depth >= 2 or r < 0.62:
        c = rng.randrange(6)
        if c == 0:
            return None
        if c == 1:
            return rng.random() < 0.5
        if c == 2:
            return rng.choice([0, 1, -1, 7, 255, -256, 2 ** 31, -2 ** 63, 2 ** 64, 2 ** 70 + 5, -10 ** 30, rng.randint(-10 ** 6, 10 ** 6)])
        return rng.choice(WORDS) if rng.random() < 0.7 else "".join(rng.choice("abcXYZ09 _-.éλ") for _ in range(rng.randrange(12)))
    if r < 0.82:
        return [gen_val(rng, depth + 1) for _ in range(rng.randrange(4))]
    keys = rng.sample(["a", "b", "key", "k2", "ü", "z_9", ""], rng.randrange(4))
    return {"$dict": [[k, gen_val(rng, depth + 1)] for k in sorted(keys)]}


def shapes(rng):
    """argument tuples tried for a class, most specific last"""
    s = rng.choice(WORDS)
    return [
        [gen_val(rng) for _ in range(rng.randrange(4))],
        [s], [], [s, rng.randint(-99, 99)], [rng.randint(0, 130), s], [None], [gen_val(rng), gen_val(rng)],
        [{"$dict": [["k", [1, None]]]}], [s, [1, "a", None]],
    ]


def gen_attrs(rng, opaque):
    n = rng.choice([0, 0, 1, 1, 2, 3])
    names = rng.sample(ATTR_NAMES[:-1], n)
    if rng.random() < 0.04:
        names.append("_pyroTraceback")
    if rng.random() < 0.3:
        names += rng.sample(ODD_ATTR_NAMES, rng.choice([1, 1, 2]))
        names = list(dict.fromkeys(names))
    attrs = [[k, ([rng.choice(WORDS) or "n" for _ in range(rng.choice([1, 1, 2, 3]))] if k == "__notes__" else gen_val(rng))] for k in names]
    if opaque == "attr":
        attrs.append(["bad", dict(c07impl.OPAQUE) if rng.random() < 0.6 else [1, dict(c07impl.OPAQUE)]])
    if opaque == "bad":
        b = gen_bad(rng, deep_ok=True)
        attrs.append(["bad", b if rng.random() < 0.7 or "$deep" in b else [rng.choice(WORDS), b]])
    return attrs


SERR_POOL = ["builtins.AttributeError", "builtins.KeyError", "builtins.RuntimeError", "builtins.ZeroDivisionError",
             "builtins.OSError", "c07mod.UserError", "builtins.LookupError", "builtins.AssertionError", "builtins.TypeError",
             "builtins.ValueError", "Pyro5.errors.SerializeError", "builtins.RecursionError", "builtins.MemoryError",
             "builtins.UnicodeError", "builtins.StopIteration", "Pyro5.errors.NamingError"]
DEEP = 5000


def gen_bad(rng, deep_ok):
    """a value whose serialisation fails, with an error class drawn from a wide pool"""
    if deep_ok and rng.random() < 0.12:
        return {"$deep": DEEP}
    return {"$bad": {"how": rng.choice(c07impl.BAD_HOWS), "raises": rng.choice(SERR_POOL)}}


def gen_cases(ctx, classes):
    rng = ctx.rng
    cases = []
    per_combo = ctx.n(1, 8)
    allcls = list(classes) + list(c07impl.USER_CLASSES)
    for cls in allcls:
        for ser in c07impl.SERIALIZERS:
            for kind in c07impl.KINDS:
                reps = per_combo if (ctx.quick and rng.random() < 0.55) or not ctx.quick else per_combo + 1
                for _ in range(reps):
                    opaque = rng.choice([None] * 7 + ["attr", "arg", "bad", "bad", "badarg"])
                    sh = shapes(rng)
                    args = sh[0] if rng.random() < 0.5 else rng.choice(sh[1:])
                    if opaque == "arg":
                        args = list(args) + [dict(c07impl.OPAQUE)]
                    if opaque == "badarg":
                        args = list(args) + [gen_bad(rng, deep_ok=False)]
                    case = {"ser": ser, "kind": kind, "cls": cls, "args": args, "attrs": gen_attrs(rng, opaque),
                            "alt_args": sh[1:5]}
                    if kind == "batch":
                        case["before"] = rng.choice([0, 1, 1, 2, 3])
                    if rng.random() < 0.45:
                        case["depth"] = rng.choice(c07impl.DEPTHS[1:])       # raised that many calls below the entry point
                    if rng.random() < (0.5 if kind in ("attr", "setattr") else 0.15):
                        case["hooks"] = True                                 # target class defines __getattr__ / __setattr__
                    if kind != "batch" and rng.random() < 0.06:
                        # two workers answer calls that raised the same instance; see c07impl.DumpsGate
                        case["concurrent"] = True
                    if rng.random() < 0.2:
                        # history: the same exception instance was already raised once, from another entry point
                        case["prior"] = rng.choice([k for k in c07impl.KINDS if k != kind])
                        if rng.random() < 0.3:
                            case["prior_ser"] = rng.choice(c07impl.SERIALIZERS)
                        if rng.random() < 0.3:
                            case["prior_depth"] = rng.choice(c07impl.DEPTHS)
                    cases.append(case)
    rng.shuffle(cases)
    return cases


def targeted():
    out = []
    for ser in c07impl.SERIALIZERS:
        for kind in c07impl.KINDS:
            b = {"before": 2} if kind == "batch" else {}
            for cls, args, attrs in [
                ("builtins.ValueError", ["x", 3], [["foo", [1, {"$dict": [["a", None]]}]]]),
                ("Pyro5.errors.CommunicationError", ["c"], []),
                ("Pyro5.errors.TimeoutError", ["t"], []),
                ("Pyro5.errors.SecurityError", ["s"], [["detail", 7]]),
                ("Pyro5.errors.SerializeError", ["z"], []),
                ("Pyro5.errors.SerializeError", ["z"], [["bad", dict(c07impl.OPAQUE)]]),
                ("Pyro5.errors.NamingError", ["n", 1], [["bad", dict(c07impl.OPAQUE)]]),
                ("builtins.KeyError", [dict(c07impl.OPAQUE)], []),
                ("builtins.SystemExit", [3], []),
                ("builtins.KeyboardInterrupt", [], []),
                ("builtins.StopIteration", [5], []),
                ("builtins.OSError", [2, "nf"], []),
                ("builtins.ValueError", ["x"], [["_pyroTraceback", "mine"]]),
                ("c07mod.UserError", ["m", 1], []),
                ("builtins.ValueError", ["noted"], [["__notes__", ["first note", "second"]], ["foo", 1]]),
                ("builtins.KeyError", ["k"], [["__custom__", [1, None]], ["has space", "v"], ["", 0], ["_", True]]),
                ("Pyro5.errors.ConnectionClosedError", ["lost upstream"], []),
                ("builtins.ValueError", ["original message"], [["payload", {"$bad": {"how": "slots", "raises": "builtins.AttributeError"}}]]),
                ("builtins.ValueError", ["original message"], [["payload", {"$bad": {"how": "getstate", "raises": "builtins.KeyError"}}]]),
                ("builtins.RuntimeError", ["r", 2], [["payload", {"$bad": {"how": "getstate", "raises": "builtins.ZeroDivisionError"}}]]),
                ("builtins.KeyError", ["k"], [["payload", [1, {"$bad": {"how": "getstate", "raises": "c07mod.UserError"}}]]]),
                ("Pyro5.errors.NamingError", ["n"], [["payload", {"$bad": {"how": "dictprop", "raises": "builtins.OSError"}}]]),
                ("builtins.ValueError", ["v", {"$bad": {"how": "getstate", "raises": "builtins.RuntimeError"}}], []),
                ("builtins.ValueError", ["original message"], [["payload", {"$bad": {"how": "iter", "raises": "builtins.LookupError"}}]]),
                ("builtins.ValueError", ["original message"], [["payload", {"$bad": {"how": "len", "raises": "builtins.AssertionError"}}]]),
                ("builtins.ValueError", ["original message"], [["payload", {"$deep": DEEP}]]),
                ("__main__.DunderModuleError", ["m"], []),
            ]:
                out.append(dict({"ser": ser, "kind": kind, "cls": cls, "args": args, "attrs": attrs}, **b))
            if kind != "batch":
                out.append({"ser": ser, "kind": kind, "concurrent": True, "cls": "builtins.ValueError", "args": ["resource is poisoned", 42],
                            "attrs": [["resource", "db-7"], ["retry_after", 30]]})
                out.append({"ser": ser, "kind": kind, "concurrent": True, "depth": 10, "cls": "Pyro5.errors.NamingError", "args": ["n"],
                            "attrs": [["payload", dict(c07impl.OPAQUE)]]})
            for depth in c07impl.DEPTHS[1:]:
                out.append(dict({"ser": ser, "kind": kind, "depth": depth, "cls": "builtins.ValueError", "args": ["deep", depth], "attrs": []}, **b))
            out.append(dict({"ser": ser, "kind": kind, "depth": 200, "cls": "builtins.KeyError", "args": ["k"], "attrs": [["payload", dict(c07impl.OPAQUE)]]}, **b))
            for hk_cls, hk_args, hk_attrs in [("builtins.AttributeError", ["no such thing", 3], [["foo", [1]]]), ("builtins.AttributeError", [], []),
                                              ("builtins.ValueError", ["v"], [["foo", 1]]), ("builtins.LookupError", ["l"], [])]:
                out.append(dict({"ser": ser, "kind": kind, "hooks": True, "cls": hk_cls, "args": hk_args, "attrs": hk_attrs}, **b))
            # histories: one exception instance raised twice, by two different entry points
            for prior in c07impl.KINDS:
                if prior != kind:
                    out.append(dict({"ser": ser, "kind": kind, "prior": prior, "cls": "builtins.ValueError", "args": ["stored failure", 1],
                                     "attrs": [["foo", 2]]}, **b))
            out.append(dict({"ser": ser, "kind": kind, "prior": "plain" if kind != "plain" else "attr", "cls": "builtins.RuntimeError", "args": ["again"],
                             "attrs": [["payload", dict(c07impl.OPAQUE)]]}, **b))
    return out


# ---------------------------------------------------------------- running
def run_one(ctx, case, res=None):
    """returns (canon, obs) or (None, reason)"""
    r, quirks = rig(ctx)
    exc, canon = c07impl.build_exception(case)
    if exc is None:
        for alt in case.get("alt_args", []):
            c2 = dict(case, args=alt)
            exc, canon2 = c07impl.build_exception(c2)
            if exc is not None:
                case["args"] = alt
                canon = canon2
                break
        if exc is None:
            return None, canon
    canon["entry"] = c07impl.entry_of(case["kind"], exc)
    if case.get("prior"):
        c07impl.run_prior(r, case, exc)
        # what the server's exception object carries now (the daemon stores _pyroTraceback on it)
        try:
            canon["attrs"] = [[k, (c07impl.tb_token(v) or c07impl.enc(v)) if k == "_pyroTraceback" and not isinstance(v, str) else c07impl.enc(v)]
                              for k, v in vars(exc).items()]
        except ValueError:
            return None, "outside-domain"
    if any(c07impl.has_opaque(a) for a in canon["args"]) or any(c07impl.has_opaque(v) for _, v in canon["attrs"]):
        canon["serr"] = c07impl.probe_dumps(case["ser"], exc)
        if canon["serr"] is None:
            return None, "bad-value-serialisable"     # this library copes with the value: outside the domain
    obs = c07impl.run_call(r, case, exc, canon)
    return canon, obs


def execute(ctx, cases, model_ok, res, use_model=True):
    r, quirks = rig(ctx)
    lits, kept = [], []
    for case in cases:
        case.pop("canon", None)
        canon, obs = run_one(ctx, case)
        if canon is None:
            res.count("skipped:" + str(obs).split(":")[0])
            res.count("skipped-class:" + case["cls"])
            continue
        case.pop("alt_args", None)
        res.extra.setdefault("_ran", set()).add(case["cls"])
        out = obs["out"]
        res.seen(case, out["o"] != "local")
        res.count("%s:%s" % (case["kind"], out["o"]))
        res.count("ser:" + case["ser"])
        for sig, what in oracle(case, canon, obs):
            res.violations.append({"signature": sig, "what": what, "case": case})
        if out["o"] == "raised-outside-domain":
            res.mismatches.append({"component": "C07", "case": case, "impl": obs, "model": "observation outside the model's vocabulary"})
            continue
        if use_model:
            lits.append(c_case(case, canon, obs, quirks))
            kept.append((case, obs))
    if model_ok and use_model and lits:
        for idx in vlib.run_cases(ctx, "c", IMPORTS, "case", "check_case", lits, shard=150):
            case, obs = kept[idx]
            res.mismatches.append({"component": "C07", "case": case, "impl": obs})
    return res


def class_list(ctx):
    from tools.gen import gen
    st = gen.regenerate(ctx.tree, only=["GenExcs"])["GenExcs"]
    if st["ok"]:
        return [c["mod"] + "." + c["name"] for c in st["info"]["classes"]]
    import builtins
    import Pyro5.errors as errors
    out = sorted({"builtins." + t.__name__ for t in vars(builtins).values() if isinstance(t, type) and issubclass(t, BaseException)})
    out += sorted({"Pyro5.errors." + t.__name__ for t in vars(errors).values() if isinstance(t, type) and issubclass(t, errors.PyroError)})
    return out


def run(ctx, model_ok=True):
    res = vlib.Result()
    r, quirks = rig(ctx)
    res.quirks = dict(quirks)
    classes = class_list(ctx)
    cases = vlib.load_corpus(PROP) + targeted() + gen_cases(ctx, classes)
    execute(ctx, cases, model_ok, res)
    res.extra["classes_total"] = len(classes)
    ran = res.extra.pop("_ran", set())
    res.extra["classes_exercised"] = len([c for c in classes if c in ran])
    res.extra["classes_never_constructible"] = sorted(c for c in classes if c not in ran)
    res.rule = ("every exception class of builtins and Pyro5.errors (plus three classes unknown to the receiver) x 4 serializers x "
                "{plain call, exposed property get, exposed property set, stream item, batch member at position 0..3} x target class "
                "with / without __getattr__ and __setattr__ hooks x raise site 1, 2, 11, 61 or 201 calls below the dispatched function x generated args/attributes (names of every "
                "shape vars(exc) can hold: plain, underscore, dunder incl. PEP 678 __notes__ via add_note, non-identifier strings) from "
                "None/bool/int/str/list/dict, 5 in 12 with unserialisable content in args or attributes: a bare object(), objects whose "
                "__getstate__ / unassigned slot / __dict__ property / dict or list protocol raises a class drawn from a pool of 16 "
                "(AttributeError, KeyError, RuntimeError, ZeroDivisionError, OSError, a user class, ...), a list nested 5000 deep; "
                "6% of the non-batch cases in a forced two-worker interleaving (a second client's complete call raising the same instance "
                "runs while the first reply is at serializer.dumps); 1 in 5 cases with a history (the same exception instance raised before by another entry point / serializer); "
                "the class of the serializer's error is measured per case by calling serializer.dumps directly; classes whose "
                "constructor rejects every tried argument tuple are skipped and counted; distinct = distinct case hash")
    res.samples = [c for c in cases if "alt_args" not in c][:5]
    return res


def search(ctx, broken):
    res = vlib.Result()
    classes = class_list(ctx)
    cases = [b["case"] for b in broken if b.get("case")] + targeted() + gen_cases(ctx, classes)
    execute(ctx, cases, False, res, use_model=False)
    return res


def replay(ctx, case):
    case = dict(case)
    canon, obs = run_one(ctx, case)
    if canon is None:
        return False, {"skipped": obs}
    bad = oracle(case, canon, obs)
    known = {k["signature"] for k in vlib.load_known() if k.get("property") == PROP and k.get("status") == "open"}
    newbad = [b for b in bad if b[0] not in known]
    if newbad:
        return True, {"oracle": newbad, "impl": obs}
    res = vlib.Result()
    execute(ctx, [dict(case)], True, res)
    if res.mismatches:
        r, quirks = rig(ctx)
        model = vlib.eval_model(ctx, IMPORTS, "model_run (%s)" % c_case(case, canon, obs, quirks))
        return True, {"mismatch": True, "impl": obs, "model": model[-1500:]}
    return False, {"impl": obs, "known_findings": bad}
