"""C16 — daemon registry: histories of register/unregister/uriFor/proxyFor/call/return/gc against
Model/Registry.v (DESIGN 6/C16).  A real Proxy talks to a real Daemon through tools/lib/loopback.py."""
import gc, json, weakref
from tools.lib import vlib, loopback
from tools.lib.vlib import cnat, cbool, clist

PROP = "C16"
GEN = []
ASSUMPTIONS = [
    "CPython reference counting runs weakref finalizers at the modelled Gc point (the harness checks the object really died)",
    "generated ids (uuid4) never collide with explicit ids or with each other",
    "the helper object that returns pool objects is registered under a fixed extra id that the histories never use; it is filtered from registered()",
    "serpent, json and msgpack are run; marshal does no auto-proxying and is not part of the property",
    "instances of registered classes (which inherit the class's marks) are not returned from methods in the histories",
    "reachability, listing and proxying do not depend on the object's truth value, length, equality or hash: the model has no access to them; pool objects of all these shapes are run against it",
    "every history uses classes of its own for its pool objects (serializer type replacements are process-global), so no earlier history can have taught the serializers a type",
]
IMPORTS = "From V Require Import Model.Registry Harness.Cmp Harness.H16."
NAMES = ["alpha", "beta", "Pyro.NameServer", "obj_0123456789abcdef0123456789abcdef"]
GIVER_ID = "c16.giver"
SERIALIZERS = ["serpent", "json", "msgpack"]
NOBJ, NCLS = 4, 2
QUIRKS = ["unreg_id_keeps_daemon_mark", "unreg_obj_trusts_stale_id", "force_keeps_displaced_marks",
          "weak_double_register", "finalizer_unregisters_id", "uri_trusts_stale_id"]

# truthiness / comparison shapes of pool objects: what the object looks like to `if obj:` and `==`
SHAPES = ["plain", "len0", "lenstate", "boolfalse", "eqhash"]
_env = {}


def env():
    """classes are created once per process, against the tree under test"""
    if _env:
        return _env
    import Pyro5.api as api
    from Pyro5 import serializers
    class LazyPool(dict):
        """slot -> pool object, created on first use by the current World"""
        maker = None

        def __missing__(self, n):
            self[n] = self.maker(n)
            return self[n]
    pool = LazyPool()

    @api.expose
    class C16Obj(object):
        """base of the pool objects; every history gets its own subclass per slot (see World.slot_class)"""
        def __init__(self, serial):
            self.serial = serial
            self.calls = 0

        def whoami(self):
            self.calls += 1
            return ["obj", self.serial]

        def get_metadata(self, objectId):
            # a pool object that (with force) takes the daemon's reserved id has to do the daemon object's job
            # during connection handshakes, otherwise nothing can be observed over the wire any more
            import Pyro5.server
            return Pyro5.server.DaemonObject(_env["daemon"]).get_metadata(objectId)

    @api.expose
    class C16K0(object):
        def whoami(self):
            return ["cls", 0]

    @api.expose
    class C16K1(object):
        def whoami(self):
            return ["cls", 1]

    @api.expose
    class C16Giver(object):
        def give(self, k):
            return pool[k]

    # (not for serpent: it looks converters up by isinstance in registration order, so a converter for the base class
    #  would shadow the auto-proxy replacement of the per-history subclasses; serpent's default class form is handled below)
    serializers.SerializerBase.register_class_to_dict(C16Obj, lambda o: {"__class__": "C16Obj", "serial": o.serial}, serpent_too=False)
    for name in ("C16Obj", C16Obj.__module__ + ".C16Obj", "c16pool.C16Obj"):    # the latter two: serpent's default class form
        serializers.SerializerBase.register_dict_to_class(name, lambda cn, d: ("byvalue", d["serial"]))
    _env.update(pool=pool, Obj=C16Obj, classes=[C16K0, C16K1], Giver=C16Giver)
    return _env


class World:
    """one daemon, a pool of objects and classes, and the bookkeeping needed to name what was reached"""
    def __init__(self, ser, shapes=()):
        from Pyro5 import config
        import Pyro5.core
        e = env()
        self.e = e
        self.old_ser, self.old_retries, self.old_st = config.SERIALIZER, config.MAX_RETRIES, config.SERVERTYPE
        config.SERIALIZER, config.MAX_RETRIES, config.SERVERTYPE = ser, 0, "multiplex"   # (its close() does not sleep)
        self.DAEMON_NAME = Pyro5.core.DAEMON_NAME
        for k in e["classes"]:
            for a in ("_pyroId", "_pyroDaemon", "_pyroInstancing"):
                if a in vars(k):
                    delattr(k, a)
        self.daemon = loopback.make_daemon()
        e["daemon"] = self.daemon
        self.dobj = self.daemon.objectsById[self.DAEMON_NAME]
        self.serial = 0
        self.slot_of = {}
        self.shapes = list(shapes)
        self.cls = {}
        self.pool = e["pool"]
        self.pool.clear()
        self.pool.maker = self.fresh
        self.giver = e["Giver"]()
        self.daemon.register(self.giver, GIVER_ID)
        self.generated = []
        self.net = loopback.Loopback(self.daemon)
        self.net.__enter__()
        self.gp = None
        self.loc = self.daemon.locationStr

    def slot_class(self, n):
        """a class of its own per slot and history: the serializers' type replacements are process-global and never
        removed, so an earlier history must not have taught them this type already"""
        if n not in self.cls:
            base = self.e["Obj"]
            shape = self.shapes[n] if n < len(self.shapes) else "plain"
            extra = {"plain": {},
                     "len0": {"__len__": lambda o: 0},
                     "lenstate": {"__len__": lambda o: o.calls},          # empty until its first successful call
                     "boolfalse": {"__bool__": lambda o: False},
                     "eqhash": {"__eq__": lambda o, other: isinstance(other, base), "__hash__": lambda o: 7}}[shape]
            self.cls[n] = type("C16Obj", (base,), dict(extra, __module__="c16pool"))
        return self.cls[n]

    def fresh(self, n):
        self.serial += 1
        obj = self.slot_class(n)(self.serial)
        self.slot_of[self.serial] = n
        return obj

    def forget_classes(self):
        """best-effort hygiene: drop what the process-global registries remember about this history's classes"""
        import serpent, Pyro5.server
        from Pyro5 import serializers
        for c in self.cls.values():
            for f in (lambda: serpent.unregister_class(c),
                      lambda: getattr(serializers.JsonSerializer, "_JsonSerializer__type_replacements").pop(c, None),
                      lambda: getattr(serializers.MsgpackSerializer, "_MsgpackSerializer__type_replacements").pop(c, None)):
                try:
                    f()
                except Exception:
                    pass
            try:
                cache = vars(Pyro5.server).get("__exposed_member_cache")
                for k in [k for k in cache if k[0] is c]:
                    del cache[k]
            except Exception:
                pass
        self.cls.clear()

    def close(self):
        from Pyro5 import config
        try:
            if self.gp is not None:
                self.gp._pyroRelease()
        finally:
            self.net.__exit__(None, None, None)
            self.daemon.close()
            self.pool.clear()
            self.forget_classes()
            config.SERIALIZER, config.MAX_RETRIES, config.SERVERTYPE = self.old_ser, self.old_retries, self.old_st
            self.e["daemon"] = None

    # ---- naming
    def target(self, t):
        return self.pool[t[1]] if t[0] == "o" else self.e["classes"][t[1]]

    def id_string(self, ref):
        if ref[0] == "daemon":
            return self.DAEMON_NAME
        if ref[0] == "name":
            return NAMES[ref[1]] if ref[1] < len(NAMES) else "obj_unborn%d" % ref[1]
        if ref[1] < len(self.generated):
            return self.generated[ref[1]]
        return "obj_unborn%d" % (100 + ref[1])

    def resolve(self, ref):
        """the id reference as the model sees it"""
        if ref[0] == "gen":
            return ["gen", ref[1]] if ref[1] < len(self.generated) else ["name", 100 + ref[1]]
        return list(ref)

    def ident_of(self, s):
        if s == self.DAEMON_NAME:
            return ["daemon"]
        if s in NAMES:
            return ["name", NAMES.index(s)]
        if s in self.generated:
            return ["gen", self.generated.index(s)]
        if s.startswith("obj_unborn"):
            return ["name", int(s[10:])]
        return ["other", s]

    def holder_name(self, obj):
        """canonical name of whatever sits in the registry / was reached"""
        if obj is self.dobj:
            return None
        if isinstance(obj, self.e["Obj"]):
            n = self.slot_of.get(obj.serial)
            if n is not None and self.pool.get(n) is obj:
                return ["o", n]
            return ["dead", obj.serial]
        for k, c in enumerate(self.e["classes"]):
            if obj is c:
                return ["c", k]
        if obj is self.giver:
            return ["giver"]
        return ["unknown", repr(obj)[:40]]

    def who(self, answer):
        if answer[0] == "cls":
            return ["c", answer[1]]
        n = self.slot_of.get(answer[1])
        if n is not None and self.pool[n].serial == answer[1]:
            return ["o", n]
        return ["dead", answer[1]]

    def snapshot(self):
        snap = {}
        for k, v in list(self.daemon.objectsById.items()):
            if k == GIVER_ID:
                continue
            weak = isinstance(v, weakref.ref)
            if weak:
                v = v()
            snap[json.dumps(self.ident_of(k))] = [self.holder_name(v) if v is not None else ["deadref"], weak]
        return snap

    def call_id(self, idstr):
        """a client calls through PYRO:<id>@daemon; returns the canonical result"""
        import Pyro5.api as api, Pyro5.errors as errors
        p = api.Proxy("PYRO:%s@%s" % (idstr, self.loc))
        try:
            return self.call_proxy(p)
        finally:
            p._pyroRelease()

    def call_proxy(self, p):
        import Pyro5.errors as errors
        try:
            return ["reached", self.who(p.whoami())]
        except AttributeError:
            try:
                p.registered()
                return ["reached", None]
            except Exception as x:
                return ["err", "other:" + type(x).__name__]
        except (errors.CommunicationError, errors.DaemonError) as x:
            # The daemon refused: the connection was rejected at the handshake (a plain CommunicationError carrying the
            # daemon's reason as text) or the call itself raised DaemonError.  Classified by exception class only; the
            # wording of the refusal is incidental.  Whether a refusal is RIGHT is decided against the registry snapshot.
            if type(x) in (errors.CommunicationError, errors.DaemonError):
                return ["err", "unknown"]
            return ["err", "other:" + type(x).__name__]
        except Exception as x:
            return ["err", "other:" + type(x).__name__]


def classify_exc(x):
    """a refusal, by exception family (subclasses and other Pyro errors count as the family; the exact class and the
    wording of a refusal are incidental, see also err_eqb in Harness/H16.v)"""
    import Pyro5.errors as errors
    for cls, name in ((errors.DaemonError, "daemon"), (TypeError, "type"), (ValueError, "value"), (AttributeError, "attribute"),
                      (errors.PyroError, "daemon")):
        if isinstance(x, cls):
            return ["err", name]
    return ["err", "other:" + type(x).__name__]


def do_event(w, ev):
    """run one event on the implementation; returns (model-level event, result)"""
    import Pyro5.api as api, Pyro5.client as client
    k = ev[0]
    d = w.daemon
    if k == "reg":
        _, t, rid, force, weak = ev
        arg = {"gen": None, "daemon": w.DAEMON_NAME, "bad": 5}.get(rid[0])
        if rid[0] == "name":
            arg = w.id_string(rid)
        if rid[0] == "gen" and len(rid) > 1 and rid[1]:
            arg = ""
        try:
            uri = d.register(w.target(t), arg, force=force, weak=weak)
        except Exception as x:
            return ev, classify_exc(x)
        if rid[0] == "gen":
            w.generated.append(uri.object)
        return ev, ["uri", w.ident_of(uri.object)]
    if k == "unreg_obj":
        try:
            d.unregister(w.target(ev[1]))
            return ev, ["ok"]
        except Exception as x:
            return ev, classify_exc(x)
    if k == "unreg_id":
        mev = [k, w.resolve(ev[1])]
        try:
            d.unregister(w.id_string(ev[1]))
            return mev, ["ok"]
        except Exception as x:
            return mev, classify_exc(x)
    if k == "unreg_none":
        try:
            d.unregister(None)
            return ev, ["ok"]
        except Exception as x:
            return ev, classify_exc(x)
    if k in ("uri_obj", "proxy_obj", "uri_id", "proxy_id"):
        if k.endswith("_obj"):
            mev, arg = ev, w.target(ev[1])
        else:
            mev, arg = [k, w.resolve(ev[1])], w.id_string(ev[1])
        try:
            if k.startswith("uri"):
                return mev, ["uri", w.ident_of(d.uriFor(arg).object)]
            p = d.proxyFor(arg)
            try:
                return mev, ["uri", w.ident_of(p._pyroUri.object)]
            finally:
                p._pyroRelease()
        except Exception as x:
            return mev, classify_exc(x)
    if k == "call":
        return [k, w.resolve(ev[1])], w.call_id(w.id_string(ev[1]))
    if k == "return":
        if w.gp is None:
            w.gp = api.Proxy("PYRO:%s@%s" % (GIVER_ID, w.loc))
        try:
            r = w.gp.give(ev[1])
        except Exception as x:
            return ev, classify_exc(x)
        if isinstance(r, client.Proxy):
            try:
                reached = w.call_proxy(r)
            finally:
                r._pyroRelease()
            if reached[0] != "reached":
                return ev, ["err", "proxy-unusable:" + str(reached[1])]
            return ev, ["proxy", w.ident_of(r._pyroUri.object), reached[1]]
        if isinstance(r, (tuple, list)) and len(r) == 2 and r[0] == "byvalue" and r[1] == w.pool[ev[1]].serial:
            return ev, ["value"]
        return ev, ["err", "other:strange-return"]
    if k == "gc":
        n = ev[1]
        obj = w.pool[n]
        if any(v is obj for v in d.objectsById.values()):
            return ev, ["gc", False]
        ref = weakref.ref(obj)
        del w.pool[n]
        del obj
        if ref() is not None:
            gc.collect()
        if ref() is not None:
            w.pool[n] = ref()
            return ev, ["err", "other:gc-blocked"]
        w.pool[n]            # (a new object takes the slot)
        return ev, ["gc", True]
    if k == "registered":
        if d.objectsById.get(w.DAEMON_NAME) is w.dobj:
            p = api.Proxy("PYRO:%s@%s" % (w.DAEMON_NAME, w.loc))
            try:
                ids = p.registered()
            finally:
                p._pyroRelease()
        else:
            ids = w.dobj.registered()
        return ev, ["ids", [w.ident_of(s) for s in ids if s != GIVER_ID]]
    raise ValueError("unknown event %r" % (ev,))


def run_impl(case):
    """returns {"events": model-level events, "results": [...], "snaps": registry snapshot before the first and after every event}"""
    w = World(case.get("ser", "serpent"), case.get("shapes", ()))
    try:
        mevs, results, snaps = [], [], [w.snapshot()]
        for ev in case["events"]:
            mev, r = do_event(w, ev)
            mevs.append(mev)
            results.append(r)
            snaps.append(w.snapshot())
        return {"events": mevs, "results": results, "snaps": snaps}
    finally:
        w.close()


# ---------------------------------------------------------------- oracle
def oracle(case, obs):
    """The property over what the implementation did: the registry snapshots are the ground truth of
    "currently registered"; every event may change them only as the property allows, and calls,
    listings and returned objects must agree with them."""
    bad = []

    def flag(sig, what):
        bad.append((sig, what))
    DAEMON = json.dumps(["daemon"])
    aliased = set()          # targets that were force-registered while registered under another id
    latest = {}              # target -> id of its most recent successful registration

    def alias_excuse(t, snap):
        """the open finding: an aliased object whose most recent id is gone, but which is still registered under an older one"""
        return json.dumps(t) in aliased and latest.get(json.dumps(t)) not in [i for i, (h, wk) in snap.items() if h == t]
    for n, (ev, r) in enumerate(zip(obs["events"], obs["results"])):
        before, after = obs["snaps"][n], obs["snaps"][n + 1]
        k = ev[0]
        at = "step %d %s" % (n, json.dumps(ev))
        if r[0] == "err" and str(r[1]).startswith("other:"):
            flag("unexpected-outcome", "%s: %s" % (at, r[1]))
        allowed_removed, allowed_set = set(), {}
        holders = lambda snap, t: [i for i, (h, wk) in snap.items() if h == t]
        if k == "reg":
            _, t, rid, force, weak = ev
            t = list(t)
            if r[0] == "uri":
                i = json.dumps(r[1])
                if not force and i in before:
                    flag("duplicate-id-accepted", "%s: the id was already registered and force was not given" % at)
                if not force and holders(before, t):
                    if alias_excuse(t, before):
                        flag("aliased-object-loses-identity", "%s: an object still registered under an alias id was accepted again without force" % at)
                    else:
                        flag("duplicate-object-accepted", "%s: the object was already registered (under %s) and force was not given" % (at, holders(before, t)))
                if force and [j for j in holders(before, t) if j != i]:
                    aliased.add(json.dumps(t))
                allowed_set[i] = t
                latest[json.dumps(t)] = i
                if i in after and after[i][1] != bool(weak):
                    flag("weak-flag-not-honoured", "%s: asked for weak=%s but the registry holds the object %s" % (at, weak, "weakly" if after[i][1] else "strongly"))
                if rid[0] == "daemon" and r[1] != ["daemon"] or rid[0] == "name" and r[1] != list(w_resolve_name(rid)):
                    flag("registered-under-other-id", "%s: returned URI names %s" % (at, r[1]))
            elif r == ["err", "daemon"]:
                if force:
                    flag("forced-registration-refused", "%s" % at)
                elif rid[0] in ("daemon", "name") and json.dumps(w_resolve_name(rid)) not in before and not holders(before, t):
                    flag("registration-refused-wrongly", "%s: neither the id nor the object was registered" % at)
        elif k == "unreg_id":
            if ev[1] != ["daemon"]:
                allowed_removed.add(json.dumps(ev[1]))
            if r != ["ok"]:
                flag("unregister-by-id-raises", "%s: %s" % (at, r))
        elif k == "unreg_obj":
            t = list(ev[1])
            if r[0] == "ok" or r == ["err", "attribute"]:
                allowed_removed.update(i for i in holders(before, t) if i != DAEMON)
            removed = [i for i in before if i not in after]
            if len(removed) > 1:
                flag("unregister-object-removes-other", "%s removed %s" % (at, removed))
            if r == ["err", "attribute"]:
                flag("unregister-object-raises-attributeerror", at)
        elif k == "gc":
            if r == ["gc", True]:
                allowed_removed.update(i for i, (h, wk) in before.items() if h == ["o", ev[1]] and wk)
                left = [i for i, (h, wk) in after.items() if h is not None and h[0] in ("dead", "deadref")]
                if left:
                    flag("collected-object-still-registered", "%s: ids %s still point at the dead object" % (at, left))
        # frame: nothing else may change
        for i in before:
            if i not in after and i not in allowed_removed:
                sig = {"gc": "collected-object-unregisters-other", "unreg_obj": "unregister-object-removes-other"}.get(k, "registry-changed-unexpectedly")
                flag(sig, "%s: id %s (holder %s) disappeared from the registry" % (at, i, before[i][0]))
            elif i in after and after[i][0] != before[i][0] and allowed_set.get(i) != after[i][0]:
                flag("registry-changed-unexpectedly", "%s: id %s now reaches %s instead of %s" % (at, i, after[i][0], before[i][0]))
        for i in after:
            if i not in before and allowed_set.get(i) != after[i][0]:
                flag("registry-changed-unexpectedly", "%s: id %s appeared holding %s" % (at, i, after[i][0]))
        for i, t in allowed_set.items():
            if i not in after or after[i][0] != t:
                flag("registration-not-effective", "%s: id %s does not reach the registered object afterwards" % (at, i))
        for i in allowed_removed:
            if i in after and k != "unreg_obj":
                flag("unregistration-not-effective", "%s: id %s is still registered" % (at, i))
        if k == "unreg_obj" and r[0] == "ok" and allowed_removed and not any(i not in after for i in allowed_removed) \
                and DAEMON not in holders(before, list(ev[1])):     # (the holder of the daemon's id is silently not unregistered)
            flag("aliased-object-loses-identity" if alias_excuse(list(ev[1]), before) else "unregistration-not-effective", "%s: the object is still registered under %s" % (at, sorted(allowed_removed)))
        if DAEMON not in after:
            flag("daemon-object-unregistered", "%s: the daemon's own id is gone" % at)
        elif DAEMON in before and after[DAEMON][0] != before[DAEMON][0] and not (k == "reg" and ev[2][0] == "daemon" and ev[3]):
            flag("daemon-object-replaced-silently", "%s: the daemon's own object was replaced without force" % at)
        # observations
        if k in ("uri_obj", "proxy_obj"):
            t = list(ev[1])
            ids = holders(after, t)
            if r[0] == "uri":
                i = json.dumps(r[1])
                if i not in after:
                    flag("uri-names-unregistered-id", "%s: %s reports id %s, which is not registered (the object is %s)" % (
                        at, "uriFor" if k == "uri_obj" else "proxyFor", r[1], "registered under %s" % ids if ids else "not registered"))
                elif i not in ids:
                    flag("uri-names-other-object", "%s: the object is %s but %s is reported, which reaches %s" % (
                        at, "registered under %s" % ids if ids else "not registered", r[1], after[i][0]))
            elif ids and not alias_excuse(t, after):
                flag("uri-refused-for-registered-object", "%s: the object is registered under %s but got %s" % (at, ids, r))
        elif k == "proxy_id":
            i = json.dumps(ev[1])
            if (r[0] == "uri") != (i in after):
                flag("proxy-for-id-wrong", "%s: %s although the id is %sregistered" % (at, r, "" if i in after else "not "))
        if k == "call":
            i = json.dumps(ev[1])
            want = ["reached", after[i][0]] if i in after else ["err", "unknown"]
            if r != want:
                flag("call-reaches-wrong-object", "%s: got %s, registry says %s" % (at, r, want))
        elif k == "registered":
            if r[0] != "ids" or sorted(json.dumps(x) for x in r[1]) != sorted(after):
                flag("registered-ids-wrong", "%s: reported %s, registry holds %s" % (at, r, sorted(after)))
        elif k == "return":
            t = ["o", ev[1]]
            ids = holders(after, t)
            if ids:
                if r[0] == "proxy":
                    if r[2] != t or json.dumps(r[1]) not in ids:
                        flag("proxy-to-wrong-object", "%s: registered object arrived as a proxy for %s reaching %s" % (at, r[1], r[2]))
                elif alias_excuse(t, after):
                    flag("aliased-object-loses-identity", "%s: the object is still registered under %s but arrived as %s" % (at, ids, r))
                elif r[0] == "value":
                    flag("registered-object-by-value", "%s: registered under %s but arrived as data" % (at, ids))
                else:
                    flag("registered-object-return-raises", "%s: %s" % (at, r))
            else:
                if r[0] == "proxy":
                    flag("unregistered-object-as-proxy", "%s: the object is not registered but arrived as a proxy for %s reaching %s" % (at, r[1], r[2]))
                elif r[0] != "value":
                    flag("unregistered-object-return-raises", "%s: the object is not registered; returning it gave %s" % (at, r))
    return bad


def w_resolve_name(rid):
    return ["daemon"] if rid[0] == "daemon" else ["name", rid[1]]


# ---------------------------------------------------------------- Gallina encodings
def c_target(t):
    return "(%s %s)" % ("PObj" if t[0] == "o" else "PCls", cnat(t[1]))


def c_ident(i):
    if i[0] == "daemon":
        return "IdDaemon"
    return "(%s %s)" % ("IdName" if i[0] == "name" else "IdGen", cnat(i[1]))


def c_holder(h):
    return "None" if h is None else "(Some %s)" % c_target(h)


def c_event(ev):
    k = ev[0]
    if k == "reg":
        rid = ev[2]
        r = {"gen": "RGen", "daemon": "RDaemon", "bad": "RBad"}.get(rid[0]) or "(RNamed %s)" % cnat(rid[1])
        return "Register %s %s %s %s" % (c_target(ev[1]), r, cbool(ev[3]), cbool(ev[4]))
    if k in ("unreg_obj", "uri_obj", "proxy_obj"):
        return "%s %s" % ({"unreg_obj": "UnregObj", "uri_obj": "UriObj", "proxy_obj": "ProxyObj"}[k], c_target(ev[1]))
    if k in ("unreg_id", "uri_id", "proxy_id", "call"):
        return "%s %s" % ({"unreg_id": "UnregId", "uri_id": "UriId", "proxy_id": "ProxyId", "call": "Call"}[k], c_ident(ev[1]))
    if k == "unreg_none":
        return "UnregNone"
    if k == "return":
        return "Return %s" % cnat(ev[1])
    if k == "gc":
        return "Gc %s" % cnat(ev[1])
    return "Registered"


ERRS = {"type": "ETypeError", "value": "EValueError", "daemon": "EDaemonError", "attribute": "EAttributeError", "unknown": "EUnknownObject"}


def representable(r):
    if r[0] == "err":
        return r[1] in ERRS
    if r[0] == "uri":
        return r[1][0] != "other"
    if r[0] == "ids":
        return all(x[0] != "other" for x in r[1])
    if r[0] == "reached":
        return r[1] is None or r[1][0] in ("o", "c")
    if r[0] == "proxy":
        return r[1][0] != "other" and (r[2] is None or r[2][0] in ("o", "c"))
    return True


def c_result(r):
    k = r[0]
    if k == "ok":
        return "ROk"
    if k == "uri":
        return "RUri %s" % c_ident(r[1])
    if k == "reached":
        return "RReached %s" % c_holder(r[1])
    if k == "proxy":
        return "RProxy %s %s" % (c_ident(r[1]), c_holder(r[2]))
    if k == "value":
        return "RValue"
    if k == "ids":
        return "RIds %s" % clist([c_ident(x) for x in r[1]])
    if k == "gc":
        return "RGc %s" % cbool(r[1])
    return "RErr %s" % ERRS[r[1]]


def c_quirks(q):
    return "(mk_quirks %s)" % " ".join(cbool(q[n]) for n in QUIRKS)


def c_case(q, obs):
    return "mk_case %s %s %s" % (c_quirks(q), clist([c_event(e) for e in obs["events"]]), clist([c_result(r) for r in obs["results"]]))


# ---------------------------------------------------------------- quirk probes (DESIGN section 5)
WITNESS = {
    "unreg_id_keeps_daemon_mark": [["reg", ["o", 0], ["name", 0], False, False], ["unreg_id", ["name", 0]], ["return", 0]],
    "unreg_obj_trusts_stale_id": [["reg", ["o", 0], ["name", 0], False, False], ["unreg_id", ["name", 0]],
                                  ["reg", ["o", 1], ["name", 0], False, False], ["unreg_obj", ["o", 0]], ["call", ["name", 0]]],
    "force_keeps_displaced_marks": [["reg", ["o", 0], ["name", 0], False, False], ["reg", ["o", 1], ["name", 0], True, False], ["return", 0]],
    "weak_double_register": [["reg", ["o", 0], ["name", 0], False, True], ["reg", ["o", 0], ["name", 1], False, False]],
    "finalizer_unregisters_id": [["reg", ["o", 0], ["name", 0], False, True], ["unreg_obj", ["o", 0]],
                                 ["reg", ["o", 1], ["name", 0], False, False], ["gc", 0], ["call", ["name", 0]]],
    "uri_trusts_stale_id": [["reg", ["o", 0], ["name", 0], False, False], ["unreg_id", ["name", 0]],
                            ["reg", ["c", 1], ["name", 0], False, False], ["uri_obj", ["o", 0]]],
}
ALIAS_WITNESS = [["reg", ["o", 0], ["name", 0], False, False], ["reg", ["o", 0], ["name", 1], True, False],
                 ["unreg_obj", ["o", 0]], ["call", ["name", 0]], ["return", 0]]


def probe_quirks():
    q = {}
    for name, evs in WITNESS.items():
        last = run_impl({"ser": "serpent", "events": evs})["results"][-1]
        q[name] = {"unreg_id_keeps_daemon_mark": last != ["value"],
                   "unreg_obj_trusts_stale_id": last != ["reached", ["o", 1]],
                   "force_keeps_displaced_marks": last != ["value"],
                   "weak_double_register": last[0] == "uri",
                   "finalizer_unregisters_id": last != ["reached", ["o", 1]],
                   "uri_trusts_stale_id": last[0] == "uri"}[name]
    return q


# ---------------------------------------------------------------- generator
def gen_case(rng, length):
    focus_o = rng.sample(range(NOBJ), rng.choice([1, 2, 2, 3, 4]))
    focus_n = rng.sample(range(len(NAMES)), rng.choice([1, 1, 2, 3]))
    ngen = 0

    def tgt():
        if rng.random() < 0.12:
            return ["c", rng.randrange(NCLS)]
        return ["o", rng.choice(focus_o)]

    def idref():
        r = rng.random()
        if r < 0.12:
            return ["daemon"]
        if r < 0.30 and ngen:
            return ["gen", rng.randrange(ngen + (1 if rng.random() < 0.1 else 0))]
        if r < 0.33:
            return ["gen", ngen + rng.randrange(2)]
        return ["name", rng.choice(focus_n)]
    evs = []
    for _ in range(length):
        r = rng.random()
        if r < 0.30:
            x = rng.random()
            rid = ["gen"] if x < 0.22 else ["gen", 1] if x < 0.25 else ["daemon"] if x < 0.33 else ["bad"] if x < 0.36 else ["name", rng.choice(focus_n)]
            if rid[0] == "gen":
                ngen += 1          # an upper bound is enough for choosing references
            t, force, weak = tgt(), rng.random() < 0.35, rng.random() < 0.35
            if rid[0] == "daemon" and force:
                # whatever takes over the daemon's id must be able to answer handshakes: a strongly held pool object
                t, weak = ["o", rng.choice(focus_o)], False
            evs.append(["reg", t, rid, force, weak])
        elif r < 0.40:
            evs.append(["unreg_obj", tgt()])
        elif r < 0.50:
            evs.append(["unreg_id", idref()])
            if rng.random() < 0.4:       # what does the daemon say about the objects now?
                evs.append([rng.choice(["uri_obj", "uri_obj", "proxy_obj"]), ["o", rng.choice(focus_o)]])
        elif r < 0.51:
            evs.append(["unreg_none"])
        elif r < 0.55:
            evs.append([rng.choice(["uri_obj", "proxy_obj"]), tgt()])
        elif r < 0.59:
            evs.append([rng.choice(["uri_id", "proxy_id"]), idref()])
        elif r < 0.70:
            evs.append(["call", idref()])
        elif r < 0.86:
            evs.append(["return", rng.choice(focus_o)])
        elif r < 0.95:
            evs.append(["gc", rng.choice(focus_o)])
        else:
            evs.append(["registered"])
    # look at everything at the end
    tail = [["registered"]] + [["return", o] for o in focus_o[:2]] + [["call", ["name", n]] for n in focus_n[:2]]
    shapes = [rng.choice(SHAPES) if rng.random() < 0.6 else "plain" for _ in range(NOBJ)]
    return {"ser": rng.choice(SERIALIZERS), "shapes": shapes, "events": evs + rng.sample(tail, rng.randrange(len(tail) + 1))}


def gen_cases(ctx):
    rng = ctx.rng
    return [gen_case(rng, rng.choice([2, 3, 4, 5, 6, 8, 10, 12, 16])) for _ in range(ctx.n(1800, 12000))]


def targeted():
    out = []
    for ser in SERIALIZERS:
        for evs in list(WITNESS.values()) + [ALIAS_WITNESS]:
            out.append({"ser": ser, "events": evs})
        # daemon id: cannot be taken or removed without force; can be replaced with force
        out.append({"ser": ser, "events": [["reg", ["o", 0], ["daemon"], False, False], ["unreg_id", ["daemon"]], ["registered"], ["call", ["daemon"]],
                                           ["reg", ["o", 0], ["daemon"], True, False], ["call", ["daemon"]], ["unreg_obj", ["o", 0]], ["unreg_id", ["daemon"]],
                                           ["call", ["daemon"]], ["return", 0], ["registered"]]})
        # weak registration, garbage collection, id unknown afterwards
        out.append({"ser": ser, "events": [["reg", ["o", 0], ["gen"], False, True], ["call", ["gen", 0]], ["return", 0], ["gc", 0], ["call", ["gen", 0]],
                                           ["registered"], ["return", 0]]})
        out.append({"ser": ser, "events": [["reg", ["c", 0], ["name", 0], False, False], ["call", ["name", 0]], ["reg", ["c", 0], ["name", 1], False, False],
                                           ["reg", ["c", 1], ["name", 0], False, True], ["unreg_obj", ["c", 0]], ["call", ["name", 0]], ["registered"]]})
        # collection: several weak ids of one object (forced aliases), another object's registrations untouched, strong holder blocks it
        out.append({"ser": ser, "events": [["reg", ["o", 0], ["name", 0], False, True], ["reg", ["o", 0], ["gen"], True, True], ["reg", ["o", 1], ["name", 1], False, True],
                                           ["reg", ["o", 2], ["gen"], False, False], ["registered"], ["gc", 0], ["registered"], ["call", ["name", 0]], ["call", ["gen", 0]],
                                           ["call", ["name", 1]], ["call", ["gen", 1]], ["return", 0], ["return", 1], ["gc", 2], ["unreg_id", ["gen", 1]], ["gc", 2], ["return", 2]]})
        out.append({"ser": ser, "events": [["reg", ["o", 0], ["name", 0], False, True], ["reg", ["o", 0], ["name", 1], True, False], ["gc", 0], ["unreg_id", ["name", 1]],
                                           ["gc", 0], ["call", ["name", 0]], ["registered"]]})
        # a second registration of the same object / class without force: strong, weak, explicit and generated ids
        for weak in (False, True):
            out.append({"ser": ser, "events": [["reg", ["o", 0], ["gen"], False, weak], ["reg", ["o", 0], ["gen"], False, False], ["reg", ["o", 0], ["name", 0], False, True],
                                               ["reg", ["o", 0], ["gen", 1], False, weak], ["reg", ["o", 0], ["daemon"], False, False], ["registered"], ["return", 0],
                                               ["unreg_obj", ["o", 0]], ["reg", ["o", 0], ["gen"], False, not weak], ["reg", ["o", 0], ["name", 1], False, False], ["return", 0]]})
        out.append({"ser": ser, "events": [["reg", ["c", 1], ["gen"], False, False], ["reg", ["c", 1], ["name", 0], False, False], ["reg", ["c", 1], ["gen"], False, False],
                                           ["call", ["gen", 0]], ["unreg_id", ["gen", 0]], ["reg", ["c", 1], ["name", 0], False, False], ["call", ["name", 0]], ["call", ["gen", 0]]]})
        # truthiness never matters: every shape, strongly and weakly registered, is called, listed, proxied and returned
        for shape in SHAPES:
            out.append({"ser": ser, "shapes": [shape] * NOBJ,
                        "events": [["reg", ["o", 0], ["name", 0], False, True], ["reg", ["o", 1], ["gen"], False, False], ["call", ["name", 0]], ["call", ["gen", 0]],
                                   ["return", 0], ["return", 1], ["proxy_obj", ["o", 0]], ["uri_obj", ["o", 1]], ["registered"], ["call", ["name", 0]],
                                   ["unreg_id", ["name", 0]], ["uri_obj", ["o", 0]], ["proxy_obj", ["o", 0]], ["return", 0], ["unreg_obj", ["o", 1]], ["uri_obj", ["o", 1]],
                                   ["return", 1], ["reg", ["o", 1], ["name", 1], False, True], ["return", 1], ["gc", 1], ["call", ["name", 1]]]})
        # a weak registration is the first thing the serializers ever hear of the object's type
        out.append({"ser": ser, "events": [["reg", ["o", 3], ["gen"], False, True], ["return", 3], ["call", ["gen", 0]], ["uri_obj", ["o", 3]]]})
        # what uriFor / proxyFor say after unregistration by id and by object, and after the id went to another object
        out.append({"ser": ser, "events": [["reg", ["o", 0], ["name", 0], False, False], ["reg", ["c", 0], ["name", 1], False, False], ["uri_obj", ["o", 0]], ["unreg_id", ["name", 0]],
                                           ["uri_obj", ["o", 0]], ["proxy_obj", ["o", 0]], ["uri_id", ["name", 0]], ["proxy_id", ["name", 0]], ["unreg_id", ["name", 1]],
                                           ["uri_obj", ["c", 0]], ["proxy_obj", ["c", 0]], ["reg", ["o", 1], ["name", 0], False, False], ["uri_obj", ["o", 0]], ["uri_obj", ["o", 1]],
                                           ["unreg_obj", ["o", 1]], ["uri_obj", ["o", 1]], ["uri_obj", ["o", 0]]]})
        # generated ids with force: nothing else is displaced
        out.append({"ser": ser, "events": [["reg", ["o", 0], ["name", 0], False, False], ["reg", ["o", 1], ["gen"], True, False], ["reg", ["o", 2], ["gen", 1], True, True],
                                           ["registered"], ["call", ["name", 0]], ["call", ["gen", 0]], ["call", ["gen", 1]], ["return", 0], ["return", 1], ["return", 2]]})
    return out


def nontrivial(case, obs):
    return sum(1 for r in obs["results"] if r[0] in ("uri", "proxy", "reached", "gc")) >= 2


def execute(ctx, cases, model_ok, res, quirks):
    lits, kept = [], []
    for case in cases:
        obs = run_impl(case)
        res.seen(case, nontrivial(case, obs))
        res.count("len_%02d" % min(len(case["events"]), 20))
        res.count("ser:" + case.get("ser", "serpent"))
        for sh in case.get("shapes", []):
            res.count("shape:" + sh)
        for ev, r in zip(obs["events"], obs["results"]):
            res.count("%s:%s" % (ev[0], r[0] if r[0] != "err" else "err-" + str(r[1]).split(":")[0]))
        for sig, what in oracle(case, obs):
            res.violations.append({"signature": sig, "what": what, "case": case})
        if not all(representable(r) for r in obs["results"]):
            res.mismatches.append({"component": "C16", "case": case, "impl": obs["results"], "model": "no such outcome"})
            continue
        lits.append(c_case(quirks, obs))
        kept.append((case, obs))
    if model_ok:
        for idx in vlib.run_cases(ctx, "c", IMPORTS, "case", "check_case", lits):
            case, obs = kept[idx]
            res.mismatches.append({"component": "C16", "case": case, "impl": obs["results"]})
    return res


def run(ctx, model_ok=True):
    res = vlib.Result()
    quirks = probe_quirks()
    res.quirks = dict(quirks)
    cases = vlib.load_corpus(PROP) + targeted() + gen_cases(ctx)
    execute(ctx, cases, model_ok, res, quirks)
    done = set()
    for v in res.violations:            # hand out minimised replays (first report of each signature)
        if v["signature"] not in done and len(done) < 12:
            done.add(v["signature"])
            v["case"] = shrink(v["case"], v["signature"])
    res.rule = ("seeded random histories (2..16 events + a closing look) over a pool of %d objects and %d classes, ids = the daemon's name, %d explicit names, "
                "generated ids (also not-yet-generated ones), truthy non-string and empty ids; events register (force/weak flags), unregister by object / id / None, "
                "uriFor, proxyFor, a client call to an id, a remote method returning a pool object (followed by a call through the proxy that arrives), "
                "dropping the last reference to a pool object, registered(); serializer serpent/json/msgpack per history; every pool slot has a class of its own per history and a "
                "truthiness shape (plain, __len__ 0, __len__ depending on state, __bool__ False, custom __eq__/__hash__); uriFor/proxyFor questions follow unregister-by-id; "
                "non-trivial = at least two successful registrations/calls/returns/collections; distinct = distinct case hash" % (NOBJ, NCLS, len(NAMES)))
    res.samples = cases[-3:] + cases[:2]
    return res


def search(ctx, broken):
    res = vlib.Result()
    cases = [b["case"] for b in broken if b.get("case")] + targeted() + gen_cases(ctx)
    for case in cases:
        obs = run_impl(case)
        res.seen(case)
        for sig, what in oracle(case, obs):
            res.violations.append({"signature": sig, "what": what, "case": shrink(case, sig)})
    return res


def shrink(case, sig):
    """greedy removal of events while the oracle still reports the signature"""
    evs = list(case["events"])
    i = 0
    budget = 60
    while i < len(evs) and budget > 0:
        budget -= 1
        trial = evs[:i] + evs[i + 1:]
        try:
            c2 = {"ser": case.get("ser", "serpent"), "shapes": case.get("shapes", []), "events": trial}
            if any(s == sig for s, _ in oracle(c2, run_impl(c2))):
                evs = trial
                continue
        except Exception:
            pass
        i += 1
    return {"ser": case.get("ser", "serpent"), "shapes": case.get("shapes", []), "events": evs}


def replay(ctx, case):
    obs = run_impl(case)
    bad = oracle(case, obs)
    if bad:
        return True, {"oracle": bad[:5], "impl": obs["results"]}
    res = vlib.Result()
    execute(ctx, [case], True, res, probe_quirks())
    if res.mismatches:
        model = vlib.eval_model(ctx, IMPORTS, "model_results (%s)" % c_case(probe_quirks(), obs))
        return True, {"mismatch": True, "impl": obs["results"], "model": model[-1500:]}
    return False, {"impl": obs["results"]}
