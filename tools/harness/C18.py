"""C18 — thread pool: the same schedules run on Model/Pool.v and on the real Pool / Worker /
SocketServer_Threadpool.events under the cooperative scheduler (tools/lib/coop_pool.py);
property oracle over the real observations (after every step and at quiescence)."""
import os
from tools.lib import vlib, coop, coop_pool
from tools.lib.vlib import cnat, cbool, clist, ctext

import logging
logging.getLogger("Pyro5").addHandler(logging.NullHandler())
logging.getLogger("Pyro5").propagate = False

PROP = "C18"
GEN = ["GenPool"]
ASSUMPTIONS = [
    "each instrumented primitive (set add/remove/pop/len/contains/iteration snapshot, attribute read/write of Pool.closed and Worker.job, Event.set/clear/wait, Lock acquire/release, Thread.start) is atomic under the GIL and code between two primitives touches only thread-local state",
    "set.pop() returns an arbitrary element: the schedule chooses it (model: pick), the instrumented set twin obeys the choice",
    "a job is the real ClientConnectionJob around a fake socket; daemon._handshake is a stub that records start/end of the job (one yield point in between) and the refusal reason; time.sleep and Thread.join(timeout) in Pool.close are not steps",
    "len() calls that are arguments of log.<level>(...) statements are not steps (logging edits do not change the model)",
    "a retiring worker (told to exit, OS thread not yet finished) is not counted as a pool worker",
    "a job's outcome (returns / raises) is a per-connection input: ClientConnectionJob.__call__ is wrapped in the harness process to raise RuntimeError after the connection work for the selected connections; the model has ONE job-end step for both outcomes, justified by the source shape GenPool extracts (worker_handback_unconditional)",
    "silent refused peers: with COMMTIMEOUT configured the stub refusal handshake proceeds iff the accepted socket carries a timeout (GenPool: accept_timeout_before_submit); otherwise the accept-loop thread parks on a primitive that is never enabled",
    "racing-closer cases: Pool.close() runs in a second controlled thread (index 1) while thread 0 is still submitting; the end of close's first locked region is observed as the closing thread's first lock release (or its write of Pool.closed, whichever comes first)",
]
IMPORTS = "From V Require Import Model.Bytes Model.Pool Model.PoolRace Gen.GenPool Harness.Cmp Harness.H18."


class FakeSock:
    def __init__(self, jid):
        self.jid = jid
        self.closed = 0
        self.timeout = None

    def close(self):
        self.closed += 1

    def shutdown(self, *a):
        pass

    def fileno(self):
        return -1

    def settimeout(self, t):
        self.timeout = t

    def gettimeout(self):
        return self.timeout

    def getpeername(self):
        return ("client", self.jid)

    def getsockname(self):
        return ("server", 0)

    def setblocking(self, b):
        pass


class Rec:
    def __init__(self):
        self.started, self.ended, self.refused, self.reasons, self.poolclosed = [], [], [], [], []
        self.start_clock = {}
        self.close_returned_at = None
        self.main_error = None
        self.deny_snapshots = []
        self.viol = []           # (signature, what) found by the per-step oracle
        self.region1_done_at = None
        self.handoff_clock = {}
        self.raised = []
        self.blocked_refusal = None


def jid_of(conn):
    return conn.sock.jid


def run_impl(case):
    """returns (obs for the model comparison, oracle violations)"""
    import Pyro5
    from Pyro5 import svr_threads
    config = Pyro5.config
    size, minw, njobs, do_close = case["size"], case["min"], case["njobs"], case["close"]
    raises = set(case.get("raises", ()))   # connections whose job ends by raising an exception out of the job
    silent = set(case.get("silent", ()))   # connections whose peer never sends anything (matters only when refused)
    commtimeout = 1.0 if case.get("commtimeout") else 0
    race = bool(case.get("race"))          # Pool.close() called by a second thread (index 1) while thread 0 submits
    fw = 2 if race else 1                  # index of the first worker thread
    saved = (config.THREADPOOL_SIZE, config.THREADPOOL_SIZE_MIN, config.COMMTIMEOUT, config.POLLTIMEOUT)
    config.THREADPOOL_SIZE, config.THREADPOOL_SIZE_MIN, config.COMMTIMEOUT, config.POLLTIMEOUT = size, minw, commtimeout, 0
    ctl = coop_pool.Ctl()
    orig_call = svr_threads.ClientConnectionJob.__call__

    def job_call(self_):
        orig_call(self_)
        if jid_of(self_.csock) in raises:
            rec.raised.append(jid_of(self_.csock))
            raise RuntimeError("connection %d: the job ends by raising" % jid_of(self_.csock))
    svr_threads.ClientConnectionJob.__call__ = job_call
    rec = Rec()
    try:
        with coop_pool.Instrument(ctl):
            class FakeDaemon:
                def _handshake(self, conn, denied_reason=None):
                    j = jid_of(conn)
                    if denied_reason is not None:
                        if j in silent and not conn.sock.gettimeout():
                            # the refusal handshake first reads the peer's CONNECT message: a silent peer and a socket
                            # without timeout block the calling (accept loop) thread forever
                            rec.blocked_refusal = j
                            ctl.yield_point("blocked", j)
                        ctl.yield_point("deny")
                        rec.refused.append(j)
                        rec.reasons.append(denied_reason)
                        return False
                    rec.started.append(j)
                    rec.start_clock[j] = ctl.clock
                    ctl.yield_point("jobend")
                    rec.ended.append(j)
                    return False

                def _clientDisconnect(self, conn):
                    pass

                def handleRequest(self, conn):
                    raise svr_threads.errors.ConnectionClosedError("stub")

            class FakeListen:
                def __init__(self):
                    self.n = 0

                def accept(self):
                    s = FakeSock(self.n)
                    self.n += 1
                    return s, ("client", s.jid)

                def close(self):
                    pass

            class FakeSelector:
                def select(self, timeout=None):
                    return [True]

            server = svr_threads.SocketServer_Threadpool.__new__(svr_threads.SocketServer_Threadpool)
            server.daemon = FakeDaemon()
            server.sock = FakeListen()
            server._selector = FakeSelector()
            server.shutting_down = False
            server.housekeeper = None
            server.pool = None
            holder = {}

            def main_body():
                pool = holder["pool"]
                for j in range(njobs):
                    try:
                        server.events([server.sock])
                    except svr_threads.PoolError:
                        rec.poolclosed.append(j)
                if do_close and not race:
                    pool.close()
                    rec.close_returned_at = ctl.clock

            def closer_body():
                holder["pool"].close()
                rec.close_returned_at = ctl.clock
            mt = ctl.spawn_main(main_body)
            kt = ctl.spawn_main(closer_body) if race else None
            pool = svr_threads.Pool()
            pool.count_lock = coop.CoopLock(ctl)
            server.pool = pool
            holder["pool"] = pool

            def widx(w):
                return w._coop_t.idx - fw

            def sets():
                return [widx(w) for w in pool.__dict__["_idle"].members()], [widx(w) for w in pool.__dict__["_busy"].members()]

            def after_step(c, i, kind):
                if pool.count_lock.owner is not None:
                    return            # inside a count_lock region the sets may be mid-update; nobody else can look
                idle, busy = sets()
                if set(idle) & set(busy) and not any(v[0] == "idle-busy-overlap" for v in rec.viol):
                    rec.viol.append(("idle-busy-overlap", "a worker is in Pool.idle and Pool.busy at the same time (idle=%s busy=%s)" % (idle, busy)))
                if len(idle) + len(busy) > size and not any(v[0] == "more-workers-than-size" for v in rec.viol):
                    rec.viol.append(("more-workers-than-size", "the pool holds %d workers with THREADPOOL_SIZE=%d (idle=%s busy=%s)" % (len(idle) + len(busy), size, idle, busy)))
            def bookkeeping(c, i, kind):
                # moments the racing-close oracle needs: end of close's first locked region, hand-off of each connection
                if race and i == 1 and rec.region1_done_at is None and kind in ("release", "closed_write"):
                    rec.region1_done_at = ctl.clock
                if i == 0 and kind == "slot_write":
                    rec.handoff_clock[server.sock.n - 1] = ctl.clock
            inner_after = after_step

            def after_step2(c, i, kind):
                bookkeeping(c, i, kind)
                inner_after(c, i, kind)
            ctl.after_step = after_step2
            ctl.start_main(mt)
            if race:
                ctl.start_main(kt)
            trace = []
            for (t, ch) in case["sched"]:
                trace.append(ctl.step(t, ch))
            idle, busy = sets()
            owner = pool.count_lock.owner
            workers = []
            for t in ctl.threads[fw:]:
                w = t.obj
                job = w.__dict__.get("_job")
                workers.append({"slot": None if job is None else jid_of(job.csock), "ev": bool(w.job_available.flag),
                                "exit": bool(t.done), "crash": t.error is not None})
            if owner is None:
                lock_obs = None
            elif race:
                lock_obs = 0 if owner.idx <= 1 else owner.idx - 1      # accept loop and closer share owner id 0 in the model
            else:
                lock_obs = owner.idx
            obs = {"trace": trace, "lock": lock_obs, "idle": idle, "busy": busy, "closer_done": bool(kt.done) if race else False,
                   "closed": bool(pool.__dict__.get("_closed", False)), "workers": workers,
                   "started": list(rec.started), "ended": list(rec.ended), "refused": list(rec.refused),
                   "poolclosed": list(rec.poolclosed), "main_done": bool(ctl.threads[0].done), "reasons": list(rec.reasons)}
            # ---- drain to quiescence for the end-of-run oracle
            ctl.drain()
            viol = list(rec.viol)
            viol += final_oracle(case, ctl, pool, rec, sets, fw)
            ctl.after_step = None
            ctl.shutdown()
            server.pool = None      # keep SocketServer_Threadpool.__del__ away from the un-instrumented pool
            server.sock = None
            return obs, viol
    finally:
        ctl.kill = True
        svr_threads.ClientConnectionJob.__call__ = orig_call
        config.THREADPOOL_SIZE, config.THREADPOOL_SIZE_MIN, config.COMMTIMEOUT, config.POLLTIMEOUT = saved


def final_oracle(case, ctl, pool, rec, sets, fw=1):
    """the property, stated over the quiescent end state of the real run"""
    bad = []
    size, njobs, do_close = case["size"], case["njobs"], case["close"]
    race = bool(case.get("race"))
    do_close = do_close or race
    main = ctl.threads[0]
    if race:
        closer = ctl.threads[1]
        if closer.error is not None:
            bad.append(("close-died:" + type(closer.error).__name__, "Pool.close raised %r in the closing thread" % (closer.error,)))
        if not closer.done and closer.error is None:
            bad.append(("deadlock", "the closing thread is blocked forever (pending %r) with no thread enabled" % (closer.pending,)))
        # once close has finished telling the workers to stop (end of its first locked region) no connection may be
        # handed to a worker any more: a later submit has to be refused with PoolError
        if rec.region1_done_at is not None:
            for j, clk in sorted(rec.handoff_clock.items()):
                if clk > rec.region1_done_at:
                    if j in rec.started:
                        bad.append(("job-started-after-close", "connection %d was handed to a worker and started after Pool.close had told all workers to stop" % j))
                    elif j not in rec.refused and j not in rec.poolclosed:
                        bad.append(("job-dropped", "connection %d was accepted after Pool.close had told all workers to stop: never served, never refused, no PoolError" % j))
    for t in ctl.threads[fw:]:
        if t.error is not None:
            bad.append(("worker-died:" + type(t.error).__name__, "worker thread %d died with %r" % (t.idx - fw, t.error)))
    if main.error is not None:
        bad.append(("accept-loop-died:" + type(main.error).__name__, "the accept loop / close raised %r" % (main.error,)))
    if not main.done and main.error is None and main.pending and main.pending[0] == "blocked":
        bad.append(("accept-loop-blocked", "the accept loop is blocked forever in the refusal handshake of connection %s: the refused peer is silent "
                    "and its socket carries no timeout although COMMTIMEOUT is configured" % (main.pending[1],)))
    elif not main.done and main.error is None:
        bad.append(("deadlock", "the accept-loop thread is blocked forever (pending %r) with no thread enabled" % (main.pending,)))
    blocked = [t.idx - fw for t in ctl.threads[fw:] if not t.done and t.pending and t.pending[0] == "acquire"]
    if blocked:
        bad.append(("deadlock", "workers %s are blocked forever on count_lock" % blocked))
    for j in set(rec.started):
        if rec.started.count(j) > 1:
            bad.append(("job-run-twice", "connection %d was served %d times" % (j, rec.started.count(j))))
    for j in set(rec.refused):
        if j in rec.started:
            bad.append(("refused-and-served", "connection %d was refused and also served" % j))
    for r in rec.reasons:
        if not isinstance(r, str) or not r.strip():
            bad.append(("refusal-without-reason", "the refusal carries no reason (%r)" % (r,)))
    if main.done and main.error is None:
        for j in range(njobs):
            n = (j in rec.started) + (j in rec.refused) + (j in rec.poolclosed)
            if n == 0 and not do_close:
                bad.append(("job-dropped", "connection %d was accepted but neither served nor refused (left waiting)" % j))
            if j in rec.started and j not in rec.ended:
                bad.append(("job-not-finished", "connection %d was started but its job never ended" % j))
    # refusals must happen with all SIZE workers busy at the decision
    for k, (ni, nb) in enumerate(rec.deny_snapshots):
        pass
    live = [t for t in ctl.threads[fw:] if not t.done]
    close_finished = (ctl.threads[1].done and ctl.threads[1].error is None) if race else True
    if do_close and main.done and main.error is None and close_finished:
        if live:
            bad.append(("worker-never-exits", "after Pool.close returned and every job ended, workers %s are still waiting for a job" % [t.idx - fw for t in live]))
        late = [j for j, c in rec.start_clock.items() if rec.close_returned_at is not None and c > rec.close_returned_at]
        if late:
            bad.append(("job-started-after-close", "jobs %s were started after Pool.close returned" % late))
    if not do_close and main.done:
        if len(live) > size:
            bad.append(("more-workers-than-size", "%d live worker threads at quiescence with THREADPOOL_SIZE=%d" % (len(live), size)))
        idle, busy = sets()
        if busy:
            bad.append(("busy-at-quiescence", "workers %s stay in Pool.busy although every job has ended" % busy))
    seen, out = set(), []
    for sig, what in bad:
        if sig not in seen:
            seen.add(sig)
            out.append((sig, what))
    return out


# ---------------------------------------------------------------- Gallina encoding
def copt(x):
    return "None" if x is None else "(Some %s)" % cnat(x)


def c_case(case, obs):
    ws = clist(["{| o_slot := %s; o_ev := %s; o_exit := %s; o_crash := %s |}" % (copt(w["slot"]), cbool(w["ev"]), cbool(w["exit"]), cbool(w["crash"]))
                for w in obs["workers"]])
    nl = lambda l: clist([cnat(x) for x in l])
    return ("{| c_size := %s; c_min := %s; c_njobs := %s; c_close := %s; c_sched := %s; c_trace := %s; c_lock := %s; c_idle := %s; "
            "c_busy := %s; c_closed := %s; c_workers := %s; c_started := %s; c_ended := %s; c_refused := %s; c_poolclosed := %s; "
            "c_main_done := %s; c_reasons := %s |}") % (
        cnat(case["size"]), cnat(case["min"]), cnat(case["njobs"]), cbool(case["close"]),
        clist(["(%s, %s)" % (cnat(t), cnat(c)) for t, c in case["sched"]]), nl(obs["trace"]), copt(obs["lock"]),
        nl(obs["idle"]), nl(obs["busy"]), cbool(obs["closed"]), ws, nl(obs["started"]), nl(obs["ended"]), nl(obs["refused"]),
        nl(obs["poolclosed"]), cbool(obs["main_done"]), clist([ctext(r) for r in obs["reasons"]]))


def c_rcase(case, obs):
    return "{| r_case := %s; r_closer_done := %s |}" % (c_case(case, obs), cbool(obs["closer_done"]))


# ---------------------------------------------------------------- generators
def drain_sched(nthreads, rounds=40):
    out = []
    for _ in range(rounds):
        for t in range(nthreads):
            out += [[t, 0]] * 3
    return out


def gen_case(rng, big=False):
    size = rng.choice([1, 1, 2, 2, 3])
    minw = rng.randint(1, size)
    njobs = rng.randint(1, 6 if big else 4)
    close = rng.random() < 0.45
    nt = 1 + size + 2
    n = rng.randint(5, 90 if big else 60)
    sched = []
    # bursts: a thread keeps running for a few steps, then a preemption
    while len(sched) < n:
        t = rng.choice([0, 0] + list(range(1, nt)))
        for _ in range(rng.choice([1, 1, 2, 3, 5, 8])):
            sched.append([t, rng.randrange(3)])
    sched += drain_sched(nt, 4 + 3 * njobs)
    case = {"size": size, "min": minw, "njobs": njobs, "close": close, "sched": sched}
    if rng.random() < 0.4:
        case["raises"] = sorted(rng.sample(range(njobs), rng.randint(1, njobs)))
    if rng.random() < 0.25:
        case["commtimeout"] = True
        case["silent"] = sorted(rng.sample(range(njobs), rng.randint(1, njobs)))
    return case


def family_cases():
    """systematic: size=min=1 and size 2, a finishing worker preempted at every point of notify_done while the
    accept loop submits the next connection / closes (two preemption points)"""
    out = []
    for (size, minw, njobs, close) in [(1, 1, 2, False), (1, 1, 2, True), (2, 1, 3, False), (2, 2, 2, True), (2, 1, 2, True)]:
        for a in range(8, 26, 2):
            for b in range(0, 14, 2):
                sched = [[0, 0]] * a + [[1, 0]] * b + [[0, 0]] * 14 + [[2, 0]] * 6
                sched += drain_sched(size + 2, 4 + 3 * njobs)
                out.append({"size": size, "min": minw, "njobs": njobs, "close": close, "sched": sched})
    return out


def gen_race_case(rng, big=False):
    """accept loop (thread 0) submitting while a second thread (1) runs Pool.close(); workers are threads 2.."""
    size = rng.choice([1, 1, 2, 2, 3])
    minw = rng.randint(1, size)
    njobs = rng.randint(1, 5 if big else 4)
    nt = 2 + size + 1
    n = rng.randint(5, 80 if big else 55)
    sched = []
    while len(sched) < n:
        t = rng.choice([0, 0, 1, 1] + list(range(2, nt)))
        for _ in range(rng.choice([1, 1, 2, 3, 5, 8])):
            sched.append([t, rng.randrange(3)])
    sched += drain_sched(nt, 4 + 3 * njobs)
    return {"size": size, "min": minw, "njobs": njobs, "close": False, "race": True, "sched": sched}


def family_race_cases():
    """systematic: the closer is preempted after each of its first a steps, then the accept loop runs a whole submit
    (and vice versa: the accept loop is preempted inside process() while the closer runs)"""
    out = []
    for (size, minw, njobs) in [(1, 1, 2), (2, 1, 3), (2, 2, 2)]:
        for m in (0, 4, 9):
            for a in range(0, 17):
                sched = [[0, 0]] * m + [[1, 0]] * a + [[0, 0]] * 13 + [[2, 0]] * 5 + [[1, 0]] * 6 + [[0, 0]] * 6
                sched += drain_sched(size + 3, 4 + 3 * njobs)
                out.append({"size": size, "min": minw, "njobs": njobs, "close": False, "race": True, "sched": sched})
    return out


def family_outcome_cases():
    """jobs that end by raising (the worker must be handed back all the same) and refused silent peers with COMMTIMEOUT"""
    out = []
    for (size, minw, njobs) in [(1, 1, 3), (2, 1, 4), (2, 2, 3)]:
        for raises in ([0], [0, 1], list(range(njobs))):
            for a in (8, 12, 30):
                sched = [[0, 0]] * a + [[1, 0]] * 20 + [[0, 0]] * 14 + [[2, 0]] * 12 + [[1, 0]] * 16 + [[0, 0]] * 14
                sched += drain_sched(size + 2, 4 + 3 * njobs)
                out.append({"size": size, "min": minw, "njobs": njobs, "close": False, "raises": raises, "sched": sched})
        for silent in ([njobs - 1], list(range(njobs))):
            # nobody but the accept loop runs first: connections beyond the pool size are refused
            sched = [[0, 0]] * (12 * njobs + 6) + drain_sched(size + 2, 4 + 3 * njobs)
            out.append({"size": size, "min": minw, "njobs": njobs, "close": False, "commtimeout": True, "silent": silent, "sched": sched})
    return out


def short(obs):
    return {k: obs[k] for k in ("idle", "busy", "closed", "workers", "started", "ended", "refused", "poolclosed", "main_done", "lock")}


def execute(ctx, cases, model_ok, res):
    lits, kept = [], []
    rlits, rkept = [], []
    for case in cases:
        obs, viol = run_impl(case)
        eff = sum(1 for c in obs["trace"] if c)
        res.seen(case, eff >= 12)
        res.count("size_%d_min_%d" % (case["size"], case["min"]))
        res.count("close" if case["close"] else "no_close")
        res.count("jobs_%d" % case["njobs"])
        if case.get("raises"):
            res.count("with_raising_jobs")
        if case.get("silent"):
            res.count("with_silent_refused_peers")
        res.count("refusals", len(obs["refused"]))
        res.count("served", len(obs["started"]))
        res.count("workers_created", len(obs["workers"]))
        res.count("effective_steps", eff)
        for sig, what in viol:
            res.violations.append({"signature": sig, "what": what, "case": case})
        if case.get("race"):
            res.count("racing_closer")
            rlits.append(c_rcase(case, obs))
            rkept.append((case, obs))
        else:
            lits.append(c_case(case, obs))
            kept.append((case, obs))
    if model_ok:
        for idx in vlib.run_cases(ctx, "c", IMPORTS, "case", "check_case", lits, shard=100):
            case, obs = kept[idx]
            res.mismatches.append({"component": "C18", "case": case, "impl": short(obs)})
        for idx in vlib.run_cases(ctx, "r", IMPORTS, "rcase", "check_rcase", rlits, shard=100):
            case, obs = rkept[idx]
            res.mismatches.append({"component": "C18-race", "case": case, "impl": short(obs)})
    return res


def all_cases(ctx):
    rng = ctx.rng
    cases = vlib.load_corpus(PROP) + family_cases() + family_outcome_cases()
    for _ in range(ctx.n(450, 6000)):
        cases.append(gen_case(rng, big=not ctx.quick))
    cases += family_race_cases()
    for _ in range(ctx.n(100, 1800)):
        cases.append(gen_race_case(rng, big=not ctx.quick))
    return cases


def run(ctx, model_ok=True):
    res = vlib.Result()
    cases = all_cases(ctx)
    execute(ctx, cases, model_ok, res)
    res.rule = ("[racing-closer cases: the same with Pool.close() in a second thread (1) while thread 0 still submits; family: closer preempted after each of its first 0..16 steps] pool sizes 1..3 with 1 <= MIN <= SIZE, 1..6 connections submitted through SocketServer_Threadpool.events by the accept-loop "
                "thread, optionally followed by Pool.close; schedules of (thread, pop-choice): systematic families with two preemption points "
                "around notify_done / process / close, then seeded random bursts, each followed by a deterministic drain; one scheduler step = "
                "one primitive on Pool.idle/busy/closed/count_lock, Worker.job/job_available, thread start, job end or refusal reply. "
                "non-trivial = at least 12 effective steps; distinct = case hash")
    res.samples = [cases[len(cases) // 2], cases[-1]]
    return res


def search(ctx, broken):
    res = vlib.Result()
    cases = [b["case"] for b in broken if b.get("case")] + all_cases(ctx)
    execute(ctx, cases, False, res)
    return res


def replay(ctx, case):
    obs, viol = run_impl(case)
    if viol:
        return True, {"oracle": viol, "impl": short(obs)}
    res = vlib.Result()
    execute(ctx, [case], True, res)
    if res.mismatches:
        expr = ("rmodel_case (%s)" % c_rcase(case, obs)) if case.get("race") else ("model_case (%s)" % c_case(case, obs))
        model = vlib.eval_model(ctx, IMPORTS, expr)
        return True, {"mismatch": True, "impl": short(obs), "trace": obs["trace"], "model": model[-3000:]}
    return False, {"impl": short(obs)}
