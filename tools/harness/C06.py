"""C06 — wire messages: real SendingMessage / recv_stub vs Model/Wire.v (DESIGN 6/C06)."""
import array, errno, struct, types, uuid, zlib
from tools.lib import vlib
from tools.lib.vlib import cN, cbool, clist, copt, cbytes

PROP = "C06"
GEN = ["GenProtocol", "GenSockutil"]
ASSUMPTIONS = [
    "zlib.decompress(zlib.compress(x)) == x (zlib is an oracle: its output is recorded per case and handed to the model)",
    "struct.pack/unpack are big-endian fixed-width codecs (their arithmetic is proved in the model; the C code is trusted)",
    "asserts are enabled (no python -O): the annotation tiling check is an assert",
    "annotation ids are str, annotation values bytes-like, header fields non-negative ints (other Python types are outside the model)",
]
IMPORTS = "From V Require Import Model.Bytes Model.SockIO Model.Wire Model.WireIO Harness.Cmp Harness.H06."
BIG = 1 << 30


class StreamSock:
    """socket whose recv fragments the stream pseudo-randomly and injects retryable errors"""
    def __init__(self, stream, rng):
        self.stream, self.pos, self.rng = stream, 0, rng
        self.script, self.waitall = [], None     # what the socket did, call by call (for Model/WireIO.v)

    def recv(self, n, flags=0):
        import socket as _s
        if self.waitall is None:
            self.waitall = bool(flags & getattr(_s, "MSG_WAITALL", 0))
        r = self.rng.random()
        if r < 0.08:
            e = self.rng.choice([errno.EINTR, errno.EAGAIN])
            self.script.append(["E", e])
            raise OSError(e, "scripted")
        k = n if r < 0.3 else self.rng.randint(1, max(1, n))
        # recorded for the socket model: "at most k bytes"; any k beyond what is left of the stream is equivalent
        # to (left + 1), which keeps the unary nat literal small when a hostile header asks for 2**30 bytes
        self.script.append(["D", min(k, len(self.stream) - self.pos + 1)])
        chunk = self.stream[self.pos:self.pos + min(k, n)]
        self.pos += len(chunk)
        return chunk


class Conn:
    def __init__(self, sock):
        self.sock = sock

    def recv(self, size):
        from Pyro5 import socketutil
        return socketutil.receive_data(self.sock, size)


def classify(x):
    from Pyro5 import errors
    if isinstance(x, errors.ProtocolError):
        return "EProtocol"
    if isinstance(x, errors.ConnectionClosedError):
        return "EClosed"
    if isinstance(x, struct.error):
        return "EStruct"
    if isinstance(x, UnicodeError):
        return "EUnicode"
    if isinstance(x, AssertionError):
        return "EAssert"
    if isinstance(x, zlib.error):
        return "EZlib"
    return "other:" + type(x).__name__


def mkval(b, vtype):
    b = bytes(b)
    if vtype == "bytearray":
        return bytearray(b)
    if vtype == "memoryview":
        return memoryview(b)
    if vtype == "mv_I":
        return memoryview(array.array("I", b))
    if vtype == "mv_H":
        return memoryview(array.array("H", b))
    if vtype == "mv_d":
        return memoryview(array.array("d", b))
    if vtype == "mv_2d":      # two-dimensional byte view: len() is the first dimension only
        return memoryview(b).cast("B", shape=[len(b) // 4, 4]) if len(b) >= 4 else memoryview(b)
    if vtype == "mv_2dH":     # two-dimensional view of 2-byte items
        return memoryview(b).cast("H", shape=[len(b) // 6, 3]) if len(b) >= 6 else memoryview(b)
    if vtype == "mv_slice":   # a slice of a larger buffer
        return memoryview(b"xy" + b + b"z")[2:2 + len(b)]
    return b


class ZShim:
    def __init__(self):
        self.compressed = None
        self.decompressed = "uncalled"
        self.error = zlib.error

    def compress(self, data, level=-1):
        self.compressed = zlib.compress(data, level)
        return self.compressed

    def decompress(self, data):
        try:
            self.decompressed = zlib.decompress(data)
        except zlib.error:
            self.decompressed = None
            raise
        return self.decompressed


def with_env(cfg, corr, fn):
    from Pyro5 import config, protocol, socketutil
    from Pyro5.callcontext import current_context
    old = (config.COMPRESSION, config.MAX_MESSAGE_SIZE, current_context.correlation_id, protocol.zlib, socketutil.time)
    shim = ZShim()
    tshim = types.SimpleNamespace(sleep=lambda d: None)
    config.COMPRESSION, config.MAX_MESSAGE_SIZE = bool(cfg["compression"]), cfg["max_size"]
    current_context.correlation_id = uuid.UUID(bytes=bytes(corr)) if corr is not None else None
    protocol.zlib = shim
    socketutil.time = tshim
    try:
        return fn(shim)
    finally:
        config.COMPRESSION, config.MAX_MESSAGE_SIZE, current_context.correlation_id, protocol.zlib, socketutil.time = old


def run_encode(case):
    from Pyro5 import protocol
    m = case["msg"]

    def go(shim):
        anns = {k: mkval(v, t) for k, v, t in m["anns"]}
        try:
            msg = protocol.SendingMessage(m["type"], m["flags"], m["seq"], m["ser"], bytes(m["payload"]), anns)
            return {"kind": "ok", "data": bytes(msg.data), "z": shim.compressed}
        except Exception as x:
            return {"kind": classify(x), "z": shim.compressed}
    return with_env(case["cfg"], m["corr"], go)


def run_decode(case, rng_seed):
    from Pyro5 import protocol
    import random

    def go(shim):
        sock = StreamSock(bytes(case["stream"]), random.Random(rng_seed))
        try:
            msg = protocol.recv_stub(Conn(sock), case["accepted"])
            obs = {"kind": "ok", "type": msg.type, "flags": msg.flags, "seq": msg.seq, "ser": msg.serializer_id,
                   "data": bytes(msg.data), "anns": [[k, bytes(v)] for k, v in msg.annotations.items()],
                   "corr": bytes(msg.corr_id), "data_size": msg.data_size, "annotations_size": msg.annotations_size}
        except Exception as x:
            obs = {"kind": classify(x)}
        obs["consumed"] = sock.pos
        obs["script"] = sock.script
        obs["waitall"] = bool(sock.waitall)
        obs["unz"] = shim.decompressed
        return obs
    return with_env(case["cfg"], None, go)


# ---------------------------------------------------------------- oracle (the property over the implementation)
def walk_chunks(region):
    """independent tiling check of an annotation region; returns dict or None"""
    i, d = 0, {}
    while i < len(region):
        if i + 8 > len(region):
            return None
        try:
            k = region[i:i + 4].decode("ascii")
        except UnicodeDecodeError:
            return None
        ln = int.from_bytes(region[i + 4:i + 8], "big")
        if i + 8 + ln > len(region):
            return None
        d[k] = region[i + 8:i + 8 + ln]
        i += 8 + ln
    return d


def encodable(m):
    """every field fits its width, annotation ids are 4 ascii characters: the sender has no reason to refuse"""
    return all(0 <= m[f] <= 0xff for f in ("type", "ser")) and all(0 <= m[f] <= 0xffff for f in ("flags", "seq")) and \
        all(isinstance(k, str) and len(k) == 4 and k.isascii() for k, v, t in m["anns"]) and \
        (m["corr"] is None or len(m["corr"]) == 16)


def oracle_encode(case, obs, consts):
    bad = []
    m, cfg = case["msg"], case["cfg"]
    anns = {k: bytes(v) for k, v, t in m["anns"]}
    payload = bytes(m["payload"])
    asz = sum(8 + len(v) for v in anns.values())
    # the sizes the sender could declare: the payload as it is, or compressed (when it ran zlib at all)
    candidates = [len(payload) + asz] + ([len(obs["z"]) + asz] if obs["z"] is not None else [])
    declared = max(candidates)
    if obs["kind"] == "ok" and len(obs["data"]) >= 20:
        declared = int.from_bytes(obs["data"][12:16], "big") + int.from_bytes(obs["data"][16:20], "big")   # what it did declare
    if obs["kind"] == "ok":
        if declared > cfg["max_size"]:
            bad.append(("sender-oversize-accepted", "sender built a message of declared size %d > MAX_MESSAGE_SIZE %d" % (declared, cfg["max_size"])))
        # decode what was built, with trailing bytes, fragmented
        data = obs["data"]
        d = run_decode({"cfg": {"compression": cfg["compression"], "max_size": max(cfg["max_size"], declared)},
                        "accepted": None, "stream": list(data + b"\x01\x02\x03")}, 7)
        exp_flags = (m["flags"] & ~(consts["FLAGS_COMPRESSED"])) | (consts["FLAGS_CORR_ID"] if m["corr"] is not None else 0)
        if d["kind"] != "ok":
            bad.append(("own-message-rejected", "the receiver rejects (%s) a message the sender built" % d["kind"]))
        else:
            got = (d["type"], d["flags"], d["seq"], d["ser"], d["data"], dict((k, v) for k, v in d["anns"]), d["corr"], d["consumed"])
            want = (m["type"], exp_flags, m["seq"], m["ser"], payload, anns,
                    bytes(m["corr"]) if m["corr"] is not None else b"\0" * 16, len(data))
            if got != want:
                names = ["type", "flags", "seq", "serializer", "payload", "annotations", "correlation id", "bytes consumed"]
                diff = [n for n, a, b in zip(names, got, want) if a != b]
                bad.append(("roundtrip-differs:" + ",".join(diff), "decoded message differs from the encoded one in: " + ", ".join(diff)))
    elif declared <= cfg["max_size"] and encodable(m):
        bad.append(("sender-spurious-refusal", "sender refused (%s) a well-formed message of declared size %d <= max %d" % (obs["kind"], declared, cfg["max_size"])))
    return bad


def oracle_decode(case, obs, consts):
    bad = []
    stream = bytes(case["stream"])
    cfg = case["cfg"]
    if len(stream) >= 40:
        dsz, asz = int.from_bytes(stream[12:16], "big"), int.from_bytes(stream[16:20], "big")
        hdr_ok = stream[:4] == b"PYRO" and int.from_bytes(stream[4:6], "big") == consts["PROTOCOL_VERSION"] and \
            int.from_bytes(stream[38:40], "big") == consts["_magic_number"]
        if hdr_ok and dsz + asz > cfg["max_size"]:
            if obs["kind"] == "ok":
                bad.append(("receiver-oversize-accepted", "receiver accepted a message declaring %d > max %d" % (dsz + asz, cfg["max_size"])))
            elif obs["consumed"] > 40:
                bad.append(("receiver-oversize-body-read", "receiver read %d bytes of an oversized message before refusing" % obs["consumed"]))
    if obs["kind"] == "ok":
        ok = len(stream) >= 40 and hdr_ok
        if ok:
            total = 40 + dsz + asz
            region = stream[40:40 + asz]
            chunks = walk_chunks(region)
            if len(stream) < total or chunks is None:
                ok = False
            elif obs["consumed"] != total:
                bad.append(("decode-wrong-consumed", "accepted message of %d bytes but consumed %d" % (total, obs["consumed"])))
        if not ok:
            bad.append(("accepted-malformed", "decoder accepted bytes that are not a well-formed message (header / length fields / annotation tiling)"))
        else:
            # re-encode what was accepted: must decode to the same message again
            flags = obs["flags"]
            re_case = {"cfg": {"compression": False, "max_size": BIG},
                       "msg": {"type": obs["type"], "flags": flags & ~consts["FLAGS_CORR_ID"], "seq": obs["seq"], "ser": obs["ser"],
                               "payload": list(obs["data"]), "anns": [[k, list(v), "bytes"] for k, v in obs["anns"]],
                               "corr": list(obs["corr"]) if flags & consts["FLAGS_CORR_ID"] else None}}
            e = run_encode(re_case)
            if e["kind"] != "ok":
                bad.append(("accepted-not-reencodable", "an accepted message cannot be re-encoded (%s)" % e["kind"]))
            else:
                d = run_decode({"cfg": re_case["cfg"], "accepted": None, "stream": list(e["data"])}, 3)
                keys = ["type", "flags", "seq", "ser", "data", "anns"]
                if d["kind"] != "ok" or any(d[k] != obs[k] for k in keys) or \
                        (flags & consts["FLAGS_CORR_ID"] and d["corr"] != obs["corr"]):
                    bad.append(("reencode-differs", "re-encoding an accepted message does not decode to the same message"))
    return bad


# ---------------------------------------------------------------- Gallina encodings
def c_cfg(cfg):
    return "{| max_size := %s; compression := %s |}" % (cN(cfg["max_size"]), cbool(cfg["compression"]))


def c_ck(b):
    ln, h = vlib.cksum(b)
    return "(%s, %s)" % (cN(ln), cN(h))


def c_res(kind, okterm):
    # the class of a rejection is not compared (H06.werr_eqb): classes the model has no name for are passed as EProtocol
    return "(Ok %s)" % okterm if kind == "ok" else "(Err %s)" % (kind if not kind.startswith("other:") else "EProtocol")


def c_encode(case, obs):
    m = case["msg"]
    anns = clist(["(%s, %s)" % (vlib.ctext(k), cbytes(v)) for k, v, t in m["anns"]])
    msg = "{| s_type := %s; s_flags := %s; s_seq := %s; s_ser := %s; s_payload := %s; s_anns := %s; s_corr := %s |}" % (
        cN(m["type"]), cN(m["flags"]), cN(m["seq"]), cN(m["ser"]), cbytes(m["payload"]), anns, copt(m["corr"], cbytes))
    z = cbytes(obs["z"]) if obs["z"] is not None else "[]"
    return "EC {| e_cfg := %s; e_msg := %s; e_z := %s; e_out := %s |}" % (
        c_cfg(case["cfg"]), msg, z, c_res(obs["kind"], c_ck(obs.get("data", b""))))


def c_decode(case, obs):
    if obs["kind"] == "ok":
        anns = clist(["(%s, %s)" % (vlib.ctext(k), c_ck(v)) for k, v in obs["anns"]])
        o = "{| o_type := %s; o_flags := %s; o_seq := %s; o_ser := %s; o_data := %s; o_anns := %s; o_corr := %s |}" % (
            cN(obs["type"]), cN(obs["flags"]), cN(obs["seq"]), cN(obs["ser"]), c_ck(obs["data"]), anns, cbytes(obs["corr"]))
    else:
        o = None
    unz = obs["unz"]
    unz_c = "None" if unz in (None, "uncalled") else "(Some %s)" % cbytes(unz)
    acc = case["accepted"]
    script = clist(["Deliver %s" % vlib.cnat(k) if t == "D" else "SockIO.Err (Some %s)" % cN(k) for t, k in obs.get("script", [])])
    return "DC {| d_cfg := %s; d_accepted := %s; d_unz := %s; d_stream := %s; d_out := %s; d_consumed := %s; d_waitall := %s; d_script := %s |}" % (
        c_cfg(case["cfg"]), copt(acc, lambda l: clist([cN(x) for x in l])), unz_c, cbytes(case["stream"]),
        c_res(obs["kind"], o), cN(obs["consumed"]), vlib.cbool(obs.get("waitall", False)), script)


# ---------------------------------------------------------------- generators
KEYCHARS = "ABCDEFGHIJKLMNOPQRSTUVWXYZabcdxyz0189_-"


def gen_key(rng, hostile):
    k = "".join(rng.choice(KEYCHARS) for _ in range(4))
    if hostile:
        r = rng.random()
        if r < 0.3:
            k = k[:rng.choice([0, 1, 3])]
        elif r < 0.5:
            k = k + "Q"
        elif r < 0.8:
            k = k[:2] + rng.choice(["é", "Δ", "\x80", "\U0001f600"]) + k[3:]
        else:
            k = k[:1] + "\x00" + k[2:]
    return k


def gen_payload(rng, big_ok):
    n = rng.choice([0, 1, 5, 40, 98, 99, 100, 101, 102, 150, rng.randint(0, 300)])
    if big_ok and rng.random() < 0.04:
        n = rng.choice([1000, 4096, rng.randint(300, 4096)])
    if rng.random() < 0.5:
        return [rng.randrange(256) for _ in range(n)]
    pat = [rng.randrange(256) for _ in range(rng.randint(1, 4))]
    return [pat[i % len(pat)] for i in range(n)]


def gen_field(rng, bits):
    top = 1 << bits
    return rng.choice([0, 1, 2, top - 2, top - 1, rng.randrange(top), rng.randrange(top), rng.randrange(top)])


def gen_msg(rng, hostile):
    anns, seen = [], set()
    for _ in range(rng.choice([0, 0, 1, 1, 2, 3, 5])):
        k = gen_key(rng, hostile and rng.random() < 0.3)
        if k in seen:
            continue
        seen.add(k)
        vtype = rng.choice(["bytes", "bytes", "bytearray", "memoryview", "mv_I", "mv_H", "mv_d", "mv_2d", "mv_2dH", "mv_slice"])
        n = rng.choice([0, 0, 1, 4, 8, 17, 24, rng.randint(0, 60)])
        if vtype in ("mv_I", "mv_2d"):
            n -= n % 4
        if vtype == "mv_H":
            n -= n % 2
        if vtype == "mv_d":
            n -= n % 8
        if vtype == "mv_2dH":
            n -= n % 6
        anns.append([k, [rng.randrange(256) for _ in range(n)], vtype])
    m = {"type": gen_field(rng, 8), "flags": gen_field(rng, 16), "seq": gen_field(rng, 16), "ser": gen_field(rng, 8),
         "payload": gen_payload(rng, True), "anns": anns,
         "corr": None if rng.random() < 0.6 else ([0] * 16 if rng.random() < 0.1 else [rng.randrange(256) for _ in range(16)])}
    if hostile and rng.random() < 0.5:
        f = rng.choice(["type", "flags", "seq", "ser"])
        m[f] = {"type": 256, "ser": 256, "flags": 65536, "seq": 65536}[f] + rng.choice([0, 1, 1000])
    return m


def raw_message(consts, typ, ser, flags, seq, dsize, asize, corr, body, tag=b"PYRO", ver=None, magic=None, reserved=0):
    ver = consts["PROTOCOL_VERSION"] if ver is None else ver
    magic = consts["_magic_number"] if magic is None else magic
    return struct.pack("!4sHBBHHII16sHH", tag, ver, typ, ser, flags, seq, dsize, asize, corr, reserved, magic) + body


def gen_cases(ctx, consts):
    rng = ctx.rng
    cases = []
    n_enc = ctx.n(900, 10000)
    valid_msgs = []
    for i in range(n_enc):
        hostile = rng.random() < 0.25
        m = gen_msg(rng, hostile)
        cfg = {"compression": rng.random() < 0.5, "max_size": BIG}
        probe = run_encode({"cfg": cfg, "msg": m})
        if probe["kind"] == "ok" and rng.random() < 0.35:
            plen = len(probe["z"]) if probe["z"] is not None else len(m["payload"])
            total = plen + sum(8 + len(v) for _, v, _ in m["anns"])
            cfg = {"compression": cfg["compression"], "max_size": max(0, total + rng.choice([-1, 0, 1]))}
        cases.append({"kind": "encode", "cfg": cfg, "msg": m})
        if probe["kind"] == "ok":
            valid_msgs.append((cfg["compression"], probe["data"]))
    n_dec = ctx.n(1600, 16000)
    for i in range(n_dec):
        r = rng.random()
        comp, base = rng.choice(valid_msgs)
        base = bytearray(base)
        cfg = {"compression": rng.random() < 0.5, "max_size": BIG}
        accepted = rng.choice([None, None, [], [base[6]], [1, 4, 6], [(base[6] + 1) % 256]])
        if r < 0.25:
            stream = bytes(base) + bytes(rng.randrange(256) for _ in range(rng.choice([0, 0, 3, 10])))
            if rng.random() < 0.3:
                dsz, asz = int.from_bytes(base[12:16], "big"), int.from_bytes(base[16:20], "big")
                cfg["max_size"] = max(0, dsz + asz + rng.choice([-1, 0, 1]))
        elif r < 0.45:   # byte / bit mutation, biased to the header and the annotation region
            stream = bytearray(base)
            for _ in range(rng.choice([1, 1, 2])):
                hi = min(len(stream), rng.choice([6, 40, 60, len(stream)]))
                j = rng.randrange(hi)
                stream[j] = rng.choice([stream[j] ^ (1 << rng.randrange(8)), rng.randrange(256), 0, 255, 0x80])
            stream = bytes(stream)
        elif r < 0.62:   # length fields +- delta
            stream = bytearray(base)
            off = rng.choice([12, 16])
            v = int.from_bytes(stream[off:off + 4], "big") + rng.choice([-9, -8, -4, -1, 1, 4, 7, 8, 9, 12, 1 << 31])
            stream[off:off + 4] = max(0, min(v, (1 << 32) - 1)).to_bytes(4, "big")
            stream = bytes(stream) + bytes(rng.randrange(256) for _ in range(rng.choice([0, 12])))
            if rng.random() < 0.3:
                cfg["max_size"] = rng.choice([0, 10, 100, 1000])
        elif r < 0.74:   # every prefix truncation (sampled)
            stream = bytes(base[:rng.randrange(len(base) + 1)])
        elif r < 0.90:   # handcrafted annotation regions: overshoot, straddle, duplicates, non-ascii, empty ids
            chunks = []
            for _ in range(rng.choice([1, 2, 3])):
                key = rng.choice([b"AAAA", b"AAAA", b"BBBB", b"CC\x80C", b"\x00\x00\x00\x00", bytes(rng.randrange(128) for _ in range(4)),
                                  # ids that are VALID utf-8 / latin-1 text but not ascii (a decoder using another codec accepts them)
                                  "\u00e9ab".encode("utf-8"), "\u20acA".encode("utf-8"), "\U0001f600".encode("utf-8"),
                                  "\u00e9\u00e9".encode("utf-8"), b"AB\xc3\xa9", b"\xe9abc", b"\xffABC"])
                val = bytes(rng.randrange(256) for _ in range(rng.choice([0, 1, 5, 9])))
                declared = len(val) + rng.choice([0, 0, 0, 0, 1, -1, 3, 8, 200])
                chunks.append(key + max(0, declared).to_bytes(4, "big") + val)
            region = b"".join(chunks)
            data = bytes(rng.randrange(256) for _ in range(rng.choice([0, 3, 8, 20])))
            asz = len(region) + rng.choice([0, 0, 0, 1, -1, 4, -4, 8])
            asz = max(0, asz)
            body = region + data
            dsz = max(0, len(body) - asz) if rng.random() < 0.8 else rng.randrange(0, 30)
            flags = rng.choice([0, 0, consts["FLAGS_COMPRESSED"], consts["FLAGS_CORR_ID"], rng.randrange(65536)])
            stream = raw_message(consts, rng.randrange(8), rng.randrange(5), flags, rng.randrange(65536), dsz, asz,
                                 bytes(rng.randrange(256) for _ in range(16)), body)
        elif r < 0.95:   # header field boundaries / wrong tag, version, magic
            kw = {}
            c = rng.random()
            if c < 0.25:
                kw["tag"] = rng.choice([b"PYRA", b"pyro", b"\0\0\0\0", b"PYR\xff"])
            elif c < 0.5:
                kw["ver"] = rng.choice([0, consts["PROTOCOL_VERSION"] + 1, consts["PROTOCOL_VERSION"] - 1, 65535])
            elif c < 0.75:
                kw["magic"] = rng.choice([0, consts["_magic_number"] ^ 1, 65535])
            else:
                kw["reserved"] = rng.randrange(65536)
            data = bytes(rng.randrange(256) for _ in range(rng.choice([0, 5])))
            stream = raw_message(consts, rng.choice([0, 1, 4, 255]), rng.choice([0, 1, 255]), rng.choice([0, 65535]),
                                 rng.choice([0, 65535]), len(data), 0, b"\0" * 16, data, **kw)
        else:            # garbage
            stream = bytes(rng.randrange(256) for _ in range(rng.choice([0, 3, 5, 6, 39, 40, 41, 80])))
            if rng.random() < 0.5:
                stream = b"PYRO" + consts["PROTOCOL_VERSION"].to_bytes(2, "big") + stream
        cases.append({"kind": "decode", "cfg": cfg, "accepted": accepted, "stream": list(stream), "frag_seed": rng.randrange(1 << 30)})
    return cases


def targeted(consts):
    out = []
    thr = consts["threshold"]
    for n in (thr - 1, thr, thr + 1, thr + 2):
        for comp in (False, True):
            out.append({"kind": "encode", "cfg": {"compression": comp, "max_size": BIG},
                        "msg": {"type": 4, "flags": 0, "seq": 7, "ser": 1, "payload": [65] * n, "anns": [], "corr": None}})
    out.append({"kind": "encode", "cfg": {"compression": False, "max_size": BIG},
                "msg": {"type": 4, "flags": 0, "seq": 7, "ser": 1, "payload": [1, 2, 3],
                        "anns": [["ABCD", [1, 0, 0, 0, 2, 0, 0, 0], "mv_I"]], "corr": None}})
    for vt, n in (("mv_2d", 24), ("mv_2dH", 24), ("mv_d", 16), ("mv_slice", 5)):
        out.append({"kind": "encode", "cfg": {"compression": False, "max_size": BIG},
                    "msg": {"type": 4, "flags": 0, "seq": 9, "ser": 1, "payload": [1, 2, 3],
                            "anns": [["ABCD", list(range(n)), vt], ["EFGH", [7], "bytes"]], "corr": None}})
    return out


def get_consts(ctx):
    from tools.gen import gen
    st = gen.regenerate(ctx.tree, only=["GenProtocol"])["GenProtocol"]
    if st["ok"]:
        c = dict(st["info"]["consts"])
        c["threshold"] = st["info"]["threshold"]
        return c
    from Pyro5 import protocol
    return {"PROTOCOL_VERSION": protocol.PROTOCOL_VERSION, "_magic_number": protocol._magic_number,
            "FLAGS_COMPRESSED": protocol.FLAGS_COMPRESSED, "FLAGS_CORR_ID": protocol.FLAGS_CORR_ID, "threshold": 100}


def run_one(case):
    return run_encode(case) if case["kind"] == "encode" else run_decode(case, case.get("frag_seed", 1))


def short(obs):
    return {k: (v if not isinstance(v, (bytes, bytearray)) else list(v[:48])) for k, v in obs.items()}


def execute(ctx, cases, model_ok, res, consts, with_oracle=True):
    lits, kept = [], []
    for case in cases:
        obs = run_one(case)
        nontriv = True
        res.seen(case, nontriv)
        res.count(case["kind"] + ":" + obs["kind"])
        if with_oracle:
            found = oracle_encode(case, obs, consts) if case["kind"] == "encode" else oracle_decode(case, obs, consts)
            for sig, what in found:
                res.violations.append({"signature": sig, "what": what, "case": case})
        lits.append(c_encode(case, obs) if case["kind"] == "encode" else c_decode(case, obs))
        kept.append((case, obs))
    if model_ok:
        for idx in vlib.run_cases(ctx, "c", IMPORTS, "case", "check_case", lits, shard=150):
            case, obs = kept[idx]
            res.mismatches.append({"component": "C06", "case": case, "impl": short(obs)})
    return res


def run(ctx, model_ok=True):
    res = vlib.Result()
    consts = get_consts(ctx)
    cases = vlib.load_corpus(PROP) + targeted(consts) + gen_cases(ctx, consts)
    execute(ctx, cases, model_ok, res, consts)
    res.rule = ("encoder: generated messages (every 8/16-bit field at boundaries, payload sizes around the compression threshold, "
                "0-5 annotations with bytes/bytearray/memoryview values incl. multi-byte items, hostile keys, MAX_MESSAGE_SIZE at "
                "declared size -1/0/+1, correlation id on/off); decoder: valid messages with trailing bytes, byte/bit mutations, "
                "length fields +- delta, prefix truncations, handcrafted annotation regions (overshoot, straddle, duplicate and "
                "non-ascii ids), wrong tag/version/magic, garbage; all read through receive_data over a randomly fragmenting socket. "
                "distinct = distinct case hash (all cases count as non-trivial: each runs the full codec path)")
    res.samples = [c for c in cases[-400:] if c["kind"] == "decode"][:2] + [c for c in cases if c["kind"] == "encode"][:2]
    return res


def search(ctx, broken):
    res = vlib.Result()
    consts = get_consts(ctx)
    cases = [b["case"] for b in broken if b.get("case")] + targeted(consts) + gen_cases(ctx, consts)
    execute(ctx, cases, False, res, consts)
    return res


def replay(ctx, case):
    consts = get_consts(ctx)
    obs = run_one(case)
    bad = oracle_encode(case, obs, consts) if case["kind"] == "encode" else oracle_decode(case, obs, consts)
    if bad:
        return True, {"oracle": bad, "impl": short(obs)}
    res = vlib.Result()
    execute(ctx, [case], True, res, consts, with_oracle=False)
    if res.mismatches:
        lit = c_encode(case, obs) if case["kind"] == "encode" else c_decode(case, obs)
        model = vlib.eval_model(ctx, IMPORTS, "match (%s) with EC e => inl (model_encode e) | DC d => inr (model_decode d) end" % lit)
        return True, {"mismatch": True, "impl": short(obs), "model": model[-1500:]}
    return False, {"impl": short(obs)}
