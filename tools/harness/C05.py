"""C05 — no client input can stop the daemon or disturb other clients (DESIGN 6/C05).

Real daemons (thread-pool and multiplex, with and without COMMTIMEOUT, pool sizes 1/2/4) on loopback sockets are
attacked with structure-aware hostile byte streams while a well-behaved witness client stays connected.
  oracle          client-side and independent of the model: witness replies correct, request loop alive, accounting
                  back to its pre-attack value, a fresh connection is answered (handshake + ping);
  correspondence  the server-side history recorded by tools/lib/c05drv.py (episodes with the exceptions that surfaced,
                  where, and their mro) is replayed through the Coq event machine of Model/Containment.v over the
                  handler tables generated from the tree under test; it must predict reply sent / closed / hook per
                  episode and the final loop state and accounting."""
import json, multiprocessing, os, random, time
from tools.lib import vlib
from tools.lib.vlib import cnat, cbool, clist

PROP = "C05"
GEN = ["GenHandlers"]
ASSUMPTIONS = [
    "calls that are not peer-influenced (logging, selector (un)registration, thread start, accept, pool bookkeeping) do not raise on behalf of a peer",
    "without COMMTIMEOUT a peer that sends a prefix and then stays silent WITHOUT disconnecting legitimately blocks the multiplex server (and the thread server's refusal path): there every truncation is followed by a close or reset; with COMMTIMEOUT configured a stalled peer must not block anybody beyond the timeout (stall scenarios, 3 s timeout)",
    "non-termination (a handler that spins, a read that never times out) is outside the Coq model (it quantifies over exceptions that surface); it is the oracle's watchdog that reports daemon-unresponsive / worker-stranded / accept-loop-blocked",
    "Daemon._housekeeping (item-stream cleanup; runs inside the multiplex request loop under no containing handler, and in the thread server's Housekeeper thread) does not raise: assumed by the theorems, exercised by the stream scenarios (small / zero ITER_STREAM_LIFETIME and ITER_STREAM_LINGER), a violation shows as request-loop-died:multiplex / housekeeper-died:thread",
    "worker hand-over interleavings in general are C18's subject; here one window (accept exactly while a worker returns to the pool) is forced with hooks in the harness process",
    "an exception is identified by the mro of its class; BaseException subclasses outside Exception (KeyboardInterrupt, SystemExit) are outside the property",
    "the call skeleton (which function calls which, what a function does after one of its handlers ran) is hand-modelled and tied to the code by the correspondence run; handler tables, call enclosure, reply-handler class tests and hierarchy are regenerated from the source",
    "response-annotation leakage between connections is C12's subject, not modelled here",
]
IMPORTS = "From V Require Import Model.ContainmentDefs Model.Containment Harness.Cmp Harness.H05.\nOpen Scope string_scope."

CONFIGS = [
    {"server": "thread", "pool": 4, "timeout": None},
    {"server": "multiplex", "pool": 4, "timeout": None},
    {"server": "thread", "pool": 1, "timeout": None},
    {"server": "thread", "pool": 2, "timeout": None},
    {"server": "thread", "pool": 4, "timeout": 30.0},
    {"server": "multiplex", "pool": 4, "timeout": 30.0},
    {"server": "thread", "pool": 1, "timeout": 30.0},
    {"server": "thread", "pool": 2, "timeout": 30.0},
]


# COMMTIMEOUT short enough to wait for: a peer that stalls WITH a timeout configured must not block anybody beyond it
STALL_TIMEOUT = 3.0
STALL_CONFIGS = [
    {"server": "thread", "pool": 1, "timeout": STALL_TIMEOUT},
    {"server": "thread", "pool": 2, "timeout": STALL_TIMEOUT},
    {"server": "multiplex", "pool": 4, "timeout": STALL_TIMEOUT},
]


# item streams: [ITER_STREAM_LIFETIME, ITER_STREAM_LINGER] small / zero, housekeeping every 0.4 s (and after every multiplex event)
STREAM_CONFIGS = [{"server": st, "pool": 4, "timeout": None, "stream": lg, "poll": 0.4}
                  for st in ("multiplex", "thread") for lg in ([0.25, 0.25], [0.25, 0.0], [0.0, 0.25])]


# ---------------------------------------------------------------- Gallina printers
def c_str(s):
    return '"%s"' % s


def c_fault(f):
    cname, site, mro, atrecv = f
    return "{| f_fn := %s; f_site := %s; f_recv := %s; f_exc := %s |}" % (
        cname, "None" if site is None else "(Some %s)" % cnat(site), cbool(atrecv), clist([c_str(c) for c in mro]))


def c_event(e):
    kind = "EConnect" if e["connect"] else "(ERequest {| q_oneway := %s; q_callback := %s; q_stream := %s |})" % (
        cbool(e["oneway"]), cbool(e["callback"]), cbool(e.get("stream", False)))
    return "{| e_conn := %s; e_kind := %s; e_script := %s |}" % (cnat(e["conn"]), kind, clist([c_fault(f) for f in e["faults"]]))


def c_obs(o):
    return "{| o_conn := %s; o_reply := %s; o_open := %s; o_hook := %s; o_left := 0%%nat |}" % (
        cnat(o["conn"]), "None" if o["reply"] is None else "(Some %s)" % o["reply"], cbool(o["open"]), cbool(o["hook"]))


def c_case(c):
    return "{| c_srv := %s; c_psize := %s; c_events := %s; c_obs := %s; c_alive := %s; c_acct := %s |}" % (
        "SThread" if c["server"] == "thread" else "SMux", cnat(c["pool"]), clist([c_event(e) for e in c["events"]]),
        clist([c_obs(o) for o in c["obs"]]), cbool(c["alive"]), cnat(c["acct"]))


# ---------------------------------------------------------------- scenarios
def attack_scenario(rng, cfg, attacks, witness_between=True):
    """attacks: list of (handshake_first, family, bytes, final action) — one connection each"""
    from tools.lib import c05drv as d
    steps = []
    for k, (hs, fam, msg, act) in enumerate(attacks):
        steps.append(["open", k])
        phase = "pre"
        if hs:
            steps += [["send", k, d.base_connect(rng, serializer="serpent").hex(), "connect:valid"], ["read", k]]
            phase = "post"
        if msg:
            steps.append(["send", k, msg.hex(), fam])
        if d.blocks_server(msg, phase) or not msg:
            act = act if act in ("close", "reset") else "reset"
        steps.append([act, k])
        if act == "read":
            steps.append(["close", k])
        if witness_between:
            steps.append(["wcall", rng.randrange(1000)])
    steps.append(["wcall", rng.randrange(1000)])
    return {"cfg": cfg, "steps": steps}


def targeted(rng, cfg, tier_thorough):
    """systematic streams: the known refusal-path witness, every header field at its boundary values, every prefix
    truncation followed by close and by reset, before and after the handshake"""
    from tools.lib import c05drv as d
    out = []
    # refusal path (pool full): garbage / a valid CONNECT, then an immediate reset, a few times (the reset races the refusal)
    out.append(attack_scenario(rng, cfg, [(False, "garbage", b"X" * 64, "reset")] * 4))
    out.append(attack_scenario(rng, cfg, [(False, "connect:valid", d.base_connect(rng, serializer="serpent"), "reset")] * 4))
    out.append(attack_scenario(rng, cfg, [(True, "invoke:raises", d.base_invoke(rng, "raise_", (n,), serializer="serpent"), a)
                                          for n in ("BadStr", "Unser", "SecOS") for a in ("read", "reset")]))
    # exceptions that cannot be printed (eagerly formatting log lines in handlers): serialisable ones from a @callback method,
    # communication-error subclasses from any method, from the validator
    out.append(attack_scenario(rng, cfg, [(True, "invoke:raises", d.base_invoke(rng, m, (n,), serializer="serpent"), "read")
                                          for m, n in (("raise_", "BadStrProto"), ("cb", "BadStrOnly"), ("raise_", "BadStrTimeout"), ("cb", "BadStrProto"))]
                               + [(False, "connect:validator-raises", d.base_connect(rng, handshake={"raise": "BadStrOnly"}, serializer="serpent"), "read")]))
    # a correlation id of the attacker's choosing, in a handshake, a call, a ping and an undecodable call
    def corr(m):
        return d.set_field(d.set_field(m, "flags", d.get_field(m, "flags") | 64), "corr", b"HOSTILE-CORR-ID!")
    out.append(attack_scenario(rng, cfg, [(False, "corr-id", corr(d.base_connect(rng, serializer="serpent")), "read"),
                                          (True, "corr-id", corr(d.base_invoke(rng, serializer="serpent")), "read"),
                                          (True, "corr-id", corr(d.rd.ping_msg(seq=2)), "read"),
                                          (True, "corr-id", corr(d.base_invoke(rng, serializer="serpent", payload=b"\xff\xfe garbage")), "read")]))
    for phase in ("pre", "post"):
        base = d.base_connect(rng, serializer="serpent") if phase == "pre" else d.base_invoke(rng, serializer="serpent")
        hs = phase == "post"
        # every annotation chunk length at the signed / unsigned boundary values, outer sizes consistent
        attacks = []
        for v in d.CHUNK_VALUES:
            lays = d.chunk_layouts(rng, v)
            if not tier_thorough:
                lays = [lays[0]] + rng.sample(lays[1:], 1)
            for lay in lays:
                for wd in ((True, False) if tier_thorough else (rng.random() < 0.5,)):
                    attacks.append((hs, "chunklen", d.ann_message(base, lay, with_data=wd), rng.choice(["read", "read", "close"])))
        rng.shuffle(attacks)
        for i in range(0, len(attacks), 5):
            out.append(attack_scenario(rng, cfg, attacks[i:i + 5]))
        # every header field at boundary values
        attacks = []
        for name, off, w in d.FIELDS:
            vals = d.boundary_values(rng, base, name)
            if not tier_thorough:
                vals = rng.sample(vals, min(3, len(vals)))
            for v in vals:
                attacks.append((hs, "field:" + name, d.set_field(base, name, v), rng.choice(["read", "read", "reset", "close"])))
        # every prefix truncation, then close / reset
        ks = range(len(base)) if tier_thorough else sorted(set(rng.sample(range(len(base)), 14) + [0, 1, 5, 6, 39, 40, 41, len(base) - 1]))
        for k in ks:
            acts = ("close", "reset") if tier_thorough else (rng.choice(["close", "reset"]),)
            for a in acts:
                attacks.append((hs, "truncate", base[:k], a))
        rng.shuffle(attacks)
        for i in range(0, len(attacks), 5):
            out.append(attack_scenario(rng, cfg, attacks[i:i + 5]))
    return out


def handover_scenarios(rng, cfg):
    """thread server: a new well-behaved client is accepted exactly while the worker of a just-ended connection hands itself
    back to the pool (tools/lib/c05drv.py parks that worker right after Pool.notify_done returned, until Pool.process has
    dispatched the next connection): the new client must be served, nobody stranded"""
    from tools.lib import c05drv as d
    out = []
    enders = [[["send", 0, b"GET / HTTP/1.0\r\n\r\n".hex(), "garbage"], ["read", 0]],
              [["send", 0, d.base_connect(rng, serializer="serpent")[:17].hex(), "truncate"], ["close", 0]],
              [["send", 0, d.base_connect(rng, serializer="serpent").hex(), "connect:valid"], ["read", 0], ["reset", 0]]]
    for e in enders:
        out.append({"cfg": cfg, "steps": [["arm"], ["open", 0]] + e + [["fresh", "handover-connection-dropped"], ["wcall", rng.randrange(1000)]]})
    return out


def same_round_scenarios(rng, cfg):
    """while the witness keeps the serving thread busy (multiplex: the loop itself) one or two clients go away and new ones
    connect, so that the server sees the disconnects and the new connections in ONE select round (descriptor numbers are
    reused at once); the new clients must be served"""
    from tools.lib import c05drv as d
    conn = d.base_connect(rng, serializer="serpent").hex()
    out = []
    for nold, end in ((1, "close"), (1, "reset"), (2, "close")):
        steps = []
        for k in range(nold):
            steps += [["open", k], ["send", k, conn, "connect:valid"], ["read", k]]
        steps.append(["wslow", rng.randrange(1000)])
        for k in range(nold):
            steps.append([end, k])
        for k in range(nold):
            steps += [["open_now", 10 + k], ["send", 10 + k, conn, "connect:valid"]]
        steps.append(["wrecv"])
        for k in range(nold):
            steps += [["read", 10 + k], ["send", 10 + k, d.rd.ping_msg(seq=3).hex(), "ping"], ["read", 10 + k]]
        steps.append(["wcall", rng.randrange(1000)])
        out.append({"cfg": cfg, "steps": steps})
    return out


def stall_scenarios(rng, cfg, tier_thorough):
    """COMMTIMEOUT configured: peers that send nothing / a prefix and then stay silent WITHOUT disconnecting; after COMMTIMEOUT
    plus slack a new client must get an answer (a refusal when the pool is full) while the stallers are still connected"""
    from tools.lib import c05drv as d
    base = d.base_connect(rng, serializer="serpent")
    inv = d.base_invoke(rng, serializer="serpent")
    prefixes = [("pre", b""), ("pre", base[:3]), ("pre", base[:20]), ("pre", base[:45]), ("post", inv[:30])]
    if not tier_thorough:
        prefixes = [prefixes[0], rng.choice(prefixes[1:4]), prefixes[4]]
    out = []
    for phase, pre in prefixes:
        steps = [["open", 0]]
        if phase == "post":
            steps += [["send", 0, base.hex(), "connect:valid"], ["read", 0]]
        if pre:
            steps.append(["send", 0, pre.hex(), "stall:prefix"])
        steps += [["stall", cfg["timeout"] + 2.0], ["fresh", "accept-loop-blocked"], ["close", 0], ["wcall", rng.randrange(1000)]]
        out.append({"cfg": cfg, "steps": steps})
    return out


def stream_scenarios(rng, cfg, tier_thorough):
    """a hostile client opens 1..n item streams (calls a generator-returning method), consumes 0..k items, then disconnects /
    resets / stays; nobody talks until lifetime and linger have expired and housekeeping has run; then the usual checks"""
    from tools.lib import c05drv as d
    out = []
    variants = [(1, 0, "close"), (1, 0, "reset"), (2, 1, "close"), (1, 2, "stay"), (3, 0, "close"), (1, 9, "close")]
    if not tier_thorough:
        variants = variants[:2] + rng.sample(variants[2:], 1)
    lg = max(cfg["stream"]) + 0.2
    for nstreams, consume, end in variants:
        steps = [["open", 0], ["send", 0, d.base_connect(rng, serializer="serpent").hex(), "connect:valid"], ["read", 0]]
        for _ in range(nstreams):
            steps += [["send", 0, d.base_invoke(rng, "numbers", (rng.choice([0, 3, 5]),), serializer="serpent").hex(), "invoke:stream"], ["read", 0]]
            if consume:
                steps.append(["snext", 0, consume])
        if rng.random() < 0.3:
            steps.append(["sclose", 0])
        if end != "stay":
            steps.append([end, 0])
        # both expiry moments pass while nobody talks; then one housekeeping pass sees them (multiplex: the witness call triggers
        # one at the latest; thread server: the Housekeeper thread's next round)
        steps += [["idle", lg], ["wcall", rng.randrange(1000)], ["idle", cfg["poll"] + 0.15 if cfg["server"] == "thread" else 0.05],
                  ["wcall", rng.randrange(1000)]]
        out.append({"cfg": cfg, "steps": steps})
    return out


def make_scenarios(ctx, n_random):
    from tools.lib import c05drv as d
    d.clean_context()       # messages are built here, in the check process' main thread
    rng = ctx.rng
    scs = []
    for cfg in STALL_CONFIGS:
        scs += stall_scenarios(rng, cfg, not ctx.quick)
    for cfg in STREAM_CONFIGS:
        scs += stream_scenarios(rng, cfg, not ctx.quick)
    for cfg in CONFIGS:
        scs += targeted(rng, cfg, not ctx.quick)
        if cfg["server"] == "thread" and cfg["pool"] > 1:
            scs += handover_scenarios(rng, cfg)
        if cfg["pool"] >= 4:
            scs += same_round_scenarios(rng, cfg)
    per = max(1, n_random // len(CONFIGS))
    for cfg in CONFIGS:
        for _ in range(per):
            scs.append(d.gen_scenario(rng, cfg))
    return scs


# ---------------------------------------------------------------- execution (one process per chunk)
def _chunk(args):
    tree, info, cfg, items, want_case = args
    import sys
    if tree not in sys.path[:1]:
        sys.path.insert(0, tree)
    from tools.lib import c05drv as d
    p = d.Player(cfg, info, tree)
    out = []
    try:
        for idx, sc in items:
            if d.HANGS[0] >= 8:
                # the daemon hangs systematically (8 unanswered waits in this process, each already reported): stop paying for it
                out.append((idx, {"violations": [], "case": None, "dist": [], "skipped": True}))
                continue
            try:
                r = p.play(sc, want_case=want_case and info is not None)
            except Exception as x:     # infrastructure trouble: one retry on a fresh daemon
                p.stop(kill=True)
                try:
                    r = p.play(sc, want_case=want_case and info is not None)
                except Exception as x2:
                    r = {"violations": [], "case": None, "dist": [], "error": "%s: %s" % (type(x2).__name__, x2)}
            out.append((idx, r))
    finally:
        p.stop(kill=True)
    return out


def execute(ctx, scenarios, info, want_case=True):
    by_cfg = {}
    for i, sc in enumerate(scenarios):
        by_cfg.setdefault(json.dumps(sc["cfg"], sort_keys=True), []).append((i, sc))
    chunks = []
    for key, items in by_cfg.items():
        cfg = json.loads(key)
        slow = cfg in STALL_CONFIGS or cfg in STREAM_CONFIGS
        size = (2 if cfg in STALL_CONFIGS else 3) if slow else max(10, (len(items) + 3) // 4)
        for k in range(0, len(items), size):
            chunk = (ctx.tree, info, cfg, items[k:k + size], want_case)
            if slow:
                chunks.insert(0, chunk)
            else:
                chunks.append(chunk)
    results = [None] * len(scenarios)
    mp = multiprocessing.get_context("fork")
    with mp.Pool(min(8, vlib.NPROC, max(1, len(chunks)))) as pool:
        for part in pool.imap_unordered(_chunk, chunks):
            for idx, r in part:
                results[idx] = r
    return results


def gen_info(ctx):
    from tools.gen import gen
    st = gen.regenerate(ctx.tree, only=["GenHandlers"]).get("GenHandlers")
    return st["info"] if st and st["ok"] else None


CONFIRM = ("witness-foreign-correlation-id",)     # a leak through thread-local state is deterministic: re-run once before reporting


def confirmed(ctx, info, sc, sig):
    r = execute(ctx, [sc], info, want_case=False)[0]
    return bool(r) and any(v[0] == sig for v in r.get("violations", []))


def collect(ctx, res, scenarios, results, model_ok):
    lits, kept = [], []
    points = {}
    for sc, r in zip(scenarios, results):
        if r is None:
            continue
        if r.get("error"):
            ctx.notes.append("scenario not played: " + r["error"][:200])
            continue
        if r.get("inconclusive"):
            res.count("inconclusive (machine too slow for COMMTIMEOUT)")
            continue
        if r.get("skipped"):
            res.count("skipped after 8 hangs in one harness process")
            continue
        case = r["case"]
        nfaults = sum(len(e["faults"]) for e in case["events"]) if case else 0
        res.seen(sc, nfaults > 0 or bool(r["violations"]))
        res.count("server:%s pool=%s timeout=%s" % (sc["cfg"]["server"], sc["cfg"].get("pool"), sc["cfg"].get("timeout")))
        for fam in r["dist"]:
            res.count("family:" + fam)
        for sig, what in r["violations"]:
            if sig.split(":")[0] in CONFIRM and not confirmed(ctx, gen_info(ctx), sc, sig):
                ctx.notes.append("unconfirmed on re-run, dropped: %s" % sig)
                continue
            res.violations.append({"signature": sig, "what": what, "case": sc})
        if case is None:
            continue
        for e in case["events"]:
            for cname, site, mro, _ in e["faults"]:
                key = "%s@%s:%s" % (cname, site, mro[0])
                points[key] = points.get(key, 0) + 1
        if case["anomalies"]:
            res.mismatches.append({"component": "C05:unmodelled-fault", "case": sc, "impl": case["anomalies"][:5]})
            continue
        if r["violations"]:
            continue      # the oracle already speaks; the history of a dead daemon is not comparable
        lits.append(c_case(case))
        kept.append((sc, case))
    res.extra["points_reached"] = dict(sorted(points.items()))
    info = gen_info(ctx)
    if info:
        res.extra["housekeeping_calls"] = {f: [{"line": a["line"], "protecting_site": a["site"]} for a in info["funcs"][f]["anchors"]
                                               if a["kind"] == "KHousekeeping"] for f in ("FMuxEvents", "FMuxLoop")}
    if model_ok and lits:
        for idx in vlib.run_cases(ctx, "c", IMPORTS, "case", "check_case", lits, shard=150):
            sc, case = kept[idx]
            res.mismatches.append({"component": "C05", "case": sc, "impl": {k: case[k] for k in ("events", "obs", "alive", "acct")}})
    return res


def run(ctx, model_ok=True):
    res = vlib.Result()
    info = gen_info(ctx)
    corpus = [c for c in vlib.load_corpus(PROP) if isinstance(c, dict) and "steps" in c]
    scenarios = corpus + make_scenarios(ctx, ctx.n(1400, 14000))
    results = execute(ctx, scenarios, info)
    collect(ctx, res, scenarios, results, model_ok and info is not None)
    res.rule = ("one case = one scenario on a real daemon over loopback: a witness client connected throughout, 1-5 attacking "
                "connections sending structure-aware hostile messages (each header field at boundary values, inconsistent length "
                "fields, prefix truncations followed by close or reset, garbage, unknown serializer / message type, undecodable "
                "payload, every annotation chunk length at the signed/unsigned 32-bit boundary values with consistent outer sizes, "
                "unknown object / member, methods and validators raising a zoo of Exception subclasses incl. "
                "unserialisable and unprintable ones) before / during / after the handshake, then answer read, reset or close; "
                "8 server configurations (thread / multiplex, pool 1/2/4, with / without COMMTIMEOUT); plus: peers that stall without "
                "disconnecting under a 3 s COMMTIMEOUT (a new client must be answered after it), and a new client accepted exactly "
                "while a worker hands itself back to the pool (forced by harness-side hooks around Pool.notify_done/process); non-trivial = at least "
                "one exception surfaced in the skeleton; distinct = distinct scenario hash")
    res.samples = [scenarios[-1], scenarios[0]]
    return res


def search(ctx, broken):
    res = vlib.Result()
    scenarios = [b["case"] for b in broken if isinstance(b.get("case"), dict) and "steps" in b["case"]]
    scenarios += make_scenarios(ctx, ctx.n(600, 1400))
    results = execute(ctx, scenarios, None, want_case=False)
    for sc, r in zip(scenarios, results):
        if r is None or r.get("error") or r.get("inconclusive") or r.get("skipped"):
            continue
        res.seen(sc)
        for sig, what in r["violations"]:
            if sig.split(":")[0] in CONFIRM and not confirmed(ctx, None, sc, sig):
                continue
            res.violations.append({"signature": sig, "what": what, "case": sc})
    return res


def replay(ctx, case):
    from tools.lib import c05drv as d
    d.clean_context()
    info = gen_info(ctx)
    last = None
    for attempt in range(3):          # a reset races the server's answer: give the failure three chances
        r = execute(ctx, [case], info)[0]
        last = r
        if r and r["violations"]:
            return True, {"oracle": r["violations"], "attempt": attempt + 1}
    if last and last.get("case") is not None and info is not None:
        res = vlib.Result()
        collect(ctx, res, [case], [last], True)
        if res.mismatches:
            model = vlib.eval_model(ctx, IMPORTS, "model_diag (%s)" % c_case(last["case"]))
            return True, {"mismatch": res.mismatches[0].get("component"), "impl": last["case"], "model": model[-2500:]}
    return False, {"impl": last["case"] if last else None}
