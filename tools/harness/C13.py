"""C13 — every connection is cleaned up exactly once, however it ends (DESIGN 6/C13).

Real daemons (thread-pool and multiplex transport servers, with and without COMMTIMEOUT) on loopback are driven by
raw client sockets through event scripts (tools/lib/c13impl.py on top of tools/lib/rawdrv.py); after every event the
harness records disconnect-hook calls, resource close() calls, server-side socket / session-instance / tracked-set
state of every connection and the pool / selector accounting.  The same script is run through Model/Cleanup.v
inside Coq (Harness/H13.v) and compared step by step; the ORACLE states the property directly over the observations."""
import concurrent.futures, multiprocessing, os, sys
from tools.lib import vlib
from tools.lib.vlib import cnat, cbool, clist

PROP = "C13"
GEN = ["GenCleanup"]
ASSUMPTIONS = [
    "tracked resources and server-side connection objects are kept alive by the harness: GC-driven __del__ closes are not modelled",
    "events are played strictly sequentially (send, then wait for the daemon's reaction); concurrent oneway calls that track resources after the connection ended are outside the model",
    "a thread-server run with COMMTIMEOUT in which the harness itself was slower than 0.55*COMMTIMEOUT between two events is discarded and repeated (timing guard)",
    "whether a request sent completely and followed by an abortive reset was still served is observed (execution log) and given to the model as part of the event",
    "exception classes outside Pyro5/errors.py raised by user code are represented by one generic class (ValueError / KeyError)",
    "a tracked resource whose close() raises (11 Exception subclasses tried) counts as closed once: the call is what is counted; BaseException-only classes (SystemExit, KeyboardInterrupt) are not tried",
    "a raising clientDisconnect hook (11 Exception subclasses) counts as the one hook call; BaseException-only classes are not tried",
    "item streams (generator results) are only opened and left unexhausted; fetching stream items and stream expiry are C10's subject; streams left by earlier cases are cleared from the daemon before a case",
    "which resource a class constructor tracks is told to the registered classes by the harness per request (same process)",
    "oneway calls: only plain-object methods; the oneway thread's start is delayed from the harness process (Pyro5.server._OnewayCallThread.run wrapped) until the following events have been served; a oneway call that runs after its connection ended is outside the model; the model's reply code for a oneway request means 'executed'",
    "flash connection (thread server): the accept thread is parked right after Worker.process(job) returned (wrapped) while the connection is served and ends",
    "worker hand-over interleaving (thread server) is forced from the harness process by wrapping Pool.notify_done / Pool.process (the worker parks right after handing itself back while the next connection is dispatched); other interleavings of the pool bookkeeping are C18's subject",
]
IMPORTS = "From V Require Import Model.Cleanup Gen.GenCleanup Harness.Cmp Harness.H13."
NPROC = max(2, min(8, (os.cpu_count() or 4) // 2))
if os.environ.get("VERIF_NPROC", "").isdigit():      # shared machine: the coordinator caps the worker processes
    NPROC = max(1, min(NPROC, int(os.environ["VERIF_NPROC"])))


def impl():
    from tools.lib import c13impl
    return c13impl


# ---------------------------------------------------------------- oracle (the property over the observations)
def oracle(case, obs):
    """returns [(signature, what)]"""
    bad = []
    if obs.get("error"):
        return [("harness-error", "the harness could not play the case: " + obs["error"])]
    if not obs.get("valid", True):
        return []      # a reply the client waited for timed out / timing guard: unusable run, counted, not judged
    I = impl()
    events = case["events"]
    accepted = set(obs["accepted"])
    tracked, touched, alive, ever = {}, {}, set(), set()
    hooks_total = {}
    all_steps = list(zip(events, obs["steps"])) + [(["probe"], obs["probe"]), (["teardown"], obs["teardown"])]
    client_ended = set()

    def say(sig, what):
        if not any(s == sig for s, _ in bad):
            bad.append((sig, what))
    for i, (ev, st) in enumerate(all_steps):
        kind = ev[0]
        for e in st["execs"]:
            # whatever user code ran while this event's request was being served (method body or constructor) belongs
            # to the connection the request was sent on, not to what the call context claimed
            cid, act, r = (ev[1] if kind in ("req", "raise", "end", "owrun") else e[0]), e[1], e[2]
            if act in ("track", "ctor"):
                tracked.setdefault(cid, set()).add(r)
            elif act == "untrack":
                tracked.setdefault(cid, set()).discard(r)
        if kind in ("req", "raise") and ev[2] == "S" and st["execs"]:
            touched[ev[1]] = True
        if kind == "end" and ev[2] == "cut" and ev[4] == "S" and st["execs"]:
            touched[ev[1]] = True
        if kind == "probe":
            for c in obs["still_open"]:
                touched[c] = True
        if kind == "connect":
            ever.add(ev[1])
            if st.get("accepted"):
                alive.add(ev[1])
        ended_now = set()
        if kind == "end" and ev[2] in ("close", "reset", "cut"):
            ended_now.add(ev[1])                       # the client went away: the connection HAS ended
        if kind == "teardown":
            ended_now.update(obs["still_open"])
        ended_now.update(c for c in st["sockclosed"] if c in alive)      # the daemon closed it
        ended_now &= alive
        for c in st["hooks"]:
            hooks_total[c] = hooks_total.get(c, 0) + 1
            if c not in accepted:
                say("hook-for-unaccepted", "disconnect hook ran for connection %s whose handshake was never accepted" % c)
            elif c not in ended_now:
                say("hook-spurious", "disconnect hook ran for connection %s at step %d although it had not ended (or had been cleaned up before)" % (c, i))
        want = []
        for c in ended_now:
            want.extend(sorted(tracked.get(c, ())))
        got = list(st["closes"])
        for r in sorted(set(want) | set(got)):
            w, g = want.count(r), got.count(r)
            if g < w:
                say("resource-not-closed", "step %d: resource %d tracked on an ended connection was closed %d time(s), expected %d" % (i, r, g, w))
            elif g > w:
                say("resource-closed-extra", "step %d: resource %d closed %d time(s), expected %d (tracked by the connections ending now: %s)" % (i, r, g, w, sorted(ended_now)))
        alive -= ended_now
        snaps = {s["c"]: s for s in st["conns"]}
        for c in ended_now:
            s = snaps.get(c)
            if hooks_total.get(c, 0) == 0:
                say("hook-missing", "connection %s ended at step %d (%s) and the disconnect hook did not run" % (c, i, kind))
            if s is not None:
                if s["open"]:
                    say("socket-not-closed", "connection %s ended at step %d but its server-side socket is still open" % (c, i))
                if s["inst"]:
                    say("session-not-dropped", "connection %s ended at step %d but still holds %d session instance(s)" % (c, i, s["inst"]))
                if s["tracked"]:
                    say("tracked-not-cleared", "connection %s ended at step %d but still tracks %s" % (c, i, s["tracked"]))
        if st["slots"] > len(alive):
            say("slot-not-released", "step %d: %d worker/selector slot(s) held for %d live connection(s)%s" % (
                i, st["slots"], len(alive),
                " (%d worker thread(s) listed busy have terminated: a dispatched connection was dropped)" % st["dead_workers"]
                if st.get("dead_workers") else ""))
        elif st["slots"] < len(alive):
            say("slot-lost", "step %d: %d worker/selector slot(s) held for %d live connection(s)" % (i, st["slots"], len(alive)))
        for c in alive:
            s = snaps.get(c)
            if s is None:
                continue
            if not s["open"] or s["tracked"] != sorted(tracked.get(c, ())) or bool(s["inst"]) != bool(touched.get(c)):
                say("open-connection-disturbed", "step %d: connection %s has not ended but its state is open=%s tracked=%s instances=%s (expected open, %s, %s)" % (
                    i, c, s["open"], s["tracked"], s["inst"], sorted(tracked.get(c, ())), int(bool(touched.get(c)))))
    for c in accepted:
        n = hooks_total.get(c, 0)
        if n > 1:
            say("hook-repeated", "disconnect hook ran %d times for connection %s" % (n, c))
    for c, pr in obs["probes"].items():
        if not (len(pr) == 2 and isinstance(pr[0], int) and pr[0] == pr[1] and pr[0] > 0):
            say("open-connection-disturbed", "connection %s is still open but did not answer two calls from one session instance: %r" % (c, pr))
    if not obs.get("loop_alive", True):
        say("daemon-loop-died", "the daemon's request loop is no longer running")
    return bad


# ---------------------------------------------------------------- Gallina printers
def c_target(t, ctor=None):
    o = "None" if ctor is None else "(Some %s)" % cnat(ctor)
    return {"S": "(TSession %s)" % o, "P": "TPlain", "C": "(TPercall %s)" % o}[t]


def c_action(act, r):
    return {"track": "(Track %s)" % cnat(r), "untrack": "(Untrack %s)" % cnat(r), "nop": "Nop", "stream": "Stream"}[act]


def c_event(ev, st):
    k = ev[0]
    if k == "connect":
        return "Connect %s %s" % (cnat(ev[1]), cbool(ev[2]))
    if k == "req":
        return "Req %s %s %s" % (cnat(ev[1]), c_target(ev[2], ev[5] if len(ev) > 5 else None), c_action(ev[3], ev[4]))
    if k == "raise":
        return "Raise %s %s %s" % (cnat(ev[1]), c_target(ev[2], ev[4] if len(ev) > 4 else None), {"plain": "FPlain", "security": "FSecurity", "callback": "FCallback"}[ev[3]])
    if k == "timeout":
        return "Timeout %s %s" % (cnat(ev[1]), cnat(ev[2]))
    if k == "owrun":      # a oneway request is, for cleanup, a request like any other: its tracking belongs to its connection
        return "Req %s TPlain %s" % (cnat(ev[1]), c_action(ev[2], ev[3]))
    how = ev[2]
    if how in ("close", "reset"):
        return "End %s EClose" % cnat(ev[1])
    if how == "cut":
        served = any(e[1] == ev[5] for e in st["execs"])
        return "End %s (EAbrupt %s %s)" % (cnat(ev[1]), cnat(ev[3]),
                                          "(Some (%s, %s))" % (c_target(ev[4], ev[8] if len(ev) > 8 else None), c_action(ev[5], ev[6])) if served else "None")
    if how == "malformed":
        return "End %s EMalformed" % cnat(ev[1])
    if how == "badser":
        return "End %s EOther" % cnat(ev[1])
    raise ValueError(ev)


def c_step(ev, st):
    conns = clist(["{| sn_c := %s; sn_open := %s; sn_tracked := %s; sn_inst := %s |}" % (
        cnat(s["c"]), cbool(s["open"]), clist([cnat(x) for x in s["tracked"]]), cbool(s["inst"] > 0)) for s in st["conns"]])
    acc = "None"
    if ev[0] == "connect":
        acc = "(Some %s)" % cbool(bool(st.get("accepted")))
    reply = {"result": 1, "error": 2}.get(st.get("reply"), 0)
    return ("{| so_hooks := %s; so_closes := %s; so_sockclosed := %s; so_slots := %s; so_conns := %s; so_accepted := %s; so_reply := %s |}" % (
        clist([cnat(x) for x in st["hooks"]]), clist([cnat(x) for x in st["closes"]]), clist([cnat(x) for x in st["sockclosed"]]),
        cnat(max(st["slots"], 0)), conns, acc, cnat(reply)))


def c_case(case, obs):
    I = impl()
    pairs = [(ev, st) for ev, st in zip(case["events"], obs["steps"]) if ev[0] != "owsend"]   # sending a oneway call is not a model event
    evs = clist([c_event(ev, st) for ev, st in pairs])
    steps = clist([c_step(ev, st) for ev, st in pairs])
    hookfail = clist([cnat(int(c)) for c in sorted(case.get("hookfail") or {}, key=int)])
    return "{| k_thread := %s; k_pool := %s; k_hookfail := %s; k_events := %s; k_obs := %s |}" % (
        cbool(case["stype"] == "thread"), cnat(I.POOL), hookfail, evs, steps)


# ---------------------------------------------------------------- generator
ENDINGS = ["close", "reset", "cut", "cut", "malformed", "badser", "security", "callback"]


def gen_case(rng, stype, timeout, reqlen):
    I = impl()
    nmax = rng.choice([1, 2, 2, 3, 3, 4, 5])
    length = rng.randint(3, 7) if (timeout and stype == "thread") else rng.randint(3, 14)
    evs, alive, nextc, ntimeouts = [], [], 0, 0
    idle = 1          # simulated number of idle pool workers (THREADPOOL_SIZE_MIN = 1)
    for _ in range(length):
        r = rng.random()
        if stype == "thread" and not timeout and alive and idle == 0 and len(alive) <= I.POOL and rng.random() < 0.12:
            # worker hand-over: a connection is accepted exactly while the worker of an ending one returns to the pool
            c = rng.choice(alive)
            alive.remove(c)
            evs.append(["end", c, "close", "gated"])
            evs.append(["connect", nextc, True, "gated"])
            alive.append(nextc)
            nextc += 1
            continue
        if not alive or (r < 0.22 and nextc < nmax + 2):
            ok = rng.random() < 0.88
            c = nextc
            nextc += 1
            evs.append(["connect", c, ok])
            if ok and (stype != "thread" or len(alive) < I.POOL):
                alive.append(c)
                idle = max(0, idle - 1)
            continue
        if not timeout and alive and rng.random() < 0.07:
            # a oneway call on c whose thread starts only after the handler thread has served other requests
            c = rng.choice(alive)
            act, r = rng.choice(["track", "track", "untrack"]), rng.randrange(I.NRES)
            evs.append(["owsend", c, act, r])
            for _ in range(rng.choice([0, 1, 1, 2, 3])):
                c2 = rng.choice(alive)
                t2 = rng.choice(["S", "P", "P", "C"])
                evs.append(["req", c2, t2, rng.choice(["track", "untrack", "nop", "nop"]), rng.randrange(I.NRES)] +
                           ([rng.randrange(I.NRES)] if t2 != "P" and rng.random() < 0.4 else []))
            evs.append(["owrun", c, act, r])
            continue
        if stype == "thread" and not timeout and len(alive) < I.POOL and rng.random() < 0.05:
            # flash connection: lives and ends while the accept thread is still inside Pool.process
            c = nextc
            nextc += 1
            evs.append(["connect", c, True, "held"])
            for _ in range(rng.choice([0, 0, 1, 2])):
                evs.append(["req", c, rng.choice(["S", "P"]), rng.choice(["track", "nop"]), rng.randrange(I.NRES)])
            evs.append(["end", c, "close", "held"])
            idle = max(idle, 1) if idle else 1
            continue
        c = rng.choice(alive)
        tgt = rng.choice(["S", "S", "P", "P", "C"])
        # the class's constructor tracks a resource of its own (if it runs for this request)
        ctor = [rng.randrange(I.NRES)] if tgt in ("S", "C") and rng.random() < 0.5 else []
        if r < 0.62:
            act = rng.choice(["track", "track", "track", "untrack", "nop", "stream"])
            evs.append(["req", c, tgt, act, rng.randrange(I.NRES)] + ctor)
        elif r < 0.68:
            evs.append(["raise", c, tgt, "plain"] + ctor)
        elif timeout and r < 0.80 and ntimeouts < 2 and (r >= 0.68 or rng.random() < 0.25):
            ntimeouts += 1
            k = rng.choice([0, 1, 5, 6, 7, 39, 40, 41, reqlen - 1, rng.randrange(1, reqlen)])
            evs.append(["timeout", c, k])
            if stype == "thread":
                alive = []
            elif k > 0:
                alive.remove(c)
            idle = 1
        else:
            how = rng.choice(ENDINGS)
            if how in ("security", "callback"):
                evs.append(["raise", c, tgt, how] + ctor)
            elif how == "cut":
                k = rng.choice([0, 1, 4, 5, 6, 7, 20, 39, 40, 41, reqlen - 1, reqlen, rng.randrange(0, reqlen + 1)])
                act = rng.choice(["track", "track", "untrack", "nop"])
                evs.append(["end", c, "cut", k, tgt, act, rng.randrange(I.NRES), rng.choice(["close", "close", "reset"])] + ctor)
            elif how == "malformed":
                evs.append(["end", c, "malformed", rng.choice(I.MALFORMED)])
            else:
                evs.append(["end", c, how])
            alive.remove(c)
            idle = 1
    if timeout and ntimeouts == 0 and alive:
        evs.append(["timeout", rng.choice(alive), rng.choice([0, 1, 6, 40, reqlen - 1])])
    case = {"stype": stype, "timeout": timeout, "events": evs}
    if rng.random() < 0.35 and nextc:
        # a Daemon subclass whose clientDisconnect hook raises for some connections
        case["hookfail"] = {str(c): rng.choice(I.FAULT_CLASSES) for c in rng.sample(range(nextc), rng.randint(1, min(nextc, 3)))}
    if rng.random() < 0.4:
        case["linger"] = 0       # item streams of a connection are dropped when it ends (default: linger 30 s)
    if rng.random() < 0.45:
        # resources whose close() raises (after being counted): must not keep the others from being closed
        n = rng.choice([1, 1, 2, 3])
        case["faulty"] = {str(r): rng.choice(I.FAULT_CLASSES) for r in rng.sample(range(I.NRES), n)}
    return case


def targeted(ctx, reqlen):
    """abrupt close at EVERY byte offset of a small request, other connections open with their own resources; every
    ending kind with resources tracked, untracked and shared with another connection"""
    out = []
    stride = 1 if not ctx.quick else 1
    for stype in ("thread", "multiplex"):
        for mode in ("close", "reset"):
            for k in range(0, reqlen + 1, stride if mode == "close" else (1 if not ctx.quick else 3)):
                out.append({"stype": stype, "timeout": False, "events": [
                    ["connect", 0, True], ["connect", 1, True], ["req", 0, "S", "track", 0], ["req", 0, "P", "track", 1],
                    ["req", 1, "P", "track", 1], ["req", 1, "S", "track", 2], ["req", 0, "P", "untrack", 0],
                    ["end", 0, "cut", k, "P", "track", 3, mode]]})
        endings = [["end", 0, "close"], ["end", 0, "reset"], ["end", 0, "badser"], ["raise", 0, "S", "security"],
                   ["raise", 0, "P", "callback"]] + [["end", 0, "malformed", v] for v in impl().MALFORMED]
        for e in endings:
            out.append({"stype": stype, "timeout": False, "events": [
                ["connect", 0, True], ["connect", 1, True], ["connect", 2, False], ["req", 0, "S", "track", 0],
                ["req", 0, "P", "track", 1], ["req", 0, "P", "track", 2], ["req", 1, "S", "track", 1], ["raise", 0, "P", "plain"],
                ["req", 0, "S", "untrack", 2], e, ["req", 1, "P", "track", 3], ["connect", 3, True], ["end", 1, "close"]]})
        # pool accounting: fill the pool, a further connection is refused, a slot released by an ending is reusable
        out.append({"stype": stype, "timeout": False, "events": [
            ["connect", 0, True], ["connect", 1, True], ["connect", 2, True], ["connect", 3, True], ["req", 1, "P", "track", 0],
            ["end", 1, "cut", 9, "P", "nop", 0, "close"], ["connect", 4, True], ["req", 4, "S", "track", 1], ["end", 4, "malformed", "magic"]]})
        # a connection ending with all resources tracked; the close() of one of them raises: every position in the
        # (arbitrary) iteration order of the tracked set is hit by making each resource the faulty one in turn
        I = impl()
        for r in range(I.NRES):
            for how in (["end", 0, "close"], ["end", 0, "malformed", "magic"], ["raise", 0, "P", "security"]):
                out.append({"stype": stype, "timeout": False, "faulty": {str(r): I.FAULT_CLASSES[(r * 3 + len(how)) % len(I.FAULT_CLASSES)]},
                            "events": [["connect", 0, True], ["connect", 1, True]] + [["req", 0, "P", "track", x] for x in range(I.NRES)] +
                                      [["req", 1, "S", "track", r], ["req", 0, "S", "untrack", (r + 1) % I.NRES], how, ["req", 1, "P", "nop", 0]]})
        for k in (0, 1, 6, 39, 41, reqlen - 1):
            out.append({"stype": stype, "timeout": True, "events": [
                ["connect", 0, True], ["connect", 1, True], ["req", 0, "S", "track", 0], ["req", 1, "P", "track", 1],
                ["timeout", 0, k]]})
    # constructors that track a resource (session and percall classes), constructed by a request of connection 1 right
    # after the same server thread served connection 0 (multiplex: always; thread pool: worker re-use after 0 ended)
    for stype in ("thread", "multiplex"):
        for tgt in ("S", "C"):
            for tail in ([["end", 1, "close"], ["req", 0, "P", "nop", 0]], [["end", 0, "close"], ["req", 1, tgt, "nop", 0, 5]],
                         [["raise", 1, tgt, "security", 4]], [["end", 1, "cut", 200, tgt, "track", 2, "close", 5]]):
                out.append({"stype": stype, "timeout": False, "events": [
                    ["connect", 0, True], ["connect", 1, True], ["req", 0, "P", "track", 0], ["req", 1, tgt, "nop", 0, 3],
                    ["req", 0, "S", "track", 1, 2], ["req", 1, tgt, "track", 4, 5]] + tail})
            out.append({"stype": stype, "timeout": False, "events": [
                ["connect", 0, True], ["req", 0, "P", "track", 0], ["end", 0, "close"], ["connect", 1, True],
                ["req", 1, tgt, "nop", 0, 3], ["connect", 2, True], ["req", 2, "P", "nop", 0], ["end", 1, "reset"]]})
        # the user's disconnect hook raises for the ending connection (and/or for another one): everything is still released
        for e in (["end", 0, "close"], ["end", 0, "reset"], ["end", 0, "malformed", "version"], ["end", 0, "badser"],
                  ["raise", 0, "S", "security"], ["raise", 0, "P", "callback"], ["end", 0, "cut", 11, "P", "nop", 0, "close"]):
            for hf in ({"0": "ValueError"}, {"0": "OSError", "1": "Custom"}, {"1": "KeyError"}):
                out.append({"stype": stype, "timeout": False, "hookfail": hf, "events": [
                    ["connect", 0, True], ["connect", 1, True], ["req", 0, "S", "track", 0, 4], ["req", 0, "P", "track", 1],
                    ["req", 1, "S", "track", 1], e, ["req", 1, "P", "track", 2], ["end", 1, "close"], ["connect", 2, True],
                    ["req", 2, "S", "nop", 0]]})
        out.append({"stype": stype, "timeout": True, "hookfail": {"0": "RuntimeError", "1": "SecurityError"}, "events": [
            ["connect", 0, True], ["connect", 1, True], ["req", 0, "S", "track", 0], ["req", 1, "P", "track", 1], ["timeout", 0, 7]]})
        # item streams left unexhausted on other connections (and lingering streams of ended ones) while a connection ends
        for linger in (0, 30):
            for e in (["end", 1, "close"], ["end", 1, "malformed", "magic"], ["raise", 1, "P", "security"], ["end", 1, "cut", 7, "P", "nop", 0, "reset"]):
                out.append({"stype": stype, "timeout": False, "linger": linger, "events": [
                    ["connect", 0, True], ["connect", 1, True], ["req", 0, "P", "stream", 0], ["req", 1, "P", "track", 1],
                    ["req", 1, "S", "stream", 0], e, ["req", 0, "P", "stream", 0], ["end", 0, "close"]]})
            out.append({"stype": stype, "timeout": False, "linger": linger, "events": [
                ["connect", 0, True], ["req", 0, "S", "stream", 0], ["req", 0, "P", "track", 2], ["end", 0, "close"],
                ["connect", 1, True], ["req", 1, "P", "track", 3], ["end", 1, "close"], ["connect", 2, True], ["req", 2, "P", "stream", 0],
                ["connect", 3, True], ["end", 3, "reset"], ["end", 2, "badser"]]})
    # oneway calls that track / untrack, executed after the handler thread served another connection (multiplex) or a
    # later request of the same connection (thread server); then either connection ends
    for stype in ("thread", "multiplex"):
        for act in ("track", "untrack"):
            for mid in ([["req", 1, "P", "nop", 0]], [["req", 1, "S", "track", 4], ["req", 0, "P", "nop", 0], ["req", 1, "P", "nop", 0]],
                        [["req", 0, "P", "track", 5]], []):
                for tail in ([["end", 0, "close"], ["req", 1, "P", "nop", 0]], [["end", 1, "close"], ["req", 0, "P", "nop", 0], ["end", 0, "reset"]]):
                    out.append({"stype": stype, "timeout": False, "events": [
                        ["connect", 0, True], ["connect", 1, True], ["req", 0, "P", "track", 3], ["req", 1, "P", "track", 3],
                        ["req", 1, "P", "track", 2], ["owsend", 0, act, 3 if act == "untrack" else 1]] + mid +
                        [["owrun", 0, act, 3 if act == "untrack" else 1]] + tail})
    # flash connection (thread server): accepted, served and ended while the accept thread is still inside Pool.process
    for pre in ([], [["connect", 7, True]], [["connect", 7, True], ["connect", 8, True]]):
        for mid in ([], [["req", 0, "S", "track", 1], ["req", 0, "P", "track", 2]]):
            out.append({"stype": "thread", "timeout": False, "events": pre + [["connect", 0, True, "held"]] + mid +
                        [["end", 0, "close", "held"], ["connect", 1, True], ["connect", 2, True], ["req", 2, "P", "track", 0]] +
                        ([["connect", 3, True]] if len(pre) < 2 else []) + [["end", 1, "close"]]})
    # worker hand-over (thread server): the only worker returns to the pool exactly while the next connection is accepted
    for pre in ([], [["connect", 7, True]], [["connect", 7, True], ["connect", 8, True]]):
        for tail in ([["end", 1, "close"]], [["raise", 1, "S", "security"]],
                     [["end", 1, "close", "gated"], ["connect", 2, True, "gated"], ["req", 2, "S", "track", 3]]):
            out.append({"stype": "thread", "timeout": False, "events": pre + [
                ["connect", 0, True], ["req", 0, "S", "track", 0], ["req", 0, "P", "track", 1],
                ["end", 0, "close", "gated"], ["connect", 1, True, "gated"], ["req", 1, "S", "track", 2], ["req", 1, "P", "track", 1]] + tail})
    return out


def gen_cases(ctx, reqlen):
    rng = ctx.rng
    cases = []
    n_plain = ctx.n(1300, 12000)
    n_to = ctx.n(160, 900)
    for i in range(n_plain):
        cases.append(gen_case(rng, "thread" if i % 2 == 0 else "multiplex", False, reqlen))
    for i in range(n_to):
        cases.append(gen_case(rng, "thread" if i % 2 == 0 else "multiplex", True, reqlen))
    return cases


# ---------------------------------------------------------------- execution
def run_impl(ctx, cases, stop_after=6):
    """plays all cases on real daemons, one worker process per chunk of one configuration; returns obs list (same order)"""
    groups = {}
    for idx, c in enumerate(cases):
        groups.setdefault((c["stype"], bool(c["timeout"])), []).append(idx)
    chunks = []
    for (stype, to), idxs in sorted(groups.items()):
        per = 25 if to else 150
        for k in range(0, len(idxs), per):
            chunks.append((stype, to, idxs[k:k + per]))
    # timeout chunks are the slow ones: start them first
    chunks.sort(key=lambda ch: (not ch[1], ch[0]))
    obs = [None] * len(cases)
    mp = multiprocessing.get_context("fork")
    I = impl()
    with concurrent.futures.ProcessPoolExecutor(max_workers=NPROC, mp_context=mp) as ex:
        futs = {ex.submit(I.run_chunk, (ctx.tree, stype, to, [cases[i] for i in idxs], stop_after)): idxs
                for stype, to, idxs in chunks}
        for f in concurrent.futures.as_completed(futs):
            idxs = futs[f]
            try:
                out = f.result()
            except Exception as x:
                out = [{"error": "worker failed: %s: %s" % (type(x).__name__, x), "valid": False}]
            for i, o in zip(idxs, out):
                obs[i] = o
    return obs


def nontrivial(case, o):
    return len(o.get("accepted", ())) > 0 and any(st["hooks"] for st in o["steps"])


def execute(ctx, cases, model_ok, res, stop_after=6):
    observations = run_impl(ctx, cases, stop_after)
    lits, kept = [], []
    skipped = invalid = 0
    for case, o in zip(cases, observations):
        if o is None:
            skipped += 1          # the worker stopped early (a streak of failing cases): not evaluated
            continue
        res.seen(case, "error" not in o and nontrivial(case, o))
        res.count("server:%s%s" % (case["stype"], "+timeout" if case["timeout"] else ""))
        if case.get("faulty"):
            res.count("faulty_close_resources:%d" % len(case["faulty"]))
        res.count("stream_linger:%s" % case.get("linger", 30))
        if case.get("hookfail"):
            res.count("hook_raises_for_connections:%d" % len(case["hookfail"]))
        for ev in case["events"]:
            if ev[0] == "connect" and len(ev) > 3:
                res.count("event:worker-handover" if ev[3] == "gated" else "event:flash-connection")
            if ev[0] == "owrun":
                res.count("event:oneway:" + ev[2])
            if ev[0] == "req" and ev[3] == "stream":
                res.count("event:req:stream")
            if (ev[0] == "req" and len(ev) > 5) or (ev[0] == "raise" and len(ev) > 4) or (ev[0] == "end" and len(ev) > 8):
                res.count("event:constructor-tracks:" + ev[2 if ev[0] != "end" else 4])
            res.count("event:" + ev[0] + (":" + str(ev[2]) if ev[0] == "end" else (":" + ev[3] if ev[0] == "raise" else "")))
        for sig, what in oracle(case, o):
            res.violations.append({"signature": sig, "what": what, "case": case})
        if o.get("stalled"):
            res.count("harness:stalled_run")
            for lbl in o.get("stall_where", [])[:3]:
                res.count("harness:stall:" + lbl.split("@")[0])
        if o.get("error"):
            continue
        if not o["valid"]:
            invalid += 1          # timing guard tripped three times: not comparable with the model
            continue
        lits.append(c_case(case, o))
        kept.append((case, o))
    res.extra["timing_invalid_runs"] = invalid
    if invalid > max(5, len(cases) // 20):
        res.mismatches.append({"component": "C13-harness", "case": None,
                               "impl": "%d of %d runs were unusable (client-side timeouts): the daemon does not answer" % (invalid, len(cases))})
    res.extra["not_evaluated_after_failure_streak"] = skipped
    if model_ok and lits:
        for idx in vlib.run_cases(ctx, "c", IMPORTS, "case", "check_case", lits, shard=120):
            case, o = kept[idx]
            res.mismatches.append({"component": "C13", "case": case, "impl": {"steps": o["steps"]}})
    return res


def reqlen_now():
    return len(impl().request_bytes("P", "track", 3, 1))


def run(ctx, model_ok=True):
    res = vlib.Result()
    reqlen = reqlen_now()
    cases = vlib.load_corpus(PROP) + targeted(ctx, reqlen) + gen_cases(ctx, reqlen)
    execute(ctx, cases, model_ok, res)
    res.rule = ("seeded random event scripts over up to 7 connections on a real daemon (thread pool of %d / multiplex; with and without "
                "COMMTIMEOUT): handshakes (accepted / refused / pool full), requests tracking and untracking %d shared resources through "
                "a session-mode class or a plain object, methods raising (plain, SecurityError, @callback), every ending kind (orderly "
                "close, reset, cut at byte k then close/reset, four header-level malformations, unknown serializer, timeout after k "
                "bytes); targeted: cut at EVERY byte offset 0..%d of a request in both servers. non-trivial = at least one accepted "
                "connection ended inside the script; distinct = distinct case hash" % (impl().POOL, impl().NRES, reqlen))
    res.samples = cases[-2:] + cases[:1]
    return res


def search(ctx, broken):
    res = vlib.Result()
    reqlen = reqlen_now()
    cases = [b["case"] for b in broken if b.get("case")] + targeted(ctx, reqlen) + gen_cases(ctx, reqlen)[:4000]
    observations = run_impl(ctx, cases, stop_after=3)
    for case, o in zip(cases, observations):
        if o is None:
            continue
        res.seen(case)
        for sig, what in oracle(case, o):
            res.violations.append({"signature": sig, "what": what, "case": case})
    return res


def replay(ctx, case):
    I = impl()
    o = None
    for attempt in range(3):
        w = I.World(case["stype"], bool(case["timeout"]))
        try:
            o = I.run_case(w, case)
        finally:
            w.stop()
        if o["valid"]:
            break
    bad = oracle(case, o)
    short = {"steps": o["steps"], "teardown": o["teardown"], "probes": o["probes"]}
    if bad:
        return True, {"oracle": bad, "impl": short}
    if not o["valid"]:
        return False, {"note": "timing guard tripped; run not comparable", "impl": short}
    bad_idx = vlib.run_cases(ctx, "r", IMPORTS, "case", "check_case", [c_case(case, o)])
    if bad_idx:
        model = vlib.eval_model(ctx, IMPORTS, "let k := %s in (model_diff k, model_case k)" % c_case(case, o))
        return True, {"mismatch": True, "impl": short, "model": model[-2500:]}
    return False, {"impl": short}
