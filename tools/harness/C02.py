"""C02 — only explicitly exposed, non-private members are remotely reachable.

Implementation side: tools/lib/c02impl.py synthesises a class from a generated shape, registers an
instance with a real Daemon and feeds raw INVOKE messages (built with the real SendingMessage) to
the real Daemon.handleRequest through a fake connection — all five request kinds, so the
server-side gate is reached with hostile names.  Model side: Model/Expose.v run inside Coq with the
privacy predicate generated from server.py (Gen/GenServer.v).  Oracle: the property stated over
the side-effect log, the reply kind and get_metadata, using a *pinned* notion of "private"."""
import json, threading
from tools.lib import vlib, c02impl
from tools.lib.vlib import cN, cnat, cbool, clist, ctext

PROP = "C02"
GEN = ["GenServer"]
ASSUMPTIONS = [
    "Python attribute resolution (instance dict / class MRO / data descriptors first) is as modelled by inst_lookup/class_lookup",
    "member bodies are arbitrary code: modelled as an opaque effect (member, accessor); helper objects stored in attributes are not callable",
    "classes that define attribute hooks (__getattr__ ...) have those hooks run by the interpreter on failed lookups; only invocation *as the requested member* counts as reaching the member",
    "the serializer delivers the member name unchanged (non-strings stay non-strings)",
]
IMPORTS = "From V Require Import Model.StrFun Model.Expose Gen.GenServer Harness.Cmp Harness.H02."

# the reserved dunder names of the pinned tree (same list as Model/Expose.v reserved_baseline)
BASELINE = [
    "__init__", "__init_subclass__", "__class__", "__module__", "__weakref__", "__call__", "__new__", "__del__",
    "__repr__", "__str__", "__format__", "__nonzero__", "__bool__", "__coerce__", "__cmp__", "__eq__", "__ne__",
    "__hash__", "__ge__", "__gt__", "__le__", "__lt__", "__dir__", "__enter__", "__exit__", "__copy__",
    "__deepcopy__", "__sizeof__", "__getattr__", "__setattr__", "__hasattr__", "__getattribute__", "__delattr__",
    "__instancecheck__", "__subclasscheck__", "__getinitargs__", "__getnewargs__", "__getstate__", "__setstate__",
    "__reduce__", "__reduce_ex__", "__subclasshook__"]
BASESET = frozenset(BASELINE)
# reserved names that can be given to a generated method without breaking the interpreter's own use of them
SAFE_HOOKS = [n for n in BASELINE if n not in ("__new__", "__class__", "__module__", "__weakref__", "__init_subclass__",
                                                "__subclasshook__", "__del__", "__getattribute__")]
PUBLIC_DUNDERS = ["__len__", "__dunder__", "__p__", "__value__"]
STEMS = ["alpha", "beta", "gamma", "run", "value", "méthode", "x", "get"]
METHOD_KINDS = c02impl.METHOD_KINDS
SIG_GETTER = "unexposed-getter-ran-on-call"
SIG_PRIVPROP = "private-property-served"


def is_dunder(n):
    return len(n) > 4 and n.startswith("__") and n.endswith("__")


def oracle_private(n):
    """the property's notion of a private name, pinned (never read from the tree under test)"""
    return n in BASESET or (n.startswith("_") and not is_dunder(n))


# ---------------------------------------------------------------- python statement of "what a name denotes"
def class_member(m):
    return m["kind"] not in ("iattr", "helper")


def class_lookup(shape, n):
    for c in ("sub", "base"):
        for i, m in enumerate(shape["members"]):
            if class_member(m) and m["in"] == c and m["name"] == n:
                return i
    return None


def inst_attr(shape, n):
    for i, m in enumerate(shape["members"]):
        if not class_member(m) and m["name"] == n:
            return i
    return None


def inst_lookup(shape, n):
    c = class_lookup(shape, n)
    if c is not None and shape["members"][c]["kind"] == "prop":
        return c
    a = inst_attr(shape, n)
    return a if a is not None else c


def explicitly_exposed(shape, m):
    if m["kind"] not in METHOD_KINDS and m["kind"] != "prop":
        return False
    own = m["mark"] and not oracle_private(m.get("fname") or m["name"])     # @expose refuses private functions
    byclass = shape[m["in"] + "_exposed"] and not oracle_private(m["name"])
    return bool(own or byclass)


def servable(shape, kind, n):
    """index of the member this request may reach and the accessor, or None"""
    if not isinstance(n, str) or oracle_private(n):
        return None
    if kind in ("call", "batch"):
        i = inst_lookup(shape, n)
        if i is None:
            return None
        m = shape["members"][i]
        if m["kind"] in METHOD_KINDS and explicitly_exposed(shape, m):
            return (i, "call")
        return None
    i = class_lookup(shape, n)
    if i is None:
        return None
    m = shape["members"][i]
    if m["kind"] == "prop" and explicitly_exposed(shape, m):
        if kind == "getattr" and m["get"]:
            return (i, "get")
        if kind == "setattr" and m["set"]:
            return (i, "set")
    return None


# ---------------------------------------------------------------- oracle
def oracle(case, obs):
    """[(signature, what, reduced case)] — the property stated over the implementation's observations"""
    shape = case["shape"]
    mem = shape["members"]
    bad = []

    def sub(reqs):
        return {"kind": "shape", "shape": shape, "ser": case.get("ser", "serpent"), "reqs": reqs}

    per_name = {}
    for r, o in zip(case["reqs"], obs["reqs"]):
        if o["wire"] != "ok":
            continue
        names = r["names"]
        kind = r["kind"]
        # expected behaviour, by the property
        exp_log, exp_ok = [], True
        if kind == "batch":
            for n in names:
                sv = servable(shape, kind, n)
                if sv is None:
                    exp_ok = False
                    break
                exp_log.append([sv[0], sv[1]])
        else:
            sv = servable(shape, kind, names[0])
            if sv is None:
                exp_ok = False
            else:
                exp_log.append([sv[0], sv[1]])
        log = o["log"]
        # (1) code that ran must be an exposed, non-private member denoted by a requested name
        budget = [list(e) for e in exp_log]
        for e in log:
            if e in budget:
                budget.remove(e)
                continue
            mid, acc = e
            m = mem[mid]
            if acc == "helper":
                bad.append(("nested-helper-reached", "a method of the nested helper object %r ran for request %r" % (m["name"], names), sub([r])))
            elif acc == "get" and kind in ("call", "batch") and m["kind"] == "prop" and m["name"] in names:
                if explicitly_exposed(shape, m) and not oracle_private(m["name"]):
                    continue      # getter of an exposed public property: allowed to run (the request is then refused)
                bad.append((SIG_GETTER, "a %s request for %r ran the getter of the unexposed property before refusing" % (kind, m["name"]), sub([r])))
            elif m["name"] in names and oracle_private(m["name"]) and m["kind"] == "prop" and kind in ("getattr", "setattr"):
                bad.append((SIG_PRIVPROP, "a %s request reached the property bound to the private name %r" % (kind, m["name"]), sub([r])))
            elif m["name"] in names and oracle_private(m["name"]):
                bad.append(("private-member-ran", "request %s %r ran the private member %r" % (kind, names, m["name"]), sub([r])))
            elif m["name"] in names and not explicitly_exposed(shape, m):
                bad.append(("unexposed-member-ran", "request %s %r ran the unexposed member %r (%s)" % (kind, names, m["name"], m["kind"]), sub([r])))
            elif m["name"] in names and e in exp_log:
                bad.append(("member-ran-twice", "request %s %r ran member %r more than once" % (kind, names, m["name"]), sub([r])))
            else:
                bad.append(("wrong-member-ran", "request %s %r ran member %r via %s" % (kind, names, m["name"], acc), sub([r])))
        known_here = any(b[2]["reqs"] == [r] and b[0] == SIG_PRIVPROP for b in bad)
        # (2) reply discipline
        if known_here:
            pass      # the reply of a request that already reached a private property is part of that finding
        elif o["raised"]:
            bad.append(("handler-raised", "handleRequest raised %s for request %s %r" % (o["raised"], kind, names), sub([r])))
        if known_here:
            pass
        elif r["oneway"]:
            if o["reply"] != "none":
                bad.append(("oneway-got-reply", "a oneway %s request for %r was answered" % (kind, names), sub([r])))
        else:
            if o["reply"] == "none" and not o["raised"]:
                bad.append(("no-reply", "request %s %r got no reply" % (kind, names), sub([r])))
            elif not exp_ok and o["reply"] == "result":
                bad.append(("refusable-request-answered", "request %s %r must be refused but got a normal result" % (kind, names), sub([r])))
            elif exp_ok and o["reply"] == "error":
                bad.append(("exposed-member-refused", "request %s %r names only exposed public members but was refused (%s)" % (kind, names, o["exc"]), sub([r])))
        if exp_ok and budget and not (o["reply"] == "error" and not r["oneway"]):
            bad.append(("exposed-member-not-run", "request %s %r: exposed member did not run" % (kind, names), sub([r])))
        # (3) nothing else happens to the object
        if o["state_changed"]:
            bad.append(("object-state-changed", "request %s %r changed the attributes of the object or its classes" % (kind, names), sub([r])))
        if o.get("extra_reply_bytes"):
            bad.append(("more-than-one-reply", "request %s %r produced more than one reply" % (kind, names), sub([r])))
        if kind != "batch" and isinstance(names[0], str):
            ran = any(mem[e[0]]["name"] == names[0] and e[1] == {"call": "call", "getattr": "get", "setattr": "set"}[kind] for e in log) \
                and o["reply"] in ("result", "none")
            per_name.setdefault(names[0], {}).setdefault(kind, []).append((ran, r))
    # (4) advertised == served
    md = obs["meta"]
    for n, kinds in per_name.items():
        if oracle_private(n):
            if n in md["methods"] or n in md["attrs"] or n in md["oneway"]:
                bad.append(("private-name-advertised", "get_metadata lists the private name %r" % n,
                            sub([x[1] for kk in kinds.values() for x in kk][:2])))
            continue
        shadowed = inst_attr(shape, n) is not None and class_lookup(shape, n) is not None
        if "call" in kinds and not shadowed:
            served = any(x[0] for x in kinds["call"])
            allserved = all(x[0] for x in kinds["call"])
            if (n in md["methods"]) != served or served != allserved:
                bad.append(("metadata-methods-mismatch", "method %r: advertised=%s served=%s" % (n, n in md["methods"], served),
                            sub([x[1] for x in kinds["call"]])))
        if "getattr" in kinds and "setattr" in kinds:
            served = any(x[0] for x in kinds["getattr"]) or any(x[0] for x in kinds["setattr"])
            m_i = class_lookup(shape, n)
            delonly = m_i is not None and mem[m_i]["kind"] == "prop" and not mem[m_i]["get"] and not mem[m_i]["set"]
            if (n in md["attrs"]) != served and not delonly:
                bad.append(("metadata-attrs-mismatch", "attribute %r: advertised=%s served=%s" % (n, n in md["attrs"], served),
                            sub([x[1] for x in kinds["getattr"] + kinds["setattr"]])))
    for n in md["oneway"]:
        if n not in md["methods"]:
            bad.append(("oneway-not-a-method", "get_metadata lists %r as oneway but not as a method" % n, sub([])))
    return bad


# ---------------------------------------------------------------- Gallina literals
KIND = {"method": "KMethod", "static": "KStatic", "classm": "KClassM", "cattr": "KClassAttr", "iattr": "KInstAttr"}


def c_member(i, m):
    k = m["kind"]
    if k == "prop":
        kk = "(KProp %s %s)" % (cbool(m["get"]), cbool(m["set"]))
    elif k == "helper":
        kk = "(KHelper %s)" % cbool(m.get("hexp", False))
    else:
        kk = KIND[k]
    return "{| m_id := %s; m_name := %s; m_kind := %s; m_in := %s; m_mark := %s; m_fname := %s; m_oneway := %s |}" % (
        cnat(i), ctext(m["name"]), kk, "Base" if m["in"] == "base" else "Sub", cbool(m["mark"]),
        ctext(m.get("fname") or m["name"]), cbool(m.get("oneway", False)))


def c_shape(shape):
    return "{| s_base_exposed := %s; s_sub_exposed := %s; s_members := %s |}" % (
        cbool(shape["base_exposed"]), cbool(shape["sub_exposed"]), clist([c_member(i, m) for i, m in enumerate(shape["members"])]))


def c_name(n):
    return "NStr %s" % ctext(n) if isinstance(n, str) else "NOther"


RK = {"call": "RCall", "batch": "RBatch", "getattr": "RGet", "setattr": "RSet"}
ACC = {"call": "ACall", "get": "AGet", "set": "ASet"}
REP = {"result": "RepResult", "error": "RepError", "none": "RepNone"}


def c_req(r, o):
    return "({| r_kind := %s; r_oneway := %s; r_names := %s |}, {| o_reply := %s; o_log := %s |})" % (
        RK[r["kind"]], cbool(r["oneway"]), clist([c_name(n) for n in r["names"]]), REP[o["reply"]],
        clist(["(%s, %s)" % (cnat(e[0]), ACC[e[1]]) for e in o["log"]]))


def c_quirks(q):
    return "{| q_call_runs_getter := %s; q_attr_private_unchecked := %s |}" % (cbool(q[0]), cbool(q[1]))


def c_case(case, obs, q):
    if case["kind"] == "private":
        return "PC %s %s" % (ctext(case["name"]), cbool(obs["private"]))
    pairs = [(r, o) for r, o in zip(case["reqs"], obs["reqs"]) if o["wire"] == "ok"]
    md = obs["meta"]
    return "SC {| c_quirks := %s; c_shape := %s; c_methods := %s; c_oneway := %s; c_attrs := %s; c_refused := %s; c_reqs := %s |}" % (
        c_quirks(q), c_shape(case["shape"]), clist([ctext(x) for x in md["methods"]]), clist([ctext(x) for x in md["oneway"]]),
        clist([ctext(x) for x in md["attrs"]]), clist([cnat(i) for i in obs["refused_marks"]]), clist([c_req(r, o) for r, o in pairs]))


def representable(o):
    """outcomes outside the model's vocabulary (reported as a mismatch, never silently dropped)"""
    return o["reply"] in REP and all(e[1] in ACC for e in o["log"])


# ---------------------------------------------------------------- generator
def variants(n):
    return ["_" + n, "__" + n, "__" + n + "__", n + "_", n.upper(), "＿" + n, chr(ord(n[0]) + 0xfee0) + n[1:] if n[0].isascii() and n[0].isalpha() else n + "́"]


def gen_shape(rng):
    members = []
    used = {"base": set(), "sub": set(), "inst": set()}
    n = rng.choice([1, 2, 3, 4, 5, 6, 7, 9])
    stems = rng.sample(STEMS, rng.choice([2, 3, 4]))
    for _ in range(n):
        stem = rng.choice(stems)
        r = rng.random()
        if r < 0.62:
            name = stem
        elif r < 0.74:
            name = "_" + stem
        elif r < 0.80:
            name = "__" + stem
        elif r < 0.86:
            name = rng.choice(PUBLIC_DUNDERS)
        elif r < 0.93:
            name = rng.choice(SAFE_HOOKS)
        else:
            name = "__" + stem + "__"
        kind = rng.choice(["method"] * 5 + ["prop"] * 4 + ["static", "classm", "cattr", "iattr", "iattr", "helper"])
        if is_dunder(name) and kind != "method":      # a number called __init__ / __eq__ breaks the interpreter, not Pyro
            kind = "method"
        if kind in ("iattr", "helper") and (name.startswith("__") or name in BASESET):
            name = stem
        where = rng.choice(["base", "sub", "sub"])
        slot = "inst" if kind in ("iattr", "helper") else where
        if name in used[slot]:
            continue
        used[slot].add(name)
        m = {"name": name, "kind": kind, "in": where, "mark": False, "fname": name, "oneway": False, "get": True, "set": True, "hexp": False}
        if kind in METHOD_KINDS or kind == "prop":
            m["mark"] = rng.random() < 0.4
            if rng.random() < 0.25 and not is_dunder(name):
                # the function's own __name__ differs from the name it is bound to
                m["fname"] = rng.choice([stem + "_impl", "_" + stem, "visible", "__" + stem, name.lstrip("_") or "f"])
                m["mark"] = rng.random() < 0.75
        if kind in METHOD_KINDS:
            m["oneway"] = rng.random() < 0.2
        if kind == "prop":
            m["get"], m["set"] = rng.choice([(True, True), (True, True), (True, False), (True, False), (False, True), (False, False)])
        if kind == "helper":
            m["hexp"] = rng.random() < 0.5
        members.append(m)
    return {"base_exposed": rng.random() < 0.4, "sub_exposed": rng.random() < 0.4, "members": members}


def gen_requests(rng, shape, ser, reserved, volume):
    names = []
    mnames = [m["name"] for m in shape["members"]]
    for n in mnames:
        names.append(n)
    for n in rng.sample(mnames, min(len(mnames), 3)) if mnames else []:
        stem = n.strip("_") or "x"
        names.extend(rng.sample(variants(stem), 3))
    for m in shape["members"]:
        if m["kind"] == "helper":
            names.extend([m["name"] + ".hm", m["name"] + ".value"])
    names.extend(rng.sample(["a.b", "", "nonexistent", "hm", "_pyroId", "_pyroDaemon", "__dict__", "__doc__", "__slots__",
                             "__iter__", "__len__", "_", "__", "____", "_____"] + mnames, 4))
    names.extend(["__class__", "__init__"])
    names.extend(rng.sample(reserved, min(len(reserved), 5)))
    tags = [t for t in c02impl.NONSTRING]
    names.extend({"ns": t} for t in rng.sample(tags, 2))
    seen, uniq = set(), []
    for n in names:
        k = json.dumps(n, sort_keys=True)
        if k not in seen:
            seen.add(k)
            uniq.append(n)
    rng.shuffle(uniq)
    uniq = uniq[:volume]
    reqs = []
    for n in uniq:
        for kind in ("call", "batch", "getattr", "setattr"):
            reqs.append({"kind": kind, "oneway": rng.random() < 0.3, "names": [n]})
    strs = [n for n in uniq if isinstance(n, str)]
    good = [n for n in strs if servable(shape, "batch", n)]
    for _ in range(4):
        k = rng.choice([0, 2, 3, 4])
        pool = good * 3 + strs if good else strs
        reqs.append({"kind": "batch", "oneway": rng.random() < 0.25, "names": [rng.choice(pool) for _ in range(k)] if pool else []})
    return reqs


def witness_cases():
    """the two recorded findings, as cases (also used as quirk probes)"""
    M = lambda name, kind, **k: dict({"name": name, "kind": kind, "in": "sub", "mark": False, "fname": name, "oneway": False,
                                      "get": True, "set": True, "hexp": False}, **k)
    w1 = {"kind": "shape", "ser": "serpent", "shape": {"base_exposed": False, "sub_exposed": False, "members": [
        M("ping", "method", mark=True), M("secret", "prop")]},
        "reqs": [{"kind": "call", "oneway": False, "names": ["secret"]}]}
    w2 = {"kind": "shape", "ser": "serpent", "shape": {"base_exposed": False, "sub_exposed": False, "members": [
        M("_hidden", "prop", mark=True, fname="visible")]},
        "reqs": [{"kind": "getattr", "oneway": False, "names": ["_hidden"]}]}
    return w1, w2


def targeted(reserved):
    """fixed cases: class-level exposure of a class that defines reserved names, every reserved name requested
    in every kind; private names bound to marked functions; inheritance; shadowing"""
    M = lambda name, kind, **k: dict({"name": name, "kind": kind, "in": "sub", "mark": False, "fname": name, "oneway": False,
                                      "get": True, "set": True, "hexp": False}, **k)
    out = list(witness_cases())
    allkinds = lambda names, ow=False: [{"kind": k, "oneway": ow, "names": [n]} for n in names for k in ("call", "batch", "getattr", "setattr")]
    hooks = [M(n, "method", **{"in": "base" if i % 2 else "sub"}) for i, n in enumerate(SAFE_HOOKS)]
    names = sorted(set(reserved) | BASESET)
    out.append({"kind": "shape", "ser": "serpent", "shape": {"base_exposed": True, "sub_exposed": True,
                "members": hooks + [M("ok", "method"), M("__len__", "method")]}, "reqs": allkinds(names + ["ok", "__len__"])})
    out.append({"kind": "shape", "ser": "serpent", "shape": {"base_exposed": True, "sub_exposed": True,
                "members": [M("ok", "method"), M("p", "prop")]}, "reqs": allkinds(names, True) + allkinds(["ok", "p"])})
    priv = [M("_m", "method", mark=True, fname="m"), M("__m", "method", mark=True, fname="m"), M("_s", "static", mark=True, fname="s"),
            M("_c", "classm", mark=True, fname="c"), M("_p", "prop", mark=True, fname="p"), M("__q", "prop", mark=True, fname="q", get=False),
            M("_n", "method"), M("pub", "method", mark=True, fname="_pub"), M("pp", "prop", mark=True, fname="_pp")]
    out.append({"kind": "shape", "ser": "serpent", "shape": {"base_exposed": False, "sub_exposed": True, "members": priv},
                "reqs": allkinds([m["name"] for m in priv]) + allkinds(["_m", "_p", "pub"], True)})
    inh = [M("f", "method", **{"in": "base"}), M("g", "method", **{"in": "base"}), M("g", "method"), M("h", "method", mark=True, **{"in": "base"}),
           M("h", "method"), M("p", "prop", **{"in": "base"}), M("q", "prop", mark=True, **{"in": "base"}), M("q", "prop"),
           M("f", "iattr"), M("p", "iattr"), M("hp", "helper", hexp=True), M("hn", "helper"), M("c", "cattr", **{"in": "base"})]
    for be, se in ((True, False), (False, True), (False, False), (True, True)):
        out.append({"kind": "shape", "ser": "serpent", "shape": {"base_exposed": be, "sub_exposed": se, "members": inh},
                    "reqs": allkinds(["f", "g", "h", "p", "q", "hp", "hn", "hp.hm", "hn.hm", "c", "c.real", "hp.value"]) +
                    [{"kind": "batch", "oneway": False, "names": ["f", "h", "g", "f"]}, {"kind": "batch", "oneway": True, "names": ["f", "q", "f"]},
                     {"kind": "batch", "oneway": False, "names": []}, {"kind": "batch", "oneway": False, "names": ["f", "f", "hp", "f"]}]})
    return out


def private_names(rng, reserved, n):
    out = list(reserved) + list(BASELINE) + ["", "_", "__", "___", "____", "_____", "______", "_p", "_pp", "_p_", "_p__", "__p", "___p",
                                              "__dunder__", "__p__", "__a", "a__", "a", "abc", "_é", "＿x", "__é__", "x__x__"]
    alphabet = "_a_b_éx"
    while len(out) < n:
        out.append("".join(rng.choice(alphabet) for _ in range(rng.choice([1, 2, 3, 4, 5, 5, 6, 8]))))
    for r in list(reserved)[:]:
        out.extend([r[:-1], r[1:], r + "_", r.upper()])
    return [{"kind": "private", "name": x} for x in out]


def gen_cases(ctx, reserved):
    rng = ctx.rng
    cases = []
    sers = ["serpent", "serpent", "serpent", "json", "marshal", "msgpack"]
    for _ in range(ctx.n(140, 1000)):
        shape = gen_shape(rng)
        ser = rng.choice(sers)
        cases.append({"kind": "shape", "shape": shape, "ser": ser, "reqs": gen_requests(rng, shape, ser, reserved, rng.choice([10, 16, 24]))})
    return cases


# ---------------------------------------------------------------- running
class quiet_threads:
    def __enter__(self):
        self.old = threading.excepthook
        threading.excepthook = lambda a: None

    def __exit__(self, *a):
        threading.excepthook = self.old


def run_impl(rig, case):
    if case["kind"] == "private":
        try:
            return {"private": bool(rig.srv.is_private_attribute(case["name"]))}
        except Exception as x:
            return {"private": None, "error": type(x).__name__}
    ser = case.get("ser", "serpent")
    if ser not in rig.serializers.serializers:
        ser = "serpent"
    return rig.run_shape(case["shape"], case["reqs"], ser)


def probe_quirks(rig):
    w1, w2 = witness_cases()
    o1, o2 = run_impl(rig, w1), run_impl(rig, w2)
    return (bool(o1["reqs"][0]["log"]), bool(o2["reqs"][0]["log"]))


def reserved_of(ctx):
    from tools.gen import gen
    st = gen.regenerate(ctx.tree, only=["GenServer"])["GenServer"]
    return list(st["info"]["reserved"]) if st["ok"] else list(BASELINE)


def execute(ctx, rig, cases, model_ok, res, q, localise=True):
    lits, kept = [], []
    for case in cases:
        obs = run_impl(rig, case)
        if case["kind"] == "private":
            res.seen(case, True)
            res.count("is_private:%s" % obs["private"])
            n = case["name"]
            if obs["private"] is None:
                res.mismatches.append({"component": "C02:is_private", "case": case, "impl": obs})
                continue
            if oracle_private(n) and not obs["private"]:
                res.violations.append({"signature": "private-name-not-private", "what": "is_private_attribute(%r) is False" % n, "case": case})
        else:
            for r, o in zip(case["reqs"], obs["reqs"]):
                res.seen({"s": case["shape"], "r": r, "ser": case.get("ser")}, bool(o["log"]) or o["reply"] == "result")
                res.count("%s%s:%s" % (r["kind"], "/oneway" if r["oneway"] else "", o["reply"] if o["wire"] == "ok" else "unserialisable"))
                if o["log"]:
                    res.count("ran:" + ",".join(sorted(set(e[1] for e in o["log"]))))
            res.count("members_%d" % min(len(case["shape"]["members"]), 9))
            for sig, what, sub in oracle(case, obs):
                res.violations.append({"signature": sig, "what": what, "case": sub})
            badreqs = [(r, o) for r, o in zip(case["reqs"], obs["reqs"]) if o["wire"] == "ok" and not representable(o)]
            if badreqs:
                res.mismatches.append({"component": "C02:outcome-vocabulary", "case": dict(case, reqs=[badreqs[0][0]]), "impl": badreqs[0][1]})
                continue
        lits.append(c_case(case, obs, q))
        kept.append((case, obs))
    if model_ok and lits:
        bad = vlib.run_cases(ctx, "c", IMPORTS, "case", "check_case", lits, shard=60)
        for idx in bad:
            case, obs = kept[idx]
            if case["kind"] == "private" or not localise or len(res.mismatches) >= 6:
                res.mismatches.append({"component": "C02:" + ("is_private" if case["kind"] == "private" else "gate"), "case": case, "impl": obs})
                continue
            # localise: which requests (or the metadata) disagree
            subs = [dict(case, reqs=[])] + [dict(case, reqs=[r]) for r in case["reqs"]]
            sobs = [dict(obs, reqs=[])] + [dict(obs, reqs=[o]) for o in obs["reqs"]]
            sl = [c_case(c, o, q) for c, o in zip(subs, sobs)]
            sb = vlib.run_cases(ctx, "l", IMPORTS, "case", "check_case", sl, shard=200)
            for j in sb[:3]:
                res.mismatches.append({"component": "C02:" + ("metadata" if j == 0 else "gate"), "case": subs[j],
                                       "impl": {"meta": sobs[j]["meta"], "refused_marks": sobs[j]["refused_marks"], "reqs": sobs[j]["reqs"], "quirks": list(q)}})
            if not sb:
                res.mismatches.append({"component": "C02:gate", "case": case, "impl": "whole case differs, single requests do not"})
    return res


RULE = ("seeded random class shapes (1-9 members: instance/static/class methods, properties with getter and/or setter, class and "
        "instance attributes, helper objects; defined in base or registered subclass; own @expose / class-level @expose / none; "
        "functions bound under other (private) names; reserved and public dunder names as members) x requested names (every member "
        "name, _x/__x/__x__/unicode variants, reserved dunders, dotted paths, non-strings) x {call, batch, getattr, setattr} x oneway, "
        "through serpent/json/marshal/msgpack; plus fixed targeted shapes and is_private_attribute on ~400 names. One evaluation = one "
        "raw INVOKE; non-trivial = member code ran or a normal result came back; distinct = distinct (shape, request, serializer).")


def run(ctx, model_ok=True):
    res = vlib.Result()
    reserved = reserved_of(ctx)
    rig = c02impl.Rig()
    try:
        with quiet_threads():
            q = probe_quirks(rig)
            res.quirks = {"q_call_runs_getter": q[0], "q_attr_private_unchecked": q[1]}
            corpus = [c for c in vlib.load_corpus(PROP) if isinstance(c, dict) and c.get("kind") in ("shape", "private")]
            cases = corpus + targeted(reserved) + private_names(ctx.rng, reserved, ctx.n(300, 3000)) + gen_cases(ctx, reserved)
            execute(ctx, rig, cases, model_ok, res, q)
    finally:
        rig.close()
    res.rule = RULE
    shapes = [c for c in cases if c["kind"] == "shape"]
    res.samples = [{"shape": c["shape"], "ser": c["ser"], "reqs": c["reqs"][:3]} for c in shapes[-2:] + shapes[:1]]
    res.extra["shapes"] = len(shapes)
    return res


def search(ctx, broken):
    """a tie broke: 10x volume, oracle only; names that left the reserved list are requested against classes defining them"""
    res = vlib.Result()
    reserved = reserved_of(ctx)
    rig = c02impl.Rig()
    try:
        with quiet_threads():
            cases = [b["case"] for b in broken if isinstance(b.get("case"), dict) and b["case"].get("kind") in ("shape", "private")]
            cases += targeted(reserved) + private_names(ctx.rng, reserved, 400) + gen_cases(ctx, reserved)
            for case in cases:
                obs = run_impl(rig, case)
                res.seen(case)
                if case["kind"] == "private":
                    if obs["private"] is not None and oracle_private(case["name"]) and not obs["private"]:
                        res.violations.append({"signature": "private-name-not-private", "what": "is_private_attribute(%r) is False" % case["name"], "case": case})
                    continue
                for sig, what, sub in oracle(case, obs):
                    res.violations.append({"signature": sig, "what": what, "case": sub})
    finally:
        rig.close()
    # prefer violations in which member code actually ran over the bare predicate disagreement
    res.violations.sort(key=lambda v: v["signature"] == "private-name-not-private")
    return res


def replay(ctx, case):
    rig = c02impl.Rig()
    try:
        with quiet_threads():
            q = probe_quirks(rig)
            obs = run_impl(rig, case)
            if case["kind"] == "private":
                bad = [("private-name-not-private", "is_private_attribute(%r) is False" % case["name"])] \
                    if obs["private"] is not None and oracle_private(case["name"]) and not obs["private"] else []
            else:
                bad = [(s, w) for s, w, _ in oracle(case, obs)]
            if bad:
                return True, {"oracle": bad, "impl": obs}
            res = vlib.Result()
            execute(ctx, rig, [case], True, res, q, localise=False)
            if res.mismatches:
                model = ""
                if case["kind"] == "shape":
                    model = vlib.eval_model(ctx, IMPORTS, "match (%s) with SC c => (bad_reqs c, model_meta (c_shape c), map (fun ro => model_req (c_quirks c) (c_shape c) (fst ro)) (c_reqs c)) | PC _ _ => ([], ([], [], []), []) end" % c_case(case, obs, q))
                return True, {"mismatch": True, "impl": obs, "quirks": list(q), "model": model[-1500:]}
            return False, {"impl": obs}
    finally:
        rig.close()
