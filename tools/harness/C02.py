"""C02 — only explicitly exposed, non-private members are remotely reachable.

Implementation side: tools/lib/c02impl.py synthesises a class from a generated shape, registers an
instance with a real Daemon and feeds raw INVOKE messages (built with the real SendingMessage) to
the real Daemon.handleRequest through a fake connection — all five request kinds, so the
server-side gate is reached with hostile names.  Model side: Model/Expose.v run inside Coq with the
privacy predicate generated from server.py (Gen/GenServer.v).  Oracle: the property stated over
the side-effect log, the reply kind and get_metadata, using a *pinned* notion of "private"."""
import json, threading
from tools.lib import vlib, c02impl
from tools.lib.vlib import cN, cnat, cbool, clist, ctext

PROP = "C02"
GEN = ["GenServer"]
ASSUMPTIONS = [
    "Python attribute resolution (instance dict / class MRO / data descriptors first) is as modelled by inst_lookup/class_lookup",
    "member bodies are arbitrary code: modelled as an opaque effect (member, accessor); helper objects stored in attributes are not callable",
    "a class's own __getattr__/__getattribute__ hook counts as 'code of the target object' when the gate's getattr(obj, name) invokes it for a requested name (open finding attribute-hook-ran); invocations the interpreter makes for __class__/__dict__ on any instance are not attributed to the request",
    "a helper's __call__ is modelled as an opaque effect; helpers live in instance attributes",
    "the serializer delivers the member name unchanged (non-strings stay non-strings)",
]
IMPORTS = "From V Require Import Model.StrFun Model.Expose Gen.GenServer Harness.Cmp Harness.H02."

# the reserved dunder names of the pinned tree (same list as Model/Expose.v reserved_baseline)
BASELINE = [
    "__init__", "__init_subclass__", "__class__", "__module__", "__weakref__", "__call__", "__new__", "__del__",
    "__repr__", "__str__", "__format__", "__nonzero__", "__bool__", "__coerce__", "__cmp__", "__eq__", "__ne__",
    "__hash__", "__ge__", "__gt__", "__le__", "__lt__", "__dir__", "__enter__", "__exit__", "__copy__",
    "__deepcopy__", "__sizeof__", "__getattr__", "__setattr__", "__hasattr__", "__getattribute__", "__delattr__",
    "__instancecheck__", "__subclasscheck__", "__getinitargs__", "__getnewargs__", "__getstate__", "__setstate__",
    "__reduce__", "__reduce_ex__", "__subclasshook__"]
BASESET = frozenset(BASELINE)
# reserved names that can be given to a generated method without breaking the interpreter's own use of them
SAFE_HOOKS = [n for n in BASELINE if n not in ("__new__", "__class__", "__module__", "__weakref__", "__init_subclass__",
                                                "__subclasshook__", "__del__", "__getattribute__", "__getattr__")]
HOOK_NAMES = ("__getattr__", "__getattribute__")      # members of kind "hook"
PUBLIC_DUNDERS = ["__len__", "__dunder__", "__p__", "__value__"]
STEMS = ["alpha", "beta", "gamma", "run", "value", "méthode", "x", "get"]
METHOD_KINDS = c02impl.METHOD_KINDS + ("hook",)      # a hook is a function in the class body like any method
SIG_GETTER = "unexposed-getter-ran-on-call"
SIG_PRIVPROP = "private-property-served"
SIG_HELPER = "callable-exposed-helper-called"
SIG_HOOK = "attribute-hook-ran"


def is_dunder(n):
    return len(n) > 4 and n.startswith("__") and n.endswith("__")


def oracle_private(n):
    """the property's notion of a private name, pinned (never read from the tree under test)"""
    return n in BASESET or (n.startswith("_") and not is_dunder(n))


# ---------------------------------------------------------------- python statement of "what a name denotes"
def class_member(m):
    return m["kind"] not in ("iattr", "helper")


def class_lookup(shape, n):
    for c in ("sub", "base"):
        for i, m in enumerate(shape["members"]):
            if class_member(m) and m["in"] == c and m["name"] == n:
                return i
    return None


def inst_attr(shape, n):
    for i, m in enumerate(shape["members"]):
        if not class_member(m) and m["name"] == n:
            return i
    return None


def inst_lookup(shape, n):
    c = class_lookup(shape, n)
    if c is not None and shape["members"][c]["kind"] == "prop":
        return c
    a = inst_attr(shape, n)
    return a if a is not None else c


_ACC_CACHE = {}


def member_marked(shape, m):
    """does the function object of a method-like member carry an explicit mark (own @expose accepted, or @expose on its class)"""
    return bool((m["mark"] and not oracle_private(m.get("fname") or m["name"])) or
                (shape[m["in"] + "_exposed"] and not oracle_private(m["name"])))


def acc_info(shape, mid):
    """[(present, own, pre)] for fget, fset, fdel of property member mid.  own: @expose applied to that accessor function as
    part of this property.  pre: the function object carries _pyroExposed for a reason that is NOT an exposure of this property —
    it is also an exposed method under another name, or it is taken over from a base class's property whose accessor is marked.
    Computed from the shape with the pinned privacy rule (never by looking at the tree under test)."""
    ent = _ACC_CACHE.get(id(shape))
    if ent is None or ent[0] is not shape:
        if len(_ACC_CACHE) > 4000:
            _ACC_CACHE.clear()
        plans = c02impl.accessor_plan(shape)
        mem = shape["members"]
        info = {}

        def eff_mark(j, which):
            """is base property j's accessor function marked by the time the subclass takes it over"""
            mj = mem[j]
            pres, own, pre = info[j][("get", "set", "del").index(which)]
            first = next((k for k, a in enumerate(info[j]) if a[0]), None)
            fname_ok = not oracle_private(mj.get("fname") or mj["name"])
            return bool(pre or (own and fname_ok) or (mj["mark"] and fname_ok and first == ("get", "set", "del").index(which))
                        or (shape[mj["in"] + "_exposed"] and not oracle_private(mj["name"])))
        for i in sorted(plans, key=lambda i: (mem[i]["in"] != "base", i)):
            row = []
            for which in ("get", "set", "del"):
                pl = plans[i][which]
                if pl is None:
                    row.append((False, False, False))
                elif pl[0] == "own":
                    row.append((True, bool(pl[1]), False))
                elif pl[0] == "method":
                    row.append((True, False, member_marked(shape, mem[pl[1]])))
                else:
                    row.append((True, False, eff_mark(pl[1], pl[2])))
            info[i] = row
        ent = (shape, info)
        _ACC_CACHE[id(shape)] = ent
    return ent[1].get(mid, [(False, False, False)] * 3)


def has_acc(shape, mid, which):
    return acc_info(shape, mid)[("get", "set", "del").index(which)][0]


def explicitly_exposed(shape, m, by_rule=False, mid=None):
    """by_rule=False: some explicit @expose touched the member — the function, the property object, one of its accessor
    functions (here or in its own right) — or the class that defines it.  by_rule=True: Pyro5's rule — for a property the
    mark must sit on its first accessor (fget or fset or fdel)."""
    if m["kind"] not in METHOD_KINDS and m["kind"] != "prop":
        return False
    fname_ok = not oracle_private(m.get("fname") or m["name"])     # @expose refuses private functions
    byclass = shape[m["in"] + "_exposed"] and not oracle_private(m["name"])
    if m["kind"] == "prop":
        if mid is None:
            mid = next(i for i, x in enumerate(shape["members"]) if x is m)
        acc = [a for a in acc_info(shape, mid) if a[0]]
        if not acc:
            return False
        if by_rule:
            return bool(((acc[0][1] or m["mark"]) and fname_ok) or acc[0][2] or byclass)
        return bool(((m["mark"] or any(a[1] for a in acc)) and fname_ok) or any(a[2] for a in acc) or byclass)
    return bool((m["mark"] and fname_ok) or byclass)


def accessor_legit(shape, mid, which):
    """may the getter/setter of property mid run for an attribute request?  Yes if the property is exposed as a whole
    (its class, the property object, or — Pyro5's rule — its first accessor function carries an explicit mark), or if the
    accessor function that runs is itself explicitly exposed.  A mark on ANOTHER later accessor does not count."""
    m = shape["members"][mid]
    if explicitly_exposed(shape, m, True, mid):
        return True
    fname_ok = not oracle_private(m.get("fname") or m["name"])
    pres, own, pre = acc_info(shape, mid)[("get", "set", "del").index(which)]
    return bool(pres and ((own and fname_ok) or pre))


def servable(shape, kind, n):
    """index of the member this request may reach and the accessor, or None"""
    if not isinstance(n, str) or oracle_private(n):
        return None
    if kind in ("call", "batch"):
        i = inst_lookup(shape, n)
        if i is None:
            return None
        m = shape["members"][i]
        if m["kind"] in METHOD_KINDS and explicitly_exposed(shape, m, True):
            return (i, "call")
        return None
    i = class_lookup(shape, n)
    if i is None:
        return None
    m = shape["members"][i]
    if m["kind"] == "prop" and explicitly_exposed(shape, m, True, i):
        if kind == "getattr" and has_acc(shape, i, "get"):
            return (i, "get")
        if kind == "setattr" and has_acc(shape, i, "set"):
            return (i, "set")
    return None


# ---------------------------------------------------------------- oracle
ACC_OF_KIND = {"call": "call", "batch": "call", "getattr": "get", "setattr": "set"}


def loosely_allowed(shape, kind, names, e):
    """the property allows this effect although Pyro5's first-accessor rule would not serve it: the accessor function that
    ran carries an explicit mark itself (e.g. @expose below @x.setter of a property whose getter is unmarked)"""
    mid, acc = e
    m = shape["members"][mid]
    return (m["kind"] == "prop" and kind in ("getattr", "setattr") and acc == ACC_OF_KIND[kind] and names and names[0] == m["name"]
            and class_lookup(shape, m["name"]) == mid and not oracle_private(m["name"]) and accessor_legit(shape, mid, acc))


def expected_metadata(shape):
    """the set of names the property allows the daemon to advertise / requires it to advertise:
    (must_methods, must_attrs, may_attrs) computed from the shape alone"""
    methods, attrs, may = set(), set(), set()
    for m in shape["members"]:
        n = m["name"]
        if not class_member(m) or oracle_private(n):
            continue
        i = class_lookup(shape, n)
        mm = shape["members"][i]
        if mm["kind"] in METHOD_KINDS and explicitly_exposed(shape, mm, True):
            methods.add(n)
        elif mm["kind"] == "prop":
            if explicitly_exposed(shape, mm, True):
                attrs.add(n)
            elif explicitly_exposed(shape, mm, False):
                may.add(n)
    return methods, attrs, may


def oracle_metadata(shape, md, where):
    bad = []
    methods, attrs, may = expected_metadata(shape)
    if set(md["methods"]) != methods:
        bad.append(("metadata-methods-mismatch", "%s: advertised methods %s, exposed public methods %s" % (where, sorted(md["methods"]), sorted(methods))))
    if not (attrs <= set(md["attrs"]) <= attrs | may):
        bad.append(("metadata-attrs-mismatch", "%s: advertised attrs %s, exposed public properties %s" % (where, sorted(md["attrs"]), sorted(attrs))))
    for n in md["oneway"]:
        if n not in md["methods"]:
            bad.append(("oneway-not-a-method", "%s: get_metadata lists %r as oneway but not as a method" % (where, n)))
    for n in list(md["methods"]) + list(md["attrs"]) + list(md["oneway"]):
        if oracle_private(n):
            bad.append(("private-name-advertised", "%s: get_metadata lists the private name %r" % (where, n)))
            break
    return bad


def oracle(case, obs):
    """[(signature, what, reduced case)] — the property stated over the implementation's observations"""
    shape = case["shape"]
    mem = shape["members"]
    bad = []

    def sub(reqs):
        return {"kind": "shape", "shape": shape, "ser": case.get("ser", "serpent"), "reqs": reqs}

    per_name = {}
    for r, o in zip(case["reqs"], obs["reqs"]):
        if o["wire"] != "ok":
            continue
        # the name(s) as they reached the handler; the rest of the request's shape (surplus / keyword arguments) must not matter
        names = o["eff"]["names"]
        kind = r["kind"]
        shape_note = "".join([" +%d surplus args" % len(o["eff"]["surplus"]) if o["eff"]["surplus"] else "",
                              " +kwargs %s" % [k for k, _ in o["eff"]["kwargs"]] if o["eff"]["kwargs"] else "",
                              " (argument missing)" if o["eff"]["missing"] else ""])
        # surplus / keyword arguments of an attribute request may be ignored or may make it an error — never widen access
        may_error = kind in ("getattr", "setattr") and bool(o["eff"]["surplus"] or o["eff"]["kwargs"])
        # expected behaviour, by the property
        exp_log, exp_ok = [], True
        loose_tail = []      # after a batch member that called a helper object (open finding) both continuations are accepted
        if kind == "batch":
            for pos, n in enumerate(names):
                sv = servable(shape, kind, n)
                if sv is None:
                    exp_ok = False
                    hi = inst_lookup(shape, n) if isinstance(n, str) and not oracle_private(n) else None
                    if hi is not None and mem[hi]["kind"] == "helper" and mem[hi].get("hexp") and mem[hi].get("hcall"):
                        loose_tail = [servable(shape, kind, x) for x in names[pos + 1:]]
                    break
                exp_log.append([sv[0], sv[1]])
        else:
            sv = None if o["eff"]["missing"] else servable(shape, kind, names[0])
            if sv is None:
                exp_ok = False
            else:
                exp_log.append([sv[0], sv[1]])
        log = o["log"]
        strs = [n for n in names if isinstance(n, str)]
        # (1) code that ran must be an exposed, non-private member denoted by a requested name
        budget = [list(e) for e in exp_log]
        tolerated = False       # the reply of this request is part of a recorded finding / of a looser-than-Pyro5 allowance
        for e in log:
            if e in budget:
                budget.remove(e)
                continue
            mid, acc = e
            m = mem[mid]
            if loosely_allowed(shape, kind, names, e):
                tolerated = True
            elif tuple(e) in [tuple(x) for x in loose_tail if x]:
                tolerated = True
            elif acc == "helper":
                bad.append(("nested-helper-reached", "a method of the nested helper object %r ran for request %r" % (m["name"], names), sub([r])))
            elif acc == "hcall":
                if (kind in ("call", "batch") and m["kind"] == "helper" and m.get("hexp") and m.get("hcall") and m["name"] in strs
                        and not oracle_private(m["name"]) and inst_lookup(shape, m["name"]) == mid):
                    tolerated = True
                    bad.append((SIG_HELPER, "a %s request for the plain attribute %r called the helper object stored there (callable instance of an @expose'd class)" % (kind, m["name"]), sub([r])))
                else:
                    bad.append(("nested-helper-reached", "the helper object %r was called for request %s %r" % (m["name"], kind, names), sub([r])))
            elif acc == "hook":
                if kind in ("call", "batch") and m["kind"] == "hook" and any(not oracle_private(n) for n in strs):
                    bad.append((SIG_HOOK, "a %s request for %r ran the class's own %s hook" % (kind, names, m["name"]), sub([r])))
                else:
                    bad.append(("attribute-hook-ran-for-refusable-name", "request %s %r ran the class's %s hook" % (kind, names, m["name"]), sub([r])))
            elif acc == "get" and kind in ("call", "batch") and m["kind"] == "prop" and m["name"] in names:
                if explicitly_exposed(shape, m) and not oracle_private(m["name"]):
                    continue      # getter of an exposed public property: the property lets it run (the request is then refused)
                bad.append((SIG_GETTER, "a %s request for %r ran the getter of the property before refusing" % (kind, m["name"]), sub([r])))
            elif m["name"] in names and oracle_private(m["name"]) and m["kind"] == "prop" and kind in ("getattr", "setattr"):
                tolerated = True
                bad.append((SIG_PRIVPROP, "a %s request reached the property bound to the private name %r" % (kind, m["name"]), sub([r])))
            elif m["name"] in names and oracle_private(m["name"]):
                bad.append(("private-member-ran", "request %s %r ran the private member %r" % (kind, names, m["name"]), sub([r])))
            elif m["name"] in names and m["kind"] == "prop" and acc in ("get", "set") and not accessor_legit(shape, mid, acc):
                bad.append(("unexposed-accessor-ran", "request %s %r%s ran the %ster of property %r: neither the property (class, property object, "
                            "first accessor) nor that accessor function was ever exposed" % (kind, names, shape_note, acc, m["name"]), sub([r])))
            elif m["name"] in names and not explicitly_exposed(shape, m):
                bad.append(("unexposed-member-ran", "request %s %r%s ran the unexposed member %r (%s)" % (kind, names, shape_note, m["name"], m["kind"]), sub([r])))
            elif m["name"] in names and e in exp_log:
                bad.append(("member-ran-twice", "request %s %r ran member %r more than once" % (kind, names, m["name"]), sub([r])))
            else:
                bad.append(("wrong-member-ran", "request %s %r ran member %r via %s" % (kind, names, m["name"], acc), sub([r])))
        # (2) reply discipline
        if tolerated:
            pass
        elif o["raised"]:
            bad.append(("handler-raised", "handleRequest raised %s for request %s %r" % (o["raised"], kind, names), sub([r])))
        if tolerated:
            pass
        elif r["oneway"]:
            if o["reply"] != "none":
                bad.append(("oneway-got-reply", "a oneway %s request for %r was answered" % (kind, names), sub([r])))
        else:
            if o["reply"] == "none" and not o["raised"]:
                bad.append(("no-reply", "request %s %r got no reply" % (kind, names), sub([r])))
            elif not exp_ok and o["reply"] == "result":
                bad.append(("refusable-request-answered", "request %s %r must be refused but got a normal result" % (kind, names), sub([r])))
            elif exp_ok and o["reply"] == "error" and not may_error:
                bad.append(("exposed-member-refused", "request %s %r names only exposed public members but was refused (%s)" % (kind, names, o["exc"]), sub([r])))
        if exp_ok and budget and not (o["reply"] == "error" and not r["oneway"]) and not may_error:
            bad.append(("exposed-member-not-run", "request %s %r: exposed member did not run" % (kind, names), sub([r])))
        # (3) nothing else happens to the object
        if o["state_changed"]:
            bad.append(("object-state-changed", "request %s %r changed the attributes of the object or its classes" % (kind, names), sub([r])))
        if o.get("extra_reply_bytes"):
            bad.append(("more-than-one-reply", "request %s %r produced more than one reply" % (kind, names), sub([r])))
        if kind != "batch" and isinstance(names[0], str) and not o["eff"]["missing"]:
            ran = any(mem[e[0]]["name"] == names[0] and e[1] in (ACC_OF_KIND[kind], "hcall") for e in log) and o["reply"] in ("result", "none")
            per_name.setdefault(names[0], {}).setdefault(kind, []).append((ran, r))
    # (4) advertised == served, from the observations themselves
    md = obs["meta"]
    for n, kinds in per_name.items():
        some = [x[1] for kk in kinds.values() for x in kk][:2]
        if oracle_private(n):
            if n in md["methods"] or n in md["attrs"] or n in md["oneway"]:
                bad.append(("private-name-advertised", "get_metadata lists the private name %r" % n, sub(some)))
            continue
        ia = inst_attr(shape, n)
        shadowed = ia is not None and class_lookup(shape, n) is not None
        helper_served = ia is not None and mem[ia]["kind"] == "helper" and mem[ia].get("hexp") and mem[ia].get("hcall")
        if "call" in kinds and not shadowed and not helper_served:
            served = any(x[0] for x in kinds["call"])
            allserved = all(x[0] for x in kinds["call"])
            if (n in md["methods"]) != served or served != allserved:
                bad.append(("metadata-methods-mismatch", "method %r: advertised=%s served=%s" % (n, n in md["methods"], served),
                            sub([x[1] for x in kinds["call"]])))
        if "getattr" in kinds and "setattr" in kinds:
            served = any(x[0] for x in kinds["getattr"]) or any(x[0] for x in kinds["setattr"])
            m_i = class_lookup(shape, n)
            delonly = m_i is not None and mem[m_i]["kind"] == "prop" and not has_acc(shape, m_i, "get") and not has_acc(shape, m_i, "set")
            if (n in md["attrs"]) != served and not delonly:
                bad.append(("metadata-attrs-mismatch", "attribute %r: advertised=%s served=%s" % (n, n in md["attrs"], served),
                            sub([x[1] for x in kinds["getattr"] + kinds["setattr"]])))
    # (5) advertised == the exposed public members of the class, from the shape
    for sig, what in oracle_metadata(shape, md, "get_metadata"):
        bad.append((sig, what, sub([])))
    return bad


def oracle_history(case, obs):
    """a history over several registered objects: every get_metadata answer must be the member list of THAT object's
    class, and every request is judged as in the single-object oracle"""
    bad = []
    shapes, objects = case["shapes"], case["objects"]
    for k, (op, o) in enumerate(zip(case["ops"], obs["ops"])):
        sh = shapes[objects[op["obj"]]]
        if op["op"] == "meta":
            answers = [(n, "get_metadata re-entered from inside the scan of step %d" % k) for n in o.get("nested", [])] + [(o, "get_metadata at step %d" % k)]
            for a, where in answers:
                if a.get("meta") is None:
                    if not any(m["kind"] == "raiser" for m in sh["members"]):
                        bad.append(("metadata-unavailable", "%s of object %d raised %s" % (where, op["obj"], a.get("meta_error")), case))
                    continue
                for sig, what in oracle_metadata(sh, a["meta"], "%s of object %d (class %d)" % (where, op["obj"], objects[op["obj"]])):
                    bad.append((sig, what, case))
        else:
            methods, attrs, may = expected_metadata(sh)
            pseudo = {"kind": "shape", "shape": sh, "ser": case.get("ser", "serpent"), "reqs": [op["req"]]}
            fake_md = {"methods": sorted(methods), "attrs": sorted(attrs), "oneway": []}
            for sig, what, _ in oracle(pseudo, {"meta": fake_md, "reqs": [o]}):
                if not sig.startswith("metadata-"):
                    bad.append((sig, what + " (object %d, step %d)" % (op["obj"], k), case))
    return bad


# ---------------------------------------------------------------- Gallina literals
KIND = {"method": "KMethod", "static": "KStatic", "classm": "KClassM", "cattr": "KClassAttr", "iattr": "KInstAttr"}


def c_member(i, m):
    k = m["kind"]
    if k == "prop":
        kk = "(KProp %s %s %s)" % tuple(("(Some {| a_own := %s; a_pre := %s |})" % (cbool(own), cbool(pre)) if pres else "None")
                                        for pres, own, pre in acc_info(SHAPE_BEING_PRINTED[0], i))
    elif k == "raiser":
        kk = "(KRaiser %s)" % {"once": "ROnce", "always": "RAlways", "park": "RPark"}[m.get("raises", "once")]
    elif k == "helper":
        kk = "(KHelper %s %s)" % (cbool(m.get("hexp", False)), cbool(m.get("hcall", False)))
    elif k == "hook":
        kk = "(KHook %s)" % {"__getattr__": "HGetattr", "__getattribute__": "HGetattribute"}[m["name"]]
    else:
        kk = KIND[k]
    return "{| m_id := %s; m_name := %s; m_kind := %s; m_in := %s; m_mark := %s; m_fname := %s; m_oneway := %s |}" % (
        cnat(i), ctext(m["name"]), kk, "Base" if m["in"] == "base" else "Sub", cbool(m["mark"]),
        ctext(m.get("fname") or m["name"]), cbool(m.get("oneway", False)))


SHAPE_BEING_PRINTED = [None]


def c_shape(shape):
    SHAPE_BEING_PRINTED[0] = shape
    return "{| s_base_exposed := %s; s_sub_exposed := %s; s_members := %s |}" % (
        cbool(shape["base_exposed"]), cbool(shape["sub_exposed"]), clist([c_member(i, m) for i, m in enumerate(shape["members"])]))


def c_name(n):
    return "NStr %s" % ctext(n) if isinstance(n, str) else "NOther"


RK = {"call": "RCall", "batch": "RBatch", "getattr": "RGet", "setattr": "RSet"}
ACC = {"call": "ACall", "get": "AGet", "set": "ASet", "hcall": "AHelper", "hook": "AHook"}
REP = {"result": "RepResult", "error": "RepError", "none": "RepNone"}


def c_val(b):
    return "ATruthy" if b else "AFalsy"


def c_request(r, o):
    """the request as it reached the handler (o["eff"]: effective names, missing / surplus / keyword arguments)"""
    eff = o["eff"]
    return "{| r_kind := %s; r_oneway := %s; r_names := %s; r_missing := %s; r_surplus := %s; r_kwargs := %s |}" % (
        RK[r["kind"]], cbool(r["oneway"]), clist([c_name(n) for n in eff["names"]]), cbool(eff["missing"]),
        clist([c_val(b) for b in eff["surplus"]]), clist(["(%s, %s)" % (ctext(k), c_val(b)) for k, b in eff["kwargs"]]))


def c_req(r, o):
    return "(%s, {| o_reply := %s; o_log := %s |})" % (
        c_request(r, o), REP[o["reply"]], clist(["(%s, %s)" % (cnat(e[0]), ACC[e[1]]) for e in o["log"]]))


def c_quirks(q):
    return ("{| q_call_runs_getter := %s; q_attr_private_unchecked := %s; q_helper_served := %s; q_hook_getattribute := %s; "
            "q_hook_getattr := %s; q_get_form := %s; q_set_form := %s |}") % (tuple(cbool(x) for x in q[:5]) + (q[5], q[6]))


def c_history(case, obs, q):
    ops = []

    def hmeta(i, o):
        md = o.get("meta")
        if md is None:
            return "HMeta %s false [] [] []" % cnat(i)
        return "HMeta %s true %s %s %s" % (cnat(i), clist([ctext(x) for x in md["methods"]]),
                                           clist([ctext(x) for x in md["oneway"]]), clist([ctext(x) for x in md["attrs"]]))
    for op, o in zip(case["ops"], obs["ops"]):
        if op["op"] == "meta":
            for n in o.get("nested", []):       # a get_metadata that ran inside this call's scan completed first
                ops.append(hmeta(op["obj"], n))
            ops.append(hmeta(op["obj"], o))
        elif o["wire"] == "ok":
            r = op["req"]
            ops.append("HReq %s %s {| o_reply := %s; o_log := %s |}" % (
                cnat(op["obj"]), c_request(r, o), REP[o["reply"]], clist(["(%s, %s)" % (cnat(e[0]), ACC[e[1]]) for e in o["log"]])))
    return "HC {| h_quirks := %s; h_classes := %s; h_objects := %s; h_ops := %s |}" % (
        c_quirks(q), clist([c_shape(sh) for sh in case["shapes"]]), clist([cnat(i) for i in case["objects"]]), clist(ops))


def c_case(case, obs, q):
    if case["kind"] == "private":
        return "PC %s %s" % (ctext(case["name"]), cbool(obs["private"]))
    if case["kind"] == "history":
        return c_history(case, obs, q)
    pairs = [(r, o) for r, o in zip(case["reqs"], obs["reqs"]) if o["wire"] == "ok"]
    md = obs["meta"]
    return "SC {| c_quirks := %s; c_shape := %s; c_methods := %s; c_oneway := %s; c_attrs := %s; c_refused := %s; c_reqs := %s |}" % (
        c_quirks(q), c_shape(case["shape"]), clist([ctext(x) for x in md["methods"]]), clist([ctext(x) for x in md["oneway"]]),
        clist([ctext(x) for x in md["attrs"]]), clist([cnat(i) for i in obs["refused_marks"]]), clist([c_req(r, o) for r, o in pairs]))


def representable(o):
    """outcomes outside the model's vocabulary (reported as a mismatch, never silently dropped)"""
    return o["reply"] in REP and all(e[1] in ACC for e in o["log"])


# ---------------------------------------------------------------- generator
def variants(n):
    return ["_" + n, "__" + n, "__" + n + "__", n + "_", n.upper(), "＿" + n, chr(ord(n[0]) + 0xfee0) + n[1:] if n[0].isascii() and n[0].isalpha() else n + "́"]


def gen_shape(rng):
    members = []
    used = {"base": set(), "sub": set(), "inst": set()}
    n = rng.choice([1, 2, 3, 4, 5, 6, 7, 9])
    stems = rng.sample(STEMS, rng.choice([2, 3, 4]))
    for _ in range(n):
        stem = rng.choice(stems)
        r = rng.random()
        if r < 0.62:
            name = stem
        elif r < 0.74:
            name = "_" + stem
        elif r < 0.80:
            name = "__" + stem
        elif r < 0.86:
            name = rng.choice(PUBLIC_DUNDERS)
        elif r < 0.93:
            name = rng.choice(SAFE_HOOKS)
        else:
            name = "__" + stem + "__"
        kind = rng.choice(["method"] * 5 + ["prop"] * 4 + ["static", "static", "classm", "classm", "cattr", "iattr", "iattr", "helper", "helper"])
        if is_dunder(name) and kind != "method":      # a number called __init__ / __eq__ breaks the interpreter, not Pyro
            kind = "method"
        if kind in ("iattr", "helper") and (name.startswith("__") or name in BASESET):
            name = stem
        where = rng.choice(["base", "sub", "sub"])
        slot = "inst" if kind in ("iattr", "helper") else where
        if name in used[slot]:
            continue
        used[slot].add(name)
        m = {"name": name, "kind": kind, "in": where, "mark": False, "fname": name, "oneway": False, "get": True, "set": True, "hexp": False}
        if kind in METHOD_KINDS or kind == "prop":
            m["mark"] = rng.random() < 0.4
            if rng.random() < 0.25 and not is_dunder(name):
                # the function's own __name__ differs from the name it is bound to
                m["fname"] = rng.choice([stem + "_impl", "_" + stem, "visible", "__" + stem, name.lstrip("_") or "f"])
                m["mark"] = rng.random() < 0.75
        if kind in METHOD_KINDS:
            m["oneway"] = rng.random() < 0.2
        if kind == "prop":
            m["get"], m["set"] = rng.choice([(True, True), (True, True), (True, False), (True, False), (False, True), (False, False)])
            m["del"] = rng.random() < 0.3 or not (m["get"] or m["set"])
            if rng.random() < 0.45:
                # @expose below @property / @x.setter / @x.deleter, i.e. on single accessor functions
                m["mark"] = rng.random() < 0.2
                m["gmark"] = m["get"] and rng.random() < 0.35
                m["smark"] = m["set"] and rng.random() < 0.5
                m["dmark"] = m["del"] and rng.random() < 0.4
        if kind == "helper":
            m["hexp"] = rng.random() < 0.6
            m["hcall"] = rng.random() < 0.5
            m["hbase"] = rng.random() < 0.3
        members.append(m)
    if rng.random() < 0.15:
        # the class (or its base) defines its own attribute hook(s)
        for hn in rng.sample(HOOK_NAMES, rng.choice([1, 1, 2])):
            where = rng.choice(["base", "sub"])
            members.insert(rng.randrange(len(members) + 1),
                           {"name": hn, "kind": "hook", "in": where, "mark": rng.random() < 0.3, "fname": hn, "oneway": False,
                            "get": True, "set": True, "hexp": False})
    shape = {"base_exposed": rng.random() < 0.4, "sub_exposed": rng.random() < 0.4, "members": members}
    if rng.random() < 0.3:
        add_sources(rng, shape)
    return shape


def add_sources(rng, shape):
    """give a property accessor functions that come from elsewhere: a function that is at the same time a method of the same
    class under its own name (old-style  target = property(get_target, set_target)), or the accessors of the base class's
    property of the same name (Base.prop.getter(f) in the subclass)"""
    mem = shape["members"]
    own = c02impl.owners(shape)
    props = [i for i, m in enumerate(mem) if m["kind"] == "prop" and own.get((m["in"], m["name"])) == i and not is_dunder(m["name"])]
    if not props:
        return
    i = rng.choice(props)
    m = mem[i]
    if rng.random() < 0.6:
        # (a) method-backed accessors
        for key, flag in rng.sample([("gsrc", "get"), ("ssrc", "set"), ("dsrc", "del")], rng.choice([1, 1, 2])):
            cands = [x for x in mem if x["kind"] in ("method", "static") and x["in"] == m["in"] and own.get((x["in"], x["name"])) == mem.index(x)
                     and not is_dunder(x["name"]) and not any(p.get(k) == "m:" + x["name"] for p in mem for k in ("gsrc", "ssrc", "dsrc"))]
            if cands and rng.random() < 0.6:
                f = rng.choice(cands)
            else:
                fn = rng.choice(["", "_"]) + flag + "_" + m["name"].strip("_")
                if (m["in"], fn) in own or any(x["name"] == fn for x in mem):
                    continue
                f = {"name": fn, "kind": "method", "in": m["in"], "mark": rng.random() < 0.6, "fname": fn, "oneway": False,
                     "get": True, "set": True, "hexp": False}
                mem.append(f)
                own[(m["in"], fn)] = len(mem) - 1
            m[key] = "m:" + f["name"]
            if flag != "del":
                m[flag] = True
            else:
                m["del"] = True
        first = next((k for k, fl in (("gsrc", "get"), ("ssrc", "set"), ("dsrc", "del"))
                      if (m.get(fl) if fl != "del" else has_del_flag(m))), None)
        if first and m.get(first):
            m["mark"] = False        # @expose on the property object would mark the shared method function as well
    else:
        # (b) re-declared accessors across base / subclass
        if m["in"] != "sub":
            m["in"] = "sub" if (("sub", m["name"]) not in own) else m["in"]
        if m["in"] != "sub":
            return
        if ("base", m["name"]) not in own or mem[own[("base", m["name"])]]["kind"] != "prop":
            if ("base", m["name"]) in own:
                return
            b = {"name": m["name"], "kind": "prop", "in": "base", "mark": rng.random() < 0.4, "fname": m["name"], "oneway": False,
                 "get": True, "set": rng.random() < 0.8, "hexp": False, "del": rng.random() < 0.4,
                 "gmark": rng.random() < 0.2, "smark": rng.random() < 0.4, "dmark": rng.random() < 0.3}
            mem.insert(0, b)
        keep = rng.choice(["get", "set"])       # the accessor the subclass re-declares itself
        for key, flag in (("gsrc", "get"), ("ssrc", "set"), ("dsrc", "del")):
            if flag != keep:
                m[key] = "base"
        m[keep] = True
        # @expose on the re-declared property object would test and mark the BASE function (its __name__, not this member's):
        # not in the shape language
        m["mark"] = False


def has_del_flag(m):
    return m["del"] if m.get("del") is not None else not (m.get("get") or m.get("set"))


def gen_history(rng, reserved):
    """several classes that all carry the same __name__/__qualname__ (some differing in one member only), several
    registered objects, and an interleaving of get_metadata calls and requests"""
    k = rng.choice([2, 2, 3, 4])
    shapes = [gen_shape(rng)]
    while len(shapes) < k:
        if rng.random() < 0.5:
            # a sibling: same members, exposure decided differently
            sib = json.loads(json.dumps(rng.choice(shapes)))
            sib["base_exposed"], sib["sub_exposed"] = rng.random() < 0.5, rng.random() < 0.5
            for m in sib["members"]:
                if m["kind"] in c02impl.METHOD_KINDS + ("prop",) and rng.random() < 0.5 and not any(m.get(k) for k in ("gsrc", "ssrc", "dsrc")):
                    m["mark"] = not m["mark"]
            shapes.append(sib)
        else:
            shapes.append(gen_shape(rng))
    for sh in shapes:
        if rng.random() < 0.3 and not any(m["name"] == "kaboom" for m in sh["members"]):
            # a class attribute whose access raises (once / always) or re-enters get_metadata during the metadata scan
            sh["members"].append({"name": "kaboom", "kind": "raiser", "in": rng.choice(["base", "sub"]), "mark": False, "fname": "kaboom",
                                  "oneway": False, "get": True, "set": True, "hexp": False, "raises": rng.choice(["once", "once", "always", "park"])})
    objects = [rng.randrange(k) for _ in range(rng.choice([2, 3, 4, 5]))]
    for ci in range(k):
        if ci not in objects:
            objects.append(ci)
    ops = []
    for _ in range(rng.choice([6, 9, 12, 16])):
        i = rng.randrange(len(objects))
        if rng.random() < 0.5:
            ops.append({"op": "meta", "obj": i})
        else:
            sh = shapes[objects[i]]
            pool = [m["name"] for m in sh["members"]] or ["x"]
            other = [m["name"] for s2 in shapes for m in s2["members"]]
            n = rng.choice(pool * 3 + other + ["nonexistent", "__class__"])
            kind = rng.choice(["call", "call", "batch", "getattr", "setattr"])
            rq = {"kind": kind, "oneway": rng.random() < 0.2, "names": [n]}
            ops.append({"op": "req", "obj": i, "req": vary_shape(rng, rq) if rng.random() < 0.3 else rq})
    return {"kind": "history", "shapes": shapes, "objects": objects, "ops": ops, "ser": "serpent"}


FALSY = ["false", "zero", "none", "empty", "emptylist"]
TRUTHY = ["true", "one", "str", "list"]
KWARGS = [{"only_exposed": "false"}, {"only_exposed": "zero"}, {"only_exposed": "none"}, {"only_exposed": "true"}, {"x": "one"},
          {"value": "one"}, {"only_exposed": "false", "x": "zero"}]


def vary_shape(rng, r):
    """vary the SHAPE of a request, not its name: surplus positional arguments, keyword arguments, too few arguments,
    something that is not an argument tuple"""
    r = dict(r)
    attr = r["kind"] in ("getattr", "setattr")
    c = rng.random()
    if c < 0.45:
        r["extra"] = [rng.choice(FALSY + FALSY + TRUTHY) for _ in range(rng.choice([1, 1, 1, 2, 3]))]
    elif c < 0.65:
        r["kwargs"] = rng.choice(KWARGS)
    elif c < 0.75:
        r["extra"] = [rng.choice(FALSY + TRUTHY)]
        r["kwargs"] = rng.choice(KWARGS)
    elif attr and c < 0.88:
        r["nargs"] = 0 if r["kind"] == "getattr" else rng.choice([0, 1])
        if rng.random() < 0.3:
            r["extra"] = [rng.choice(FALSY)]
    elif attr:
        r["vform"] = rng.choice(["str", "none", "int", "list"])
    elif r["kind"] == "batch" and r["names"]:
        names = list(r["names"])
        names.insert(rng.randrange(len(names) + 1), {"ns": "baditem"})
        r["names"] = names
    else:
        r["extra"] = [rng.choice(FALSY)] * 4
    return r


def gen_requests(rng, shape, ser, reserved, volume):
    names = []
    mnames = [m["name"] for m in shape["members"]]
    for n in mnames:
        names.append(n)
    for n in rng.sample(mnames, min(len(mnames), 3)) if mnames else []:
        stem = n.strip("_") or "x"
        names.extend(rng.sample(variants(stem), 3))
    for m in shape["members"]:
        if m["kind"] == "helper":
            names.extend([m["name"] + ".hm", m["name"] + ".value", m["name"] + ".__call__"])
    names.extend(rng.sample(["a.b", "", "nonexistent", "hm", "_pyroId", "_pyroDaemon", "__dict__", "__doc__", "__slots__",
                             "__iter__", "__len__", "_", "__", "____", "_____"] + mnames, 4))
    names.extend(["__class__", "__init__"])
    names.extend(rng.sample(reserved, min(len(reserved), 5)))
    tags = [t for t in c02impl.NONSTRING]
    names.extend({"ns": t} for t in rng.sample(tags, 2))
    seen, uniq = set(), []
    for n in names:
        k = json.dumps(n, sort_keys=True)
        if k not in seen:
            seen.add(k)
            uniq.append(n)
    rng.shuffle(uniq)
    uniq = uniq[:volume]
    reqs = []
    for n in uniq:
        for kind in ("call", "batch", "getattr", "setattr"):
            reqs.append({"kind": kind, "oneway": rng.random() < 0.3, "names": [n]})
    strs = [n for n in uniq if isinstance(n, str)]
    good = [n for n in strs if servable(shape, "batch", n)]
    for _ in range(4):
        k = rng.choice([0, 2, 3, 4])
        pool = good * 3 + strs if good else strs
        reqs.append({"kind": "batch", "oneway": rng.random() < 0.25, "names": [rng.choice(pool) for _ in range(k)] if pool else []})
    # the same names again with another request shape; member names get the most attention
    mset = set(m["name"] for m in shape["members"])
    varied = [vary_shape(rng, r) for r in reqs if rng.random() < (0.6 if r["names"] and isinstance(r["names"][0], str) and r["names"][0] in mset else 0.15)]
    return reqs + varied


def witness_cases():
    """the two recorded findings, as cases (also used as quirk probes)"""
    M = lambda name, kind, **k: dict({"name": name, "kind": kind, "in": "sub", "mark": False, "fname": name, "oneway": False,
                                      "get": True, "set": True, "hexp": False}, **k)
    w1 = {"kind": "shape", "ser": "serpent", "shape": {"base_exposed": False, "sub_exposed": False, "members": [
        M("ping", "method", mark=True), M("secret", "prop")]},
        "reqs": [{"kind": "call", "oneway": False, "names": ["secret"]}]}
    w2 = {"kind": "shape", "ser": "serpent", "shape": {"base_exposed": False, "sub_exposed": False, "members": [
        M("_hidden", "prop", mark=True, fname="visible")]},
        "reqs": [{"kind": "getattr", "oneway": False, "names": ["_hidden"]}]}
    w3 = {"kind": "shape", "ser": "serpent", "shape": {"base_exposed": False, "sub_exposed": False, "members": [
        M("ping", "method", mark=True), M("tool", "helper", hexp=True, hcall=True)]},
        "reqs": [{"kind": "call", "oneway": False, "names": ["tool"]}]}
    w4 = {"kind": "shape", "ser": "serpent", "shape": {"base_exposed": False, "sub_exposed": False, "members": [
        M("ping", "method", mark=True), M("__getattr__", "hook")]},
        "reqs": [{"kind": "call", "oneway": False, "names": ["any"]}]}
    w5 = {"kind": "shape", "ser": "serpent", "shape": {"base_exposed": False, "sub_exposed": False, "members": [
        M("ping", "method", mark=True), M("__getattribute__", "hook")]},
        "reqs": [{"kind": "call", "oneway": False, "names": ["ping"]}]}
    return w1, w2, w3, w5, w4


def form_probes():
    """seeded change C02_6: does a surplus positional / a keyword argument of an attribute request reach only_exposed?"""
    w1 = witness_cases()[0]
    out = {}
    for kind in ("getattr", "setattr"):
        out[kind] = (dict(w1, reqs=[{"kind": kind, "oneway": False, "names": ["secret"], "extra": ["false"]}]),
                     dict(w1, reqs=[{"kind": kind, "oneway": False, "names": ["secret"], "kwargs": {"only_exposed": "false"}}]),
                     # an EXPOSED property asked for with a truthy surplus argument: refused only by an argument-count check
                     dict(w1, shape=dict(w1["shape"], sub_exposed=True), reqs=[{"kind": kind, "oneway": False, "names": ["secret"], "extra": ["true"]}]))
    return out


def shape_matrix():
    """every argument-tuple shape against unexposed / exposed / private-named / getter-only properties and methods"""
    M = lambda name, kind, **k: dict({"name": name, "kind": kind, "in": "sub", "mark": False, "fname": name, "oneway": False,
                                      "get": True, "set": True, "hexp": False}, **k)
    mem = [M("secret", "prop"), M("ep", "prop", mark=True), M("_hp", "prop", mark=True, fname="visible"), M("ro", "prop", set=False),
           M("inh", "prop", **{"in": "base"}), M("ok", "method", mark=True), M("no", "method"), M("ia", "iattr"), M("ca", "cattr")]
    variants = [{"extra": [t]} for t in FALSY + TRUTHY] + [{"extra": ["false", "false"]}, {"extra": ["false", "true", "one"]},
                {"extra": ["zero"] * 4}] + [{"kwargs": k} for k in KWARGS] + [{"extra": ["false"], "kwargs": {"only_exposed": "false"}}]
    out = []
    for be, se in ((False, False), (True, False)):
        reqs = []
        for n in [m["name"] for m in mem] + ["missing", {"ns": "int"}]:
            for kind in ("getattr", "setattr", "call", "batch"):
                for i, v in enumerate(variants):
                    reqs.append(dict({"kind": kind, "oneway": i % 3 == 0, "names": [n]}, **v))
                if kind in ("getattr", "setattr"):
                    for na in ((0,) if kind == "getattr" else (0, 1)):
                        reqs.append({"kind": kind, "oneway": False, "names": [n], "nargs": na})
                        reqs.append({"kind": kind, "oneway": True, "names": [n], "nargs": na, "extra": ["false"]})
                    for vf in ("str", "none", "int", "list"):
                        reqs.append({"kind": kind, "oneway": False, "names": [n], "vform": vf})
        reqs.append({"kind": "batch", "oneway": False, "names": ["ok", {"ns": "baditem"}, "ok"]})
        reqs.append({"kind": "batch", "oneway": False, "names": [{"ns": "baditem"}]})
        for k in range(0, len(reqs), 120):      # several moderate cases rather than one huge one (they are evaluated in parallel shards)
            out.append({"kind": "shape", "ser": "serpent", "shape": {"base_exposed": be, "sub_exposed": se, "members": mem}, "reqs": reqs[k:k + 120]})
    return out


def targeted(reserved):
    """fixed cases: class-level exposure of a class that defines reserved names, every reserved name requested
    in every kind; private names bound to marked functions; inheritance; shadowing"""
    M = lambda name, kind, **k: dict({"name": name, "kind": kind, "in": "sub", "mark": False, "fname": name, "oneway": False,
                                      "get": True, "set": True, "hexp": False}, **k)
    out = list(witness_cases()) + [c for cs in form_probes().values() for c in cs] + shape_matrix()
    allkinds = lambda names, ow=False: [{"kind": k, "oneway": ow, "names": [n]} for n in names for k in ("call", "batch", "getattr", "setattr")]
    hooks = [M(n, "method", **{"in": "base" if i % 2 else "sub"}) for i, n in enumerate(SAFE_HOOKS)]
    hooks += [M("__getattr__", "hook", **{"in": "base"}), M("__getattribute__", "hook")]
    names = sorted(set(reserved) | BASESET)
    out.append({"kind": "shape", "ser": "serpent", "shape": {"base_exposed": True, "sub_exposed": True,
                "members": hooks + [M("ok", "method"), M("__len__", "method")]}, "reqs": allkinds(names + ["ok", "__len__"])})
    out.append({"kind": "shape", "ser": "serpent", "shape": {"base_exposed": True, "sub_exposed": True,
                "members": [M("ok", "method"), M("p", "prop")]}, "reqs": allkinds(names, True) + allkinds(["ok", "p"])})
    priv = [M("_m", "method", mark=True, fname="m"), M("__m", "method", mark=True, fname="m"), M("_s", "static", mark=True, fname="s"),
            M("_c", "classm", mark=True, fname="c"), M("_p", "prop", mark=True, fname="p"), M("__q", "prop", mark=True, fname="q", get=False),
            M("_n", "method"), M("pub", "method", mark=True, fname="_pub"), M("pp", "prop", mark=True, fname="_pp")]
    out.append({"kind": "shape", "ser": "serpent", "shape": {"base_exposed": False, "sub_exposed": True, "members": priv},
                "reqs": allkinds([m["name"] for m in priv]) + allkinds(["_m", "_p", "pub"], True)})
    inh = [M("f", "method", **{"in": "base"}), M("g", "method", **{"in": "base"}), M("g", "method"), M("h", "method", mark=True, **{"in": "base"}),
           M("h", "method"), M("p", "prop", **{"in": "base"}), M("q", "prop", mark=True, **{"in": "base"}), M("q", "prop"),
           M("f", "iattr"), M("p", "iattr"), M("hp", "helper", hexp=True), M("hn", "helper"), M("c", "cattr", **{"in": "base"})]
    for be, se in ((True, False), (False, True), (False, False), (True, True)):
        out.append({"kind": "shape", "ser": "serpent", "shape": {"base_exposed": be, "sub_exposed": se, "members": inh},
                    "reqs": allkinds(["f", "g", "h", "p", "q", "hp", "hn", "hp.hm", "hn.hm", "c", "c.real", "hp.value"]) +
                    [{"kind": "batch", "oneway": False, "names": ["f", "h", "g", "f"]}, {"kind": "batch", "oneway": True, "names": ["f", "q", "f"]},
                     {"kind": "batch", "oneway": False, "names": []}, {"kind": "batch", "oneway": False, "names": ["f", "f", "hp", "f"]}]})
    # properties marked on single accessor functions; callable helpers; hooks in base / subclass
    acc = [M("a", "prop", smark=True), M("b", "prop", gmark=True), M("c", "prop", get=False, smark=True), M("d", "prop", get=False, set=False, dmark=True),
           M("e", "prop", mark=True, **{"del": True}), M("f", "prop", get=False, set=True, mark=True, **{"in": "base"}),
           M("g", "prop", smark=True, fname="_g"), M("h", "prop", dmark=True, **{"del": True}), M("i", "prop", **{"in": "base"}),
           M("j", "prop", gmark=True, **{"in": "base"}), M("j", "prop")]
    for be, se in ((False, False), (True, False), (False, True)):
        out.append({"kind": "shape", "ser": "serpent", "shape": {"base_exposed": be, "sub_exposed": se, "members": acc},
                    "reqs": allkinds([m["name"] for m in acc[:-1]])})
    hel = [M("ok", "method", mark=True), M("t1", "helper", hexp=True, hcall=True), M("t2", "helper", hexp=False, hcall=True),
           M("t3", "helper", hexp=True, hcall=False), M("t4", "helper", hexp=True, hcall=True, hbase=True), M("_t5", "helper", hexp=True, hcall=True),
           M("ok", "helper", hexp=True, hcall=True), M("st", "static", **{"in": "base"}), M("cm", "classm", **{"in": "base"}),
           M("st2", "static", mark=True, **{"in": "base"}), M("cm2", "classm", mark=True)]
    for be, se in ((False, False), (True, False), (False, True)):
        out.append({"kind": "shape", "ser": "serpent", "shape": {"base_exposed": be, "sub_exposed": se, "members": hel},
                    "reqs": allkinds([m["name"] for m in hel] + ["t1.hm", "t1.__call__", "t4.hm"]) + allkinds(["t1", "t2", "st", "cm"], True) +
                    [{"kind": "batch", "oneway": False, "names": ["cm2", "t1", "t3", "cm2"]}]})
    for hk in ([M("__getattr__", "hook")], [M("__getattribute__", "hook", **{"in": "base"})],
               [M("__getattr__", "hook", **{"in": "base"}), M("__getattribute__", "hook"), M("__getattr__", "hook")]):
        mem = [M("ok", "method", mark=True), M("no", "method"), M("p", "prop", mark=True), M("q", "prop"), M("ia", "iattr"), M("_x", "method")] + hk
        out.append({"kind": "shape", "ser": "serpent", "shape": {"base_exposed": False, "sub_exposed": False, "members": mem},
                    "reqs": allkinds(["ok", "no", "p", "q", "ia", "_x", "missing", "__class__", "__getattr__", "__getattribute__", "a.b", {"ns": "int"}]) +
                    allkinds(["missing", "ok"], True) + [{"kind": "batch", "oneway": False, "names": ["ok", "missing", "ok"]}]})
    # accessor functions that carry a mark for a reason that is not an exposure of the property (seeded change C02_8):
    # old-style property(get_x, set_x) over functions that are also (exposed / unexposed) methods; Base.prop.getter(f) in a subclass
    src = [M("get_t", "method"), M("set_t", "method", mark=True), M("target", "prop", gsrc="m:get_t", ssrc="m:set_t"),
           M("set_u", "method", mark=True), M("u", "prop", ssrc="m:set_u"), M("_get_v", "method", mark=True, fname="get_v"), M("v", "prop", gsrc="m:_get_v"),
           M("w", "prop", get=False, ssrc="m:set_w"), M("set_w", "method", mark=True), M("del_x", "method", mark=True), M("x", "prop", dsrc="m:del_x"),
           M("y", "prop", get=False, set=False, dsrc="m:del_y"), M("del_y", "static", mark=True), M("get_z", "method"), M("z", "prop", gsrc="m:get_z", smark=True)]
    out.append({"kind": "shape", "ser": "serpent", "shape": {"base_exposed": False, "sub_exposed": False, "members": src},
                "reqs": allkinds([m["name"] for m in src]) + allkinds(["target", "u", "w"], True)})
    red = [M("bp", "prop", **{"in": "base"}), M("bp", "prop", ssrc="base", dsrc="base"), M("bq", "prop", **{"in": "base", "del": True}),
           M("bq", "prop", gsrc="base", dsrc="base"), M("br", "prop", mark=True, **{"in": "base"}), M("br", "prop", ssrc="base"),
           M("bs", "prop", smark=True, **{"in": "base"}), M("bs", "prop", ssrc="base"), M("bt", "prop", **{"in": "base"}), M("bt", "prop", gsrc="base", smark=True)]
    for be, se in ((True, False), (False, False), (False, True)):
        out.append({"kind": "shape", "ser": "serpent", "shape": {"base_exposed": be, "sub_exposed": se, "members": red},
                    "reqs": allkinds(["bp", "bq", "br", "bs", "bt"]) + allkinds(["bp", "bq"], True)})
    # a class attribute that raises while the metadata scan inspects it (once / always) or re-enters get_metadata (seeded change C02_9)
    for mode in ("once", "always", "park"):
        for where in ("sub", "base"):
            rs = {"base_exposed": True, "sub_exposed": False, "members": [
                M("alpha", "method", **{"in": "base"}), M("kaboom", "raiser", raises=mode, **{"in": where}), M("omega", "method", mark=True),
                M("zeta", "prop", mark=True), M("beta", "prop", **{"in": "base"})]}
            mk_ = lambda i: {"op": "meta", "obj": i}
            rq_ = lambda i, k, n: {"op": "req", "obj": i, "req": {"kind": k, "oneway": False, "names": [n]}}
            out.append({"kind": "history", "ser": "serpent", "shapes": [rs, rs], "objects": [0, 0, 1],
                        "ops": [mk_(0), mk_(1), rq_(0, "call", "omega"), rq_(0, "call", "alpha"), rq_(0, "getattr", "zeta"), rq_(0, "call", "kaboom"),
                                rq_(1, "getattr", "kaboom"), mk_(0), mk_(2), mk_(2), rq_(2, "call", "omega")]})
    # same-named classes in one daemon: two objects of one class, one of a sibling class
    s1 = {"base_exposed": False, "sub_exposed": True, "members": [M("ok", "method"), M("p", "prop"), M("only1", "method")]}
    s2 = {"base_exposed": False, "sub_exposed": False, "members": [M("ok", "method"), M("p", "prop", mark=True), M("only2", "method", mark=True)]}
    mk = lambda i: {"op": "meta", "obj": i}
    rq = lambda i, k, n: {"op": "req", "obj": i, "req": {"kind": k, "oneway": False, "names": [n]}}
    for order in ([0, 2, 1], [2, 0, 1], [1, 2, 0]):
        out.append({"kind": "history", "ser": "serpent", "shapes": [s1, s2], "objects": [0, 0, 1],
                    "ops": [mk(i) for i in order] + [rq(0, "call", "ok"), rq(2, "call", "ok"), rq(2, "call", "only2"), rq(1, "call", "only2"),
                                                    rq(2, "getattr", "p"), rq(0, "getattr", "p")] + [mk(i) for i in order]})
    return out


def private_names(rng, reserved, n):
    out = list(reserved) + list(BASELINE) + ["", "_", "__", "___", "____", "_____", "______", "_p", "_pp", "_p_", "_p__", "__p", "___p",
                                              "__dunder__", "__p__", "__a", "a__", "a", "abc", "_é", "＿x", "__é__", "x__x__"]
    alphabet = "_a_b_éx"
    while len(out) < n:
        out.append("".join(rng.choice(alphabet) for _ in range(rng.choice([1, 2, 3, 4, 5, 5, 6, 8]))))
    for r in list(reserved)[:]:
        out.extend([r[:-1], r[1:], r + "_", r.upper()])
    return [{"kind": "private", "name": x} for x in out]


def gen_cases(ctx, reserved):
    rng = ctx.rng
    cases = []
    sers = ["serpent", "serpent", "serpent", "json", "marshal", "msgpack"]
    for _ in range(ctx.n(110, 1000)):
        shape = gen_shape(rng)
        ser = rng.choice(sers)
        cases.append({"kind": "shape", "shape": shape, "ser": ser, "reqs": gen_requests(rng, shape, ser, reserved, rng.choice([10, 16, 24]))})
    for _ in range(ctx.n(60, 600)):
        cases.append(gen_history(rng, reserved))
    return cases


# ---------------------------------------------------------------- running
class quiet_threads:
    def __enter__(self):
        self.old = threading.excepthook
        threading.excepthook = lambda a: None

    def __exit__(self, *a):
        threading.excepthook = self.old


def run_impl(rig, case):
    if case["kind"] == "private":
        try:
            return {"private": bool(rig.srv.is_private_attribute(case["name"]))}
        except Exception as x:
            return {"private": None, "error": type(x).__name__}
    ser = case.get("ser", "serpent")
    if ser not in rig.serializers.serializers:
        ser = "serpent"
    if case["kind"] == "history":
        return rig.run_history(case["shapes"], case["objects"], case["ops"], ser)
    return rig.run_shape(case["shape"], case["reqs"], ser)


def probe_quirks(rig):
    """which variant of the model the tree under test matches, learnt from the four recorded witnesses"""
    def seen(w, acc):
        return any(e[1] == acc for e in run_impl(rig, w)["reqs"][0]["log"])
    w1, w2, w3, w5, w4 = witness_cases()
    forms = []
    for kind, acc in (("getattr", "get"), ("setattr", "set")):
        pos, kw, strict = form_probes()[kind]
        forms.append("AFStarKw" if seen(kw, acc) else "AFStar" if seen(pos, acc) else "AFIndexed" if seen(strict, acc) else "AFStrict")
    return (seen(w1, "get"), seen(w2, "get"), seen(w3, "hcall"), seen(w5, "hook"), seen(w4, "hook"), forms[0], forms[1])


QUIRK_NAMES = ("q_call_runs_getter", "q_attr_private_unchecked", "q_helper_served", "q_hook_getattribute", "q_hook_getattr", "q_get_form", "q_set_form")


def reserved_of(ctx):
    from tools.gen import gen
    st = gen.regenerate(ctx.tree, only=["GenServer"])["GenServer"]
    return list(st["info"]["reserved"]) if st["ok"] else list(BASELINE)


def judge(case, obs):
    """oracle verdicts for any case kind: [(signature, what, reduced case)]"""
    if case["kind"] == "private":
        if obs["private"] is not None and oracle_private(case["name"]) and not obs["private"]:
            return [("private-name-not-private", "is_private_attribute(%r) is False" % case["name"], case)]
        return []
    if case["kind"] == "history":
        return oracle_history(case, obs)
    return oracle(case, obs)


def req_obs(case, obs):
    if case["kind"] == "history":
        return [(op["req"], o) for op, o in zip(case["ops"], obs["ops"]) if op["op"] == "req"]
    return list(zip(case["reqs"], obs["reqs"]))


def execute(ctx, rig, cases, model_ok, res, q, localise=True):
    lits, kept = [], []
    for case in cases:
        obs = run_impl(rig, case)
        if case["kind"] == "private":
            res.seen(case, True)
            res.count("is_private:%s" % obs["private"])
            if obs["private"] is None:
                res.mismatches.append({"component": "C02:is_private", "case": case, "impl": obs})
                continue
        else:
            shape_key = case.get("shape") or case.get("shapes")
            for r, o in req_obs(case, obs):
                res.seen({"s": shape_key, "r": r, "ser": case.get("ser")}, bool(o["log"]) or o["reply"] == "result")
                res.count("%s%s:%s" % (r["kind"], "/oneway" if r["oneway"] else "", o["reply"] if o["wire"] == "ok" else "unserialisable"))
                if o["log"]:
                    res.count("ran:" + ",".join(sorted(set(e[1] for e in o["log"]))))
            if case["kind"] == "history":
                nmeta = sum(1 + len(o.get("nested", [])) for op, o in zip(case["ops"], obs["ops"]) if op["op"] == "meta")
                if any(m["kind"] == "raiser" for sh in case["shapes"] for m in sh["members"]):
                    res.count("history_with_raising_attribute")
                res.evaluations += nmeta
                res.count("history:get_metadata", nmeta)
                res.count("history_classes_%d" % len(case["shapes"]))
            else:
                res.count("members_%d" % min(len(case["shape"]["members"]), 9))
                for m in case["shape"]["members"]:
                    if m["kind"] in ("hook", "helper") or (m["kind"] == "prop" and (m.get("gmark") or m.get("smark") or m.get("dmark"))):
                        res.count("shape_has:" + ("accessor-mark" if m["kind"] == "prop" else m["kind"]))
                    if m["kind"] == "prop" and any(m.get(k) for k in ("gsrc", "ssrc", "dsrc")):
                        res.count("shape_has:accessor-from-elsewhere")
            badreqs = [(r, o) for r, o in req_obs(case, obs) if o["wire"] == "ok" and not representable(o)]
            if badreqs:
                res.mismatches.append({"component": "C02:outcome-vocabulary", "case": case, "impl": badreqs[0][1]})
        for sig, what, sub in judge(case, obs):
            res.violations.append({"signature": sig, "what": what, "case": sub})
        if case["kind"] != "private" and any(o["wire"] == "ok" and not representable(o) for _, o in req_obs(case, obs)):
            continue
        lits.append(c_case(case, obs, q))
        kept.append((case, obs))
    if model_ok and lits:
        bad = vlib.run_cases(ctx, "c", IMPORTS, "case", "check_case", lits, shard=40)
        for idx in bad:
            case, obs = kept[idx]
            if case["kind"] != "shape" or not localise or len(res.mismatches) >= 6:
                comp = {"private": "is_private", "history": "history", "shape": "gate"}[case["kind"]]
                res.mismatches.append({"component": "C02:" + comp, "case": case, "impl": obs})
                continue
            # localise: which requests (or the metadata) disagree
            subs = [dict(case, reqs=[])] + [dict(case, reqs=[r]) for r in case["reqs"]]
            sobs = [dict(obs, reqs=[])] + [dict(obs, reqs=[o]) for o in obs["reqs"]]
            sl = [c_case(c, o, q) for c, o in zip(subs, sobs)]
            sb = vlib.run_cases(ctx, "l", IMPORTS, "case", "check_case", sl, shard=200)
            for j in sb[:3]:
                res.mismatches.append({"component": "C02:" + ("metadata" if j == 0 else "gate"), "case": subs[j],
                                       "impl": {"meta": sobs[j]["meta"], "refused_marks": sobs[j]["refused_marks"], "reqs": sobs[j]["reqs"], "quirks": list(q)}})
            if not sb:
                res.mismatches.append({"component": "C02:gate", "case": case, "impl": "whole case differs, single requests do not"})
    return res


RULE = ("seeded random class shapes (1-9 members: instance/static/class methods, properties with getter/setter/deleter each present or "
        "absent and @expose on the property object or on single accessor functions, class and instance attributes, helper objects "
        "(class exposed directly / through a base / not, callable or not), the class's own __getattr__/__getattribute__ hooks; defined in "
        "base or registered subclass; own @expose / class-level @expose / none; functions bound under other (private) names; reserved "
        "and public dunder names as members) x requested names (every member name, _x/__x/__x__/unicode variants, reserved dunders, "
        "dotted paths, non-strings) x {call, batch, getattr, setattr} x oneway, through serpent/json/marshal/msgpack; histories over "
        "2-4 same-named classes and 2-6 registered objects interleaving get_metadata calls and requests; fixed targeted shapes and "
        "histories; is_private_attribute on ~400 names. One evaluation = one raw INVOKE or one get_metadata of a history; non-trivial "
        "= member code ran or a normal result came back; distinct = distinct (shape(s), request, serializer).")

KINDS = ("shape", "private", "history")


def all_cases(ctx, reserved, nprivate):
    corpus = [c for c in vlib.load_corpus(PROP) if isinstance(c, dict) and c.get("kind") in KINDS]
    return corpus + targeted(reserved) + private_names(ctx.rng, reserved, nprivate) + gen_cases(ctx, reserved)


def run(ctx, model_ok=True):
    res = vlib.Result()
    reserved = reserved_of(ctx)
    rig = c02impl.Rig()
    try:
        with quiet_threads():
            q = probe_quirks(rig)
            res.quirks = dict(zip(QUIRK_NAMES, q))
            cases = all_cases(ctx, reserved, ctx.n(300, 3000))
            execute(ctx, rig, cases, model_ok, res, q)
    finally:
        rig.close()
    res.rule = RULE
    shapes = [c for c in cases if c["kind"] == "shape"]
    hists = [c for c in cases if c["kind"] == "history"]
    res.samples = [{"shape": c["shape"], "ser": c["ser"], "reqs": c["reqs"][:3]} for c in shapes[-2:] + shapes[:1]] + \
                  [{"objects": c["objects"], "ops": c["ops"][:4], "classes": len(c["shapes"])} for c in hists[-1:]]
    res.extra["shapes"] = len(shapes)
    res.extra["histories"] = len(hists)
    return res


def search(ctx, broken):
    """a tie broke: 10x volume, oracle only; names that left the reserved list are requested against classes defining them"""
    res = vlib.Result()
    reserved = reserved_of(ctx)
    rig = c02impl.Rig()
    try:
        with quiet_threads():
            cases = [b["case"] for b in broken if isinstance(b.get("case"), dict) and b["case"].get("kind") in KINDS]
            cases += all_cases(ctx, reserved, 400)
            for case in cases:
                obs = run_impl(rig, case)
                res.seen(case)
                for sig, what, sub in judge(case, obs):
                    res.violations.append({"signature": sig, "what": what, "case": sub})
    finally:
        rig.close()
    # prefer violations in which member code actually ran over the bare predicate disagreement
    res.violations.sort(key=lambda v: v["signature"] == "private-name-not-private")
    return res


def replay(ctx, case):
    rig = c02impl.Rig()
    open_sigs = {k["signature"] for k in vlib.load_known() if k.get("property") == PROP and k.get("status") == "open"}
    try:
        with quiet_threads():
            q = probe_quirks(rig)
            obs = run_impl(rig, case)
            bad = [(s, w) for s, w, _ in judge(case, obs) if s not in open_sigs]
            if bad:
                return True, {"oracle": bad, "impl": obs}
            res = vlib.Result()
            execute(ctx, rig, [case], True, res, q, localise=False)
            if res.mismatches:
                model = ""
                if case["kind"] == "shape":
                    model = vlib.eval_model(ctx, IMPORTS, "match (%s) with SC c => (bad_reqs c, model_meta (c_shape c), map (fun ro => model_req (c_quirks c) (c_shape c) (fst ro)) (c_reqs c)) | _ => ([], ([], [], []), []) end" % c_case(case, obs, q))
                return True, {"mismatch": True, "impl": obs, "quirks": list(q), "model": model[-1500:]}
            return False, {"impl": obs}
    finally:
        rig.close()
