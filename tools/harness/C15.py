"""C15 — name-server atomicity: the same schedules run on Model/NsAtomic.v and on the real
NameServer under the cooperative scheduler; linearizability oracle over the real results."""
import itertools, os, shutil, tempfile
from tools.lib import vlib, coop
from tools.lib.vlib import cN, cnat, cbool, clist, ctext

PROP = "C15"
GEN = ["GenLocks"]
ASSUMPTIONS = [
    "each instrumented storage primitive (dict get/set/del/contains/len, one sqlite transaction) is atomic under the GIL and code between two primitives touches only thread-local state",
    "iteration over the storage is modelled as one snapshot primitive followed by one primitive per item",
    "the lock is threading.RLock (checked by the extractor); re-entrant acquires by the owner are not steps",
    "trace comparison with the Coq model is done for the memory back-end; the sqlite back-end is checked by the linearizability oracle only",
]
IMPORTS = "From V Require Import Model.Bytes Model.Atomic Model.NsAtomic Harness.Cmp Harness.H15."
POST_RELEASE = False
NSNAME = "Pyro.NameServer"
NAMES = ["a", "ab", "abc", "b", "ba", NSNAME, "Pyro.x"]


def uri_of(v):
    return "PYRO:obj%d@h:%d" % (v, 1000 + v)


def val_of(uri):
    s = str(uri)
    return int(s[len("PYRO:obj"):s.index("@")])


class StorageProxy:
    """instrumented twin of the storage object: a yield point before every primitive"""
    def __init__(self, real, ctl, memory):
        self._r, self._c, self._mem = real, ctl, memory

    def __contains__(self, k):
        self._c.yield_point("access", "contains")
        return k in self._r

    def __getitem__(self, k):
        self._c.yield_point("access", "getitem")
        return self._r[k]

    def __setitem__(self, k, v):
        self._c.yield_point("access", "setitem")
        self._r[k] = v

    def __delitem__(self, k):
        self._c.yield_point("access", "delitem")
        del self._r[k]

    def __len__(self):
        self._c.yield_point("access", "len")
        return len(self._r)

    def __iter__(self):
        self._c.yield_point("access", "iter")
        return iter(list(self._r))

    def everything(self, return_metadata=False):
        self._c.yield_point("access", "everything")
        return self._r.everything(return_metadata)

    def optimized_prefix_list(self, prefix, return_metadata=False):
        if self._mem:
            return self._r.optimized_prefix_list(prefix, return_metadata)
        self._c.yield_point("access", "prefix_list")
        return self._r.optimized_prefix_list(prefix, return_metadata)

    def optimized_regex_list(self, regex, return_metadata=False):
        if self._mem:
            return self._r.optimized_regex_list(regex, return_metadata)
        self._c.yield_point("access", "regex_list")
        return self._r.optimized_regex_list(regex, return_metadata)

    def optimized_metadata_search(self, *a, **kw):
        if self._mem:
            return self._r.optimized_metadata_search(*a, **kw)
        self._c.yield_point("access", "metadata_search")
        return self._r.optimized_metadata_search(*a, **kw)

    def remove_items(self, items):
        if self._mem:
            # MemoryStorage.remove_items, one primitive per dict operation
            for item in items:
                if item in self:
                    del self[item]
            return
        self._c.yield_point("access", "remove_items")
        return self._r.remove_items(items)


def do_op(ns, op):
    from Pyro5.errors import NamingError
    try:
        k = op[0]
        if k == "register":
            # the metadata tag repeats the value token, so that a lookup can tell a torn (uri, metadata) pair
            ns.register(op[1], uri_of(op[2]), safe=op[3], metadata={"m%d" % op[2]})
            return ["ok"]
        if k == "remove_name":
            return ["count", ns.remove(name=op[1])]
        if k == "remove_prefix":
            return ["count", ns.remove(prefix=op[1])]
        if k == "lookup":
            uri, meta = ns.lookup(op[1], return_metadata=True)
            v = val_of(uri)
            tags = [int(t[1:]) for t in meta if t.startswith("m") and t[1:].isdigit()]
            if tags and tags != [v]:
                return ["internal_error", "torn-read:uri=%d,metadata=%r" % (v, sorted(tags))]
            return ["val", v]
        if k == "count":
            return ["count", ns.count()]
        if k == "list_all":
            return ["list", [[n, val_of(u)] for n, u in ns.list().items()]]
        if k == "list_prefix":
            return ["list", [[n, val_of(u)] for n, u in ns.list(prefix=op[1]).items()]]
        if k == "set_meta":
            ns.set_metadata(op[1], ["t"])
            return ["ok"]
        raise ValueError(k)
    except NamingError:
        return ["naming_error"]
    except Exception as x:
        return ["internal_error", type(x).__name__]


def run_impl(case, backend="memory"):
    """returns dict(final=[[name,val]..], results=[[res..]..], done=[bool..], history=[(thread, opidx, invoke, ret)])"""
    from Pyro5 import nameserver
    tmpdir = None
    if backend == "memory":
        storage = nameserver.MemoryStorage()
    else:
        tmpdir = tempfile.mkdtemp(prefix="c15_")
        storage = nameserver.SqlStorage(os.path.join(tmpdir, "ns.sqlite"))
    try:
        ns = nameserver.NameServer(storage)
        for n, v in case["store"]:
            ns.register(n, uri_of(v), metadata={"m%d" % v})
        ctl = coop.Controller()
        ctl.post_release = POST_RELEASE or bool(case.get("post_release"))
        ns.storage = StorageProxy(storage, ctl, backend == "memory")
        # the name server's own lock becomes a cooperative one (acquire/release are yield points); when the code
        # under test installed something that is not a lock at all (e.g. a null context manager), it is left alone
        # so that the missing exclusion shows in the schedules
        if hasattr(getattr(ns, "lock", None), "acquire"):
            ns.lock = coop.CoopRLock(ctl)
        results = [[] for _ in case["progs"]]
        history = []

        def mk(i, ops):
            def body():
                for j, op in enumerate(ops):
                    inv = ctl.clock
                    r = do_op(ns, op)
                    results[i].append(r)
                    history.append((i, j, inv, ctl.clock))
            return body
        for i, ops in enumerate(case["progs"]):
            ctl.spawn(mk(i, ops))
        try:
            ctl.start()
            ctl.run(case["sched"])
        except coop.HarnessStuck:
            # a thread blocked on a lock the scheduler does not control: let everybody run free so that no
            # leaked thread keeps such a lock, then report the case as unschedulable
            ctl.yield_point = lambda *a, **k: None
            for w in ctl.workers:
                for _ in range(2000):
                    w.go.release()
            for w in ctl.workers:
                if w.thread.is_alive():
                    w.thread.join(2.0)
            raise
        done = [w.done for w in ctl.workers]
        import copy
        results_snapshot = copy.deepcopy(results)
        history_snapshot = list(history)
        trace_len = len(ctl.trace)
        # canonical order of the final store: the storage's own iteration order (dict order / sql)
        final = [[n, val_of(u)] for n, u in storage.everything().items()]
        if backend != "memory":
            final.sort()
        if not all(done):
            ctl.abandon()
        errs = [repr(w.error) for w in ctl.workers if w.error is not None]
        return {"final": final, "results": results_snapshot, "done": done, "history": history_snapshot,
                "trace_len": trace_len, "errors": errs, "trace": [(t, k) for t, k in ctl.trace[:trace_len]]}
    finally:
        try:
            storage.close()
        except Exception:
            pass
        if tmpdir:
            shutil.rmtree(tmpdir, ignore_errors=True)


# ---------------------------------------------------------------- sequential specification + linearizability oracle
def spec_apply(store, op):
    """store: dict name->val (insertion ordered). returns result in do_op's vocabulary"""
    k = op[0]
    if k == "register":
        if op[3] and op[1] in store:
            return ["naming_error"]
        store[op[1]] = op[2]
        return ["ok"]
    if k == "remove_name":
        if op[1] and op[1] in store and op[1] != NSNAME:
            del store[op[1]]
            return ["count", 1]
        return ["count", 0]
    if k == "remove_prefix":
        items = [n for n in store if n.startswith(op[1]) and n != NSNAME]
        for n in items:
            del store[n]
        return ["count", len(items)]
    if k == "lookup":
        return ["val", store[op[1]]] if op[1] in store else ["naming_error"]
    if k == "count":
        return ["count", len(store)]
    if k == "list_all":
        return ["list", sorted([n, v] for n, v in store.items())]
    if k == "list_prefix":
        return ["list", sorted([n, v] for n, v in store.items() if n.startswith(op[1]))]
    if k == "set_meta":
        return ["ok"] if op[1] in store else ["naming_error"]


def canon(r):
    return ["list", sorted(r[1])] if r[0] == "list" else r


def linearizable(case, obs):
    """is there a total order of the *completed* operations, consistent with real time (an op that returned
    before another was invoked comes first) and program order, that yields every observed result and the final
    store?  (pending operations of unfinished threads may or may not have taken effect: only complete runs are judged)"""
    ops = []
    for (t, j, inv, ret) in obs["history"]:
        ops.append((t, j, inv, ret, case["progs"][t][j], canon(obs["results"][t][j])))
    n = len(ops)
    if n > 7:
        return True
    for perm in itertools.permutations(range(n)):
        ok = True
        pos = {p: i for i, p in enumerate(perm)}
        for a in range(n):
            for b in range(n):
                if a != b and ops[a][3] < ops[b][2] and pos[a] > pos[b]:    # a returned before b was invoked
                    ok = False
                    break
                if a != b and ops[a][0] == ops[b][0] and ops[a][1] < ops[b][1] and pos[a] > pos[b]:
                    ok = False
                    break
            if not ok:
                break
        if not ok:
            continue
        store = dict((n_, v) for n_, v in case["store"])
        for p in perm:
            if spec_apply(store, ops[p][4]) != ops[p][5]:
                ok = False
                break
        if ok and sorted([k, v] for k, v in store.items()) == sorted(obs["final"]):
            return True
    return False


def oracle(case, obs):
    bad = []
    for rs in obs["results"]:
        for r in rs:
            if r[0] == "internal_error":
                bad.append(("internal-error:" + r[1], "an operation failed with an internal error (%s) under concurrency" % r[1]))
    if obs["errors"]:
        bad.append(("thread-exception", "a client thread died: " + obs["errors"][0]))
    if all(obs["done"]) and not bad:
        # the special cases the property names
        if not linearizable(case, obs):
            bad.append(("not-linearizable", "no sequential order of the completed operations explains the observed results and final state"))
    return bad


# ---------------------------------------------------------------- Gallina encodings
def c_name(n):
    return ctext(n)


def c_op(op):
    k = op[0]
    if k == "register":
        return "Register %s %s %s" % (c_name(op[1]), cN(op[2]), cbool(op[3]))
    if k == "remove_name":
        return "RemoveName %s" % c_name(op[1])
    if k == "remove_prefix":
        return "RemovePrefix %s" % c_name(op[1])
    if k == "lookup":
        return "Lookup %s" % c_name(op[1])
    if k == "count":
        return "Count"
    if k == "list_all":
        return "ListAll"
    if k == "list_prefix":
        return "ListPrefix %s" % c_name(op[1])
    if k == "set_meta":
        return "SetMeta %s" % c_name(op[1])


def c_store(st):
    return clist(["(%s, %s)" % (c_name(n), cN(v)) for n, v in st])


def c_res(r):
    if r[0] == "ok":
        return "ROk"
    if r[0] == "naming_error":
        return "RNamingError"
    if r[0] == "internal_error":
        return "RInternalError"
    if r[0] == "count":
        return "RCount %s" % cnat(r[1])
    if r[0] == "val":
        return "RVal %s" % cN(r[1])
    if r[0] == "list":
        return "RList %s" % c_store(r[1])


def c_case(case, obs):
    return "{| c_store := %s; c_progs := %s; c_sched := %s; c_final := %s; c_results := %s; c_done := %s |}" % (
        c_store(case["store"]), clist([clist([c_op(o) for o in ops]) for ops in case["progs"]]),
        clist([cnat(t) for t in case["sched"]]), c_store(obs["final"]),
        clist([clist([c_res(r) for r in rs]) for rs in obs["results"]]), clist([cbool(d) for d in obs["done"]]))


# ---------------------------------------------------------------- generators
def gen_op(rng, hot):
    n = rng.choice(hot + hot + NAMES)
    k = rng.random()
    if k < 0.22:
        return ["register", n, rng.randrange(1, 9), rng.random() < 0.6]
    if k < 0.44:
        return ["remove_name", n]
    if k < 0.56:
        return ["remove_prefix", rng.choice(["a", "ab", "b", "P", "Pyro."])]
    if k < 0.70:
        return ["lookup", n]
    if k < 0.76:
        return ["count"]
    if k < 0.84:
        return ["list_all"]
    if k < 0.92:
        return ["list_prefix", rng.choice(["a", "ab", "b", "Pyro"])]
    return ["set_meta", n]


def drain(nthreads, k=40):
    one = []
    for t in range(nthreads):
        one += [t] * k
    return one * nthreads


def gen_case(rng, complete=True):
    hot = rng.sample(NAMES, 2)
    store = []
    for n in rng.sample(NAMES, rng.randint(0, 5)):
        store.append([n, rng.randrange(10, 19)])
    if rng.random() < 0.7 and NSNAME not in [n for n, _ in store]:
        store.append([NSNAME, 9])
    nt = rng.choice([2, 2, 2, 3])
    progs = [[gen_op(rng, hot) for _ in range(rng.choice([1, 1, 2]))] for _ in range(nt)]
    sched = [rng.randrange(nt) for _ in range(rng.randint(0, 30))]
    if complete:
        sched += drain(nt)
    return {"store": store, "progs": progs, "sched": sched}


def family_cases():
    """the races the property names, with every schedule of two preemption points"""
    out = []
    base = [["x", 11], [NSNAME, 9]]
    fams = [
        (base, [[["remove_name", "x"]], [["remove_name", "x"]]]),
        ([[NSNAME, 9]], [[["register", "n", 1, True]], [["register", "n", 2, True]]]),
        ([["a", 1], ["ab", 2], ["abc", 3]], [[["remove_prefix", "a"]], [["lookup", "abc"], ["lookup", "a"]]]),
        ([["a", 1], ["ab", 2]], [[["remove_prefix", "a"]], [["count"], ["list_all"]]]),
        ([["a", 1]], [[["set_meta", "a"]], [["remove_name", "a"], ["lookup", "a"]]]),
        # a reader that looks names up in deletion order must never see "first gone, later still there"
        ([["a", 1], ["ab", 2], ["abc", 3]], [[["remove_prefix", "a"]], [["lookup", "a"], ["lookup", "abc"]]]),
        ([["a", 1], ["ab", 2]], [[["remove_prefix", "a"]], [["lookup", "a"], ["lookup", "ab"], ["count"]]]),
        # listings taken before / after a registration that completes while the first listing is in flight
        ([["a", 1]], [[["list_all"], ["list_all"]], [["register", "n", 2, True]]]),
        ([["a", 1]], [[["list_all"]], [["register", "n", 2, True], ["list_all"]]]),
        ([["a", 1], ["b", 2]], [[["list_all"], ["count"]], [["remove_name", "a"], ["list_all"]]]),
        ([["a", 1], ["ab", 2]], [[["remove_prefix", "a"]], [["remove_name", "ab"]], [["register", "ab", 5, True]]]),
    ]
    for store, progs in fams:
        nt = len(progs)
        for i in range(0, 9):
            for j in range(0, 7):
                sched = [0] * i + [1] * j + ([2] * 3 if nt > 2 else []) + drain(nt)
                out.append({"store": store, "progs": progs, "sched": sched})
    return out


def short(obs):
    return {k: obs[k] for k in ("final", "results", "done", "errors")}


def lock_order(case, obs):
    """the order in which the operations took the lock, if the run is one in which every operation took the lock exactly
    once and every storage access happened while its thread held it (else None): such a run is compared with the
    atomic semantics in that order when the step-by-step comparison fails (Harness/H15.v, check_case_atomic)"""
    if not all(obs["done"]) or obs["errors"]:
        return None
    holder, order, acq = None, [], {}
    for t, kind in obs["trace"]:
        if kind == "acquire":
            if holder is not None:
                return None
            holder = t
            order.append(t)
            acq[t] = acq.get(t, 0) + 1
        elif kind == "release":
            if holder != t:
                return None
            holder = None
        elif kind == "access":
            if holder != t:
                return None
    if holder is not None or any(acq.get(i, 0) != len(ops) for i, ops in enumerate(case["progs"])):
        return None
    return order


def execute(ctx, cases, model_ok, res, sql_every=7):
    lits, kept = [], []
    for i, case in enumerate(cases):
        try:
            obs = run_impl(case, "memory")
        except coop.HarnessStuck:
            # a controlled thread blocked on a lock the scheduler does not know (the code under test no longer
            # uses NameServer.lock): this schedule cannot be played; count it and go on with shorter patience
            res.count("unschedulable")
            coop.TIMEOUT = 1.0
            continue
        nontriv = sum(len(p) for p in case["progs"]) >= 2 and obs["trace_len"] >= 4
        res.seen(case, nontriv)
        res.count("threads_%d" % len(case["progs"]))
        res.count("complete" if all(obs["done"]) else "incomplete")
        for ops in case["progs"]:
            for op in ops:
                res.count("op:" + op[0])
        for sig, what in oracle(case, obs):
            res.violations.append({"signature": sig, "what": what, "case": dict(case, backend="memory", post_release=POST_RELEASE)})
        lits.append(c_case(case, obs))
        kept.append((case, obs))
        if i % sql_every == 0:
            try:
                sobs = run_impl(case, "sql")
            except coop.HarnessStuck:
                res.count("unschedulable")
                coop.TIMEOUT = 1.0
                continue
            res.count("sql_runs")
            for sig, what in oracle(case, sobs):
                res.violations.append({"signature": "sql:" + sig, "what": what + " (sqlite back-end)", "case": dict(case, backend="sql", post_release=POST_RELEASE)})
    if model_ok:
        failed = list(vlib.run_cases(ctx, "c", IMPORTS, "case", "check_case", lits, shard=120))
        coarse, coarse_idx = [], []
        for idx in failed:
            case, obs = kept[idx]
            order = lock_order(case, obs)
            if order is None:
                res.mismatches.append({"component": "C15", "case": case, "impl": short(obs)})
            else:
                coarse.append("{| a_case := %s; a_order := %s |}" % (lits[idx], clist([cnat(t) for t in order])))
                coarse_idx.append(idx)
        if coarse:
            still = set(vlib.run_cases(ctx, "ca", IMPORTS, "acase", "check_case_atomic", coarse, shard=120))
            for j, idx in enumerate(coarse_idx):
                case, obs = kept[idx]
                if j in still:
                    res.mismatches.append({"component": "C15", "case": case, "impl": short(obs)})
                else:
                    res.count("agrees_at_operation_granularity_only")
    return res


def all_cases(ctx):
    rng = ctx.rng
    cases = vlib.load_corpus(PROP) + family_cases()
    for _ in range(ctx.n(700, 6000)):
        cases.append(gen_case(rng, complete=True))
    return cases


def run(ctx, model_ok=True):
    res = vlib.Result()
    cases = all_cases(ctx)
    execute(ctx, cases, model_ok, res)
    res.rule = ("2-3 client threads with 1-2 name-server operations each (safe/unsafe register, remove by name/prefix, lookup, count, "
                "list, set_metadata) on shared names; schedules: for six race families every placement of two preemption points, "
                "then seeded random prefixes followed by a deterministic drain; one scheduler step = one storage primitive / lock "
                "acquire / release. non-trivial = at least two operations and four effective steps; distinct = case hash")
    res.samples = [cases[len(cases) // 2], cases[-1]]
    return res


def search(ctx, broken):
    # the tie is broken (no model comparison any more): also preempt right after every lock release, which exposes
    # code that moved out of a critical section
    global POST_RELEASE
    POST_RELEASE = True
    res = vlib.Result()
    cases = [b["case"] for b in broken if b.get("case")] + all_cases(ctx)
    execute(ctx, cases, False, res, sql_every=3)
    return res


def replay(ctx, case):
    backend = case.get("backend", "memory")
    obs = run_impl(case, backend)
    bad = oracle(case, obs)
    if bad:
        return True, {"oracle": bad, "impl": short(obs)}
    if backend == "memory":
        res = vlib.Result()
        execute(ctx, [case], True, res, sql_every=10 ** 9)
        if res.mismatches:
            model = vlib.eval_model(ctx, IMPORTS, "model_case (%s)" % c_case(case, obs))
            return True, {"mismatch": True, "impl": short(obs), "model": model[-2000:]}
    return False, {"impl": short(obs)}
