"""C08 — nothing is invoked on a connection before an accepted handshake.

Real daemons (thread-pool and multiplex transport servers, real request loops, real sockets on
127.0.0.1; tools/lib/rawdrv.py) are driven by raw client sockets that play *segments* (several wire
messages written in ONE send, so that whatever follows a failing first message is pipelined behind it in
the same TCP segment).  After every segment the driver sends a sync PING and reads until its pong or
EOF/RESET, which tells which replies belong to the segment and whether the server closed the connection.
The registered objects log every execution (peer port, token): the application object "t" and the daemon's own
built-in Pyro.Daemon object (replaced by a logging subclass through Daemon(interface=...)).

Environments (run one after the other, the transport configuration is process-global):
  plain     both server types, no COMMTIMEOUT; segments may end with the peer going away (EOF / a message cut short,
            then shutdown of the sending side)
  timeout   both server types with COMMTIMEOUT: single-connection cases with *silence* events
  poolfull  thread server with THREADPOOL_SIZE=2 whose two workers are parked in a blocking call: every new
            connection is refused by denyConnection from the accept loop
  abort     throw-away servers: the validator raises a BaseException-only class (open finding)

  oracle          the property stated directly over these observations (no model involved)
  correspondence  the same case, with every message *classified* (type, well-formedness, serializer known?,
                  what the payload decodes to with the real serializer, validator behaviour), is evaluated by
                  Model/HandshakeGate.v inside Coq (Harness/H08.v) and compared segment by segment.
"""
import json, socket, struct, sys, threading, time, zlib
from tools.lib import vlib
from tools.lib import rawdrv as rd
from tools.lib.vlib import cN, cnat, cbool, clist

PROP = "C08"
GEN = ["GenHandshake", "GenProtocol"]
ASSUMPTIONS = [
    "message classification (does the payload decode, to what) is computed with the tree's own serializers; the model takes it as input",
    "validator behaviours modelled: returns any value / raises any Exception subclass / raises a BaseException-only class (SystemExit, KeyboardInterrupt, GeneratorExit, a user subclass)",
    "a peer that goes away does so with a half-close after a prefix of an otherwise acceptable message (so that the daemon's reaction stays observable); resets in the middle of the daemon's answer are C05 territory",
    "silence is only an event when COMMTIMEOUT is configured; silence cases use one connection at a time (time passes for every connection)",
    "executions on the built-in Pyro.Daemon object are observed through a logging subclass given to Daemon(interface=...); its internal use by _handshake (get_metadata) is not counted as a call",
    "pre-connected socket pairs (svr_existingconn) are exempt by the property text",
]
IMPORTS = "From V Require Import Model.HandshakeGate Harness.Cmp Harness.H08."

SYNC_BASE = 60000
RECV_TIMEOUT = 2.5      # only ever waited out when the daemon neither answers nor closes (never on a correct tree)
RECV_TIMEOUT_AFTER_MANY = 0.3   # once 20 such silences were seen (a broken tree), stop paying for them
OBJ = "t"
KNOWN_SIGS = ("silent-close-unknown-serializer", "silent-close-validator-connclosed", "validator-baseexception-unanswered")
COMMTO = 0.5            # COMMTIMEOUT of the timeout / poolfull environments
ABORT_RECV_TIMEOUT = 0.4
DAEMON_OBJ = "Pyro.Daemon"
POOL_IDS = ["a", "b", "w", "v"]          # ids the application registers / unregisters during a case
OBJNUM = {DAEMON_OBJ: 0, "t": 1, "a": 2, "b": 3, "w": 4, "v": 5}


def objnum(o):
    """the model's number of an object id (None: not usable as an id at all)"""
    try:
        hash(o)
    except Exception:
        return None
    if isinstance(o, str) and o in OBJNUM:
        return OBJNUM[o]
    return 1000 + zlib.crc32(repr(o).encode()) % 100000


def is_app(item):
    return isinstance(item, dict) and "app" in item


def registry_timeline(case):
    """the application's own view: the set of registered ids before each position of case["order"] (and after the last)"""
    reg = {DAEMON_OBJ} | set(case.get("reg0", [OBJ]))
    out = []
    for it in case["order"]:
        out.append(set(reg))
        if is_app(it):
            if it["app"] == "register":
                reg.add(it["id"])
            elif it["id"] != DAEMON_OBJ:
                reg.discard(it["id"])
    out.append(set(reg))
    return out
ENV_ORDER = ["plain", "timeout", "poolfull", "abort"]
PARK = threading.Event()

EXEC_LOG = []      # (peer port, token, method, on the daemon object?)


def _exc_table():
    from Pyro5 import errors

    class CustomError(Exception):
        pass

    class CustomConnClosed(errors.ConnectionClosedError):
        pass

    class OddStr(Exception):
        def __str__(self):
            return "odd<%s>" % (self.args[0] if self.args else "")
    import socket
    t = {"Exception": Exception, "ValueError": ValueError, "KeyError": KeyError, "TypeError": TypeError,
         "RuntimeError": RuntimeError, "OSError": OSError, "PermissionError": PermissionError,
         "AssertionError": AssertionError, "LookupError": LookupError, "StopIteration": StopIteration,
         "ZeroDivisionError": ZeroDivisionError, "MemoryError": MemoryError, "NotImplementedError": NotImplementedError,
         "UnicodeError": UnicodeError, "ConnectionResetError": ConnectionResetError, "BrokenPipeError": BrokenPipeError,
         "socket.timeout": socket.timeout, "EOFError": EOFError,
         "PyroError": errors.PyroError, "CommunicationError": errors.CommunicationError,
         "ConnectionClosedError": errors.ConnectionClosedError, "Pyro.TimeoutError": errors.TimeoutError,
         "ProtocolError": errors.ProtocolError, "SecurityError": errors.SecurityError,
         "SerializeError": errors.SerializeError, "DaemonError": errors.DaemonError, "NamingError": errors.NamingError,
         "MessageTooLargeError": errors.MessageTooLargeError,
         "CustomError": CustomError, "CustomConnClosed": CustomConnClosed, "OddStr": OddStr}

    class StopServer(BaseException):
        pass
    t.update({"SystemExit": SystemExit, "KeyboardInterrupt": KeyboardInterrupt, "GeneratorExit": GeneratorExit, "StopServer": StopServer})
    return t


ABORT_NAMES = ["SystemExit", "KeyboardInterrupt", "GeneratorExit", "StopServer"]


EXC_NAMES = ["Exception", "ValueError", "KeyError", "TypeError", "RuntimeError", "OSError", "PermissionError",
             "AssertionError", "LookupError", "StopIteration", "ZeroDivisionError", "MemoryError", "NotImplementedError",
             "UnicodeError", "ConnectionResetError", "BrokenPipeError", "socket.timeout", "EOFError", "PyroError",
             "CommunicationError", "ConnectionClosedError", "Pyro.TimeoutError", "ProtocolError", "SecurityError",
             "SerializeError", "DaemonError", "NamingError", "MessageTooLargeError", "CustomError", "CustomConnClosed", "OddStr"]

# values a validator may return (name -> factory); several are falsy, several cannot be serialised
VALUES = {"hello": lambda: "hello", "none": lambda: None, "false": lambda: False, "zero": lambda: 0, "empty": lambda: "",
          "list": lambda: [], "dict": lambda: {"k": [1, 2]}, "int": lambda: 12345, "float": lambda: 3.5,
          "tuple": lambda: ("a", "b"), "true": lambda: True, "bytes": lambda: b"ab",
          "object": lambda: object(), "lock": lambda: threading.Lock(), "type": lambda: int}
VALUE_NAMES = sorted(VALUES)


class Env:
    """the real daemons of the current environment (plain / timeout / poolfull / abort)"""
    def __init__(self):
        self.servers = {}
        self.envname = None
        self.vb = {}          # peer port -> validator behaviour spec
        self.exc = None
        self.quirks = {}
        self.q3 = None
        self.deny_reason = "no free workers, increase server threadpool size"   # replaced by the literal found in the source
        self.silences = 0
        self.fillers = []
        self.saved_hook = None

    def server(self, sty, envname="plain"):
        if self.envname != envname:
            self.stop()
            self.envname = envname
        if sty not in self.servers:
            self.servers[sty] = self._start(sty, envname)
        return self.servers[sty]

    def _start(self, sty, envname):
        import Pyro5.api as api
        import Pyro5.server
        if self.exc is None:
            self.exc = _exc_table()
        env = self

        def validator(conn, data):
            port = conn.sock.getpeername()[1]
            b = env.vb.get(port) or env.vb.get(None) or {"kind": "accept", "value": "hello"}
            if b["kind"] == "raise":
                raise env.exc[b["cls"]](b["msg"])
            if b["kind"] == "abort":
                raise env.exc[b["cls"]]()
            return VALUES[b["value"]]()

        class Target(object):
            @api.expose
            def ok(self, tok):
                EXEC_LOG.append((_peer_port(), tok, "ok", False))
                return tok

            @api.expose
            def boom(self, tok):
                EXEC_LOG.append((_peer_port(), tok, "boom", False))
                raise ValueError("boom %r" % (tok,))

            @api.expose
            def park(self, tok):            # keeps a worker of the thread pool busy until released
                EXEC_LOG.append((_peer_port(), tok, "park", False))
                PARK.wait(60)
                return tok

            def hidden(self, tok):          # not exposed: must never run
                EXEC_LOG.append((_peer_port(), tok, "hidden", False))
                return tok

            def _private(self, tok):
                EXEC_LOG.append((_peer_port(), tok, "_private", False))
                return tok

        def remote_call():
            """is this invocation dispatched by Daemon.handleRequest (directly, or in one of its oneway threads)?"""
            if type(threading.current_thread()).__name__ == "_OnewayCallThread":
                return True
            f = sys._getframe(2)
            while f is not None:
                if f.f_code.co_name == "handleRequest":
                    return True
                f = f.f_back
            return False

        def dlog(name):
            from Pyro5.api import current_context
            EXEC_LOG.append((_peer_port(), current_context.seq, name, True))

        @api.expose
        class LoggingDaemonObject(Pyro5.server.DaemonObject):
            """the daemon's own Pyro object; every remote call is logged with the request's sequence number"""
            def registered(self):
                dlog("registered")
                return super().registered()

            def ping(self):
                dlog("ping")
                return super().ping()

            def info(self):
                dlog("info")
                return super().info()

            def get_metadata(self, objectId):
                if remote_call():            # the daemon's own lookups (the handshake's) are not calls on behalf of a peer
                    dlog("get_metadata")
                return super().get_metadata(objectId)

            def get_next_stream_item(self, streamId):
                dlog("get_next_stream_item")
                return super().get_next_stream_item(streamId)

            def close_stream(self, streamId):
                dlog("close_stream")
                return super().close_stream(streamId)
        kw = {"validator": validator, "daemon_kwargs": {"interface": LoggingDaemonObject}}
        if envname == "plain":
            srv = rd.Server(sty, pool_size=64, pool_min=4, **kw).start()
        elif envname == "timeout":
            srv = rd.Server(sty, commtimeout=COMMTO, pool_size=64, pool_min=4, **kw).start()
        elif envname == "poolfull":
            srv = rd.Server("thread", commtimeout=COMMTO, pool_size=2, pool_min=1, **kw).start()
        else:
            # the validator of this environment kills worker threads with SystemExit & co: keep their tracebacks off stderr
            if self.saved_hook is None:
                self.saved_hook = threading.excepthook
                threading.excepthook = lambda args: None
            srv = rd.Server(sty, pool_size=8, pool_min=1, **kw).start()
        base = Target()
        srv.register(base, OBJ)
        srv.c08_target, srv.c08_objs = Target, {OBJ: base}       # for the application-side register / unregister events
        if envname == "poolfull":
            PARK.clear()
            del EXEC_LOG[:]
            for k in range(2):
                c, m = rd.handshake(srv.port, OBJ, timeout=5.0)
                c.send(rd.invoke_msg(OBJ, "park", (900000 + k,), seq=1))
                self.fillers.append(c)
            t0 = time.time()
            while len([e for e in EXEC_LOG if e[2] == "park"]) < 2 and time.time() - t0 < 5:
                time.sleep(0.002)
        return srv

    def base_busy(self):
        return len(self.fillers)

    def stop(self):
        PARK.set()
        for c in self.fillers:
            c.close()
        self.fillers = []
        for sty in reversed(list(self.servers)):
            try:
                self.servers[sty].stop()
            except Exception:
                pass
        self.servers = {}
        self.envname = None
        if self.saved_hook is not None:
            threading.excepthook = self.saved_hook
            self.saved_hook = None


def _peer_port():
    from Pyro5.api import current_context
    try:
        return current_context.client_sock_addr[1]
    except Exception:
        try:
            return current_context.client.sock.getpeername()[1]
        except Exception:
            return None


# ---------------------------------------------------------------- building and classifying messages
def known_serializers():
    from Pyro5 import serializers
    return dict(serializers.serializers_by_id)


def hs_value(p):
    shape = p.get("shape", "full")
    obj = p.get("obj", OBJ)
    return {"full": {"handshake": "hello", "object": obj}, "nohandshake": {"object": obj, "other": 1},
            "noobject": {"handshake": "x"}, "list": ["handshake", "object"], "str": "handshake", "int": 5,
            "objlist": {"handshake": "h", "object": [1, 2]}, "extra": {"handshake": {"a": 1}, "object": obj, "more": [1]},
            "none": None}[shape]


def payload_bytes(spec, ser):
    """ser: a serializer object (the request's own, or serpent when the id is unknown)"""
    p = spec["payload"]
    k = p["k"]
    if k == "hs":
        return ser.dumps(hs_value(p))
    if k == "call":
        return ser.dumpsCall(p["obj"], p["method"], (p["tok"],), {})
    if k == "call_evil":
        return ser.dumpsCall(p["obj"], p["method"], ({"__class__": "builtins.__evil__"},), {})
    if k == "call_badargs":
        return ser.dumpsCall(p["obj"], p["method"], (p["tok"], 1, 2), {"zz": 1})
    if k == "dcall":        # a call on the daemon's own object; the token of such a call is the message's seq
        return ser.dumpsCall(DAEMON_OBJ, p["method"], tuple(p.get("args", [])), {})
    if k == "raw":
        return bytes.fromhex(p["hex"])
    raise ValueError(k)


def is_special(item):
    return "special" in item


def special_bytes(item):
    """bytes a peer sends before it goes away: a proper prefix of an otherwise acceptable message (or nothing)"""
    if item["special"] == "gone" and item.get("trunc"):
        data = build_message(item["trunc"])
        return data[:max(0, min(item.get("cut", 0), len(data) - 1))]
    return b""


def build_message(spec):
    """wire bytes of one message spec (real encoder, then structure-aware damage)"""
    from Pyro5 import protocol
    sers = known_serializers()
    ser = sers.get(spec["ser"]) or sers[1]
    body = payload_bytes(spec, ser)
    wfk = spec["wf"]
    flags = spec["flags"] & ~protocol.FLAGS_COMPRESSED
    compressed = bool(spec["flags"] & protocol.FLAGS_COMPRESSED)
    if wfk.startswith("hdr:short"):
        # fewer bytes than a header, and already wrong in the first six: the daemon can (and does) refuse without waiting for more
        pad = bytes((spec["seq"] * 7 + i * 13) % 251 for i in range(spec.get("pad", 0) % 34))
        if wfk == "hdr:short6":
            return b"GET /\n"
        if wfk == "hdr:shortver":
            return b"PYRO" + struct.pack("!H", (protocol.PROTOCOL_VERSION + 1) & 0xffff) + pad
        return b"HELO" + b"\r\n" + pad
    if wfk == "hdr:garbage":
        return (b"GET /pyro HTTP/1.1\r\nHost: localhost\r\nAccept: */*\r\n\r\n" + b"x" * 16)
    ann = None
    if wfk in ("body:tile", "body:annid"):
        ann = {"ABCD": b"xy"}
    elif spec.get("ann"):
        ann = {"HARN": b"\x01\x02\x03"}
    if compressed and wfk != "body:zlib":
        body = zlib.compress(body, 4)
    data = bytearray(rd.raw_msg(spec["type"], flags, spec["seq"], spec["ser"], body, ann))
    if compressed or wfk == "body:zlib":
        f = struct.unpack("!H", data[8:10])[0] | protocol.FLAGS_COMPRESSED
        data[8:10] = struct.pack("!H", f)
    if wfk == "hdr:tag":
        data[0:4] = b"PYRX"
    elif wfk == "hdr:version":
        data[4:6] = struct.pack("!H", (protocol.PROTOCOL_VERSION + 1) & 0xffff)
    elif wfk == "hdr:magic":
        data[38:40] = bytes([data[38] ^ 0xff, data[39] ^ 0x5a])
    elif wfk == "hdr:size":
        data[12:16] = struct.pack("!I", 0xfffffff0)
        del data[40:]
    elif wfk == "body:tile":
        data[44:48] = struct.pack("!I", 100)
    elif wfk == "body:annid":
        data[40:44] = b"\xff\xfe\xfd\xfc"
    return bytes(data)


def classify(spec, registered, vbspec, exc_table):
    """classification of a message spec = the model's input.  Uses the tree's serializers to learn what the
    payload decodes to, mirroring the accesses the daemon makes (data["handshake"], data["object"], 4-tuple unpack).
    `registered`: the ids the APPLICATION has registered at this moment (only used to say what get_metadata(id) does)."""
    from Pyro5 import errors, protocol
    sers = known_serializers()
    known = spec["ser"] in sers
    wf = "WfOk" if spec["wf"] == "ok" else ("WfBadHeader" if spec["wf"].startswith("hdr:") else "WfBadBody")
    hs, call, hs_obj = "HsUndecodable", "CpFail DfKeep", None
    if known and wf == "WfOk":
        ser = sers[spec["ser"]]
        body = payload_bytes(spec, ser)
        # as a handshake request
        try:
            data = ser.loads(body)
        except Exception:
            hs = "HsUndecodable"
        else:
            try:
                data["handshake"]
            except Exception:
                hs = "HsNoHandshakeKey"
            else:
                try:
                    o = data["object"]
                except Exception:
                    hs = "HsNoObjectKey"
                else:
                    n = objnum(o)
                    hs = "HsFull ObjBad" if n is None else "HsFull (ObjId %s)" % cN(n)
                    hs_obj = o if n is not None else None
        # as a call
        try:
            objid, method, vargs, kwargs = ser.loadsCall(body)
        except Exception as x:
            if isinstance(x, (errors.SerializeError, errors.SecurityError)):
                call = "CpFail DfCloseReply"
            elif isinstance(x, errors.CommunicationError):
                call = "CpFail DfCloseSilent"
            else:
                call = "CpFail DfKeep"
        else:
            n = objnum(objid)
            meth, tok, target = "MUnknown", 0, "TUser"
            try:
                if isinstance(objid, str) and (objid == OBJ or objid in POOL_IDS) and method in ("ok", "boom") and len(vargs) == 1 and not kwargs \
                        and isinstance(vargs[0], int) and not isinstance(vargs[0], bool) and vargs[0] >= 0:
                    meth = "MReturns" if method == "ok" else "MRaises"
                    tok = vargs[0]
                elif objid == DAEMON_OBJ and not kwargs:
                    target, tok = "TDaemon", spec["seq"]
                    vargs = list(vargs)
                    if method in ("ping", "registered", "info") and len(vargs) == 0:
                        meth = "MReturns"
                    elif method == "get_metadata" and len(vargs) == 1:
                        try:
                            meth = "MReturns" if vargs[0] in registered else "MRaises"
                        except Exception:
                            meth = "MRaises"
                    elif method == "get_next_stream_item" and len(vargs) == 1:
                        meth = "MRaises"          # no such stream (or an unhashable id)
                    elif method == "close_stream" and len(vargs) == 1:
                        try:
                            hash(vargs[0])
                            meth = "MReturns"
                        except Exception:
                            meth = "MRaises"
            except Exception:
                pass
            call = "CpCall %s %s %s %s" % ("None" if n is None else "(Some %s)" % cN(n), target, meth, cN(tok))
    # validator behaviour of this connection
    if vbspec["kind"] == "raise":
        val = "VRaise %s" % cbool(issubclass(exc_table[vbspec["cls"]], errors.ConnectionClosedError))
    elif vbspec["kind"] == "abort":
        val = "VAbort %s" % cbool(issubclass(exc_table[vbspec["cls"]], KeyboardInterrupt))
    else:
        okser = True
        if known:
            try:
                sers[spec["ser"]].dumps({"handshake": VALUES[vbspec["value"]](), "meta": {"methods": {"a"}, "oneway": set(), "attrs": set()}})
            except Exception:
                okser = False
        val = "VAccept %s" % cbool(okser)
    return {"type": spec["type"], "wf": wf, "ser": spec["ser"], "ser_known": known, "seq": spec["seq"],
            "oneway": bool(spec["flags"] & protocol.FLAGS_ONEWAY), "hs": hs, "hs_obj": hs_obj, "call": call, "val": val}


def c_msg(cl):
    if cl.get("special") == "gone":
        return "InPeerGone"
    if cl.get("special") == "silence":
        return "InSilence"
    return ("InMsg {| m_type := %s; m_wf := %s; m_ser := %s; m_ser_known := %s; m_seq := %s; m_oneway := %s; "
            "m_hs := %s; m_call := %s; m_val := %s |}") % (
        cN(cl["type"]), cl["wf"], cN(cl["ser"]), cbool(cl["ser_known"]), cN(cl["seq"]), cbool(cl["oneway"]),
        cl["hs"], cl["call"], cl["val"])


def c_reply(r):
    rs = {None: "None", "validator": "(Some RsnValidator)", "unknown": "(Some RsnUnknownObject)", "denied": "(Some RsnDenied)",
          "other": "(Some RsnOther)"}[r["rsn"]]
    return "{| or_type := %s; or_exc := %s; or_seq := %s; or_ser := %s; or_rsn := %s |}" % (
        cN(r["type"]), cbool(r["exc"]), cN(r["seq"]), cN(r["ser"]), rs)


def c_app(it):
    n = cN(OBJNUM[it["id"]])
    return {"register": "Register", "unreg_id": "UnregisterById", "unreg_obj": "UnregisterByObject", "gc": "GcWeak"}[it["app"]] + " " + n


def c_case(case, obs, cls):
    items = []
    for i, it in enumerate(case["order"]):
        if is_app(it):
            items.append("IApp (%s)" % c_app(it))
            continue
        c, si = it
        o = obs["segs"][i]
        msgs = clist([c_msg(m) for m in cls[i] if m.get("special") != "listen"])
        items.append("ISeg {| s_conn := %s; s_denied := %s; s_ins := %s; s_replies := %s; s_execs := %s; s_end := %s |}" % (
            cnat(c), cbool(case_env(case) == "poolfull"), msgs, clist([c_reply(r) for r in o["replies"]]),
            clist(["(%s, %s, %s)" % (cnat(e[0]), cbool(e[3]), cN(e[1])) for e in o["execs"]]),
            {"open": "EndOpen", "closed": "EndClosed", "silent": "EndSilent"}[o["end"]]))
    return "{| k_sty := %s; k_q1 := %s; k_q2 := %s; k_q3 := %s; k_reg0 := %s; k_items := %s |}" % (
        "Thread" if case["sty"] == "thread" else "Multiplex", cbool(obs["q1"]), cbool(obs["q2"]), cbool(obs["q3"]),
        clist([cN(OBJNUM[x]) for x in case.get("reg0", [OBJ])]), clist(items))


def case_env(case):
    return case.get("env", "plain")


# ---------------------------------------------------------------- running one case on the real daemon
def expected_reason_text(env, vbspec):
    return str(env.exc[vbspec["cls"]](vbspec["msg"]))


def canon_reply(env, m, vbspec):
    from Pyro5 import protocol
    r = {"type": m["type"], "exc": bool(m["flags"] & protocol.FLAGS_EXCEPTION), "seq": m["seq"], "ser": m["serializer_id"],
         "rsn": None, "text": None}
    if m["type"] == protocol.MSG_CONNECTFAIL:
        v = m.get("value")
        r["text"] = v if isinstance(v, str) else repr(m.get("value", m.get("value_error")))
        if vbspec["kind"] == "raise" and v == expected_reason_text(env, vbspec):
            r["rsn"] = "validator"
        elif isinstance(v, str) and "unknown object" in v.lower():
            r["rsn"] = "unknown"
        elif isinstance(v, str) and v == env.deny_reason:
            r["rsn"] = "denied"
        else:
            r["rsn"] = "other"
    return r


def wait_oneway():
    for t in threading.enumerate():
        if type(t).__name__ == "_OnewayCallThread":
            for _ in range(200):
                try:
                    t.join(2.0)
                    break
                except RuntimeError:        # created but not started yet
                    time.sleep(0.001)


def quiesce(srv, base_busy=0, timeout=3.0):
    t0 = time.time()
    while time.time() - t0 < timeout:
        a = srv.accounting()
        if a.get("busy", 0) == base_busy and a.get("registered", 0) == 0:
            return True
        time.sleep(0.0005)
    return False


FIRST_OK = {"type": 1, "wf": "ok", "ser": 1, "seq": 7, "flags": 0, "payload": {"k": "hs", "shape": "full", "obj": OBJ}}


def probe_quirks(env, sty):
    """which variant of the two repaired defects does the tree show (witnesses of findings/C08.json)"""
    if sty in env.quirks:
        return env.quirks[sty]
    q = []
    for spec_first, vbspec in (
            (dict(FIRST_OK, ser=99), {"kind": "accept", "value": "hello"}),
            (dict(FIRST_OK), {"kind": "raise", "cls": "ConnectionClosedError", "msg": "auth backend down"})):
        case = {"sty": sty, "conns": [{"vb": vbspec, "segs": [[spec_first]]}], "order": [[0, 0]]}
        obs = run_impl(env, case, probe=True)
        q.append(len(obs["segs"][0]["replies"]) == 0 and obs["segs"][0]["end"] == "closed")
    env.quirks[sty] = tuple(q)
    return env.quirks[sty]


def probe_abort(env):
    """open finding: a validator raising a BaseException-only class gets no answer and no close (thread server witness)"""
    if env.q3 is None:
        case = {"sty": "thread", "env": "abort", "order": [[0, 0]],
                "conns": [{"vb": {"kind": "abort", "cls": "SystemExit"}, "segs": [[dict(FIRST_OK)]]}]}
        obs = run_impl(env, case, probe=True)
        env.q3 = len(obs["segs"][0]["replies"]) == 0 and obs["segs"][0]["end"] == "silent"
    return env.q3


def read_until(cl, env, conn, seg, stop_seq, timeout):
    """collect replies until the pong with seq stop_seq (-> "open"), EOF/RESET (-> "closed") or nothing arrives
    within the timeout (-> "silent"); anything undecodable -> "garbage" """
    from Pyro5 import protocol
    while True:
        m = cl.recv_msg(timeout=timeout)
        if m in ("EOF", "RESET"):
            return "closed"
        if m == "TIMEOUT":
            env.silences += 1
            return "silent"
        if isinstance(m, str) or "undecodable" in m:
            return "garbage"
        if stop_seq is not None and m["type"] == protocol.MSG_PING and m["seq"] == stop_seq:
            return "open"
        seg["replies"].append(canon_reply(env, m, conn["vb"]))


def apply_app(srv, it):
    """the application's side of the case: register / unregister on the real daemon, from outside the request loop"""
    import gc
    d, oid = srv.daemon, it["id"]
    try:
        if it["app"] == "register":
            if oid not in d.objectsById:            # registering a taken id raises and changes nothing
                obj = srv.c08_target()
                d.register(obj, oid, weak=bool(it.get("weak")))
                srv.c08_objs[oid] = obj
        elif it["app"] == "unreg_id":
            d.unregister(oid)
            srv.c08_objs.pop(oid, None)
        elif it["app"] == "unreg_obj":
            obj = srv.c08_objs.pop(oid, None)
            if obj is not None:
                d.unregister(obj)
        elif it["app"] == "gc":                     # only generated for ids that were registered weak=True
            srv.c08_objs.pop(oid, None)
            gc.collect()
    except Exception as x:
        return "%s: %r" % (it, x)
    return None


def restore_registry(srv, collect):
    import gc
    d = srv.daemon
    for oid in list(d.objectsById):
        if oid not in (DAEMON_OBJ, OBJ):
            d.unregister(oid)
    keep = srv.c08_objs.get(OBJ) if OBJ in d.objectsById else None
    srv.c08_objs.clear()
    if collect:
        gc.collect()
    if keep is None:
        if OBJ in d.objectsById:
            d.unregister(OBJ)
        keep = srv.c08_target()
        d.register(keep, OBJ)
    srv.c08_objs[OBJ] = keep


def run_impl(env, case, probe=False):
    from Pyro5 import protocol
    envname = case_env(case)
    srv = env.server(case["sty"], envname)
    if probe:
        q1, q2, q3 = False, False, True
    elif envname == "abort":
        q3 = probe_abort(env)
        srv = env.server(case["sty"], envname)      # a fresh throw-away server after the probe
        q1, q2 = env.quirks.get(case["sty"], env.quirks.get("thread", (False, False)))
    else:
        q1, q2 = probe_quirks(env, case["sty"])
        q3 = True if env.q3 is None else env.q3
    tmo = ABORT_RECV_TIMEOUT if envname == "abort" else (RECV_TIMEOUT if env.silences < 20 else RECV_TIMEOUT_AFTER_MANY)
    clients, ports = {}, {}
    sync = [SYNC_BASE]
    obs = {"segs": [], "anomalies": [], "q1": q1, "q2": q2, "q3": q3}
    del EXEC_LOG[:]
    ended = {}          # connection -> "closed" | "silent" once seen
    try:
        for it in case["order"]:
            if is_app(it):
                err = apply_app(srv, it)
                if err:
                    obs["anomalies"].append({"seg": len(obs["segs"]), "what": "application call failed: " + err})
                obs["segs"].append({"app": it["app"], "replies": [], "execs": [], "end": "open"})
                continue
            c, si = it
            conn = case["conns"][c]
            items = conn["segs"][si]
            special = items[-1] if items and is_special(items[-1]) else None
            msgs = [m for m in items if not is_special(m)]
            data = b"".join(build_message(m) for m in msgs)
            log0 = len(EXEC_LOG)
            seg = {"replies": [], "end": "open", "execs": []}
            if c not in clients:
                cl = rd.RawClient(srv.port, timeout=tmo)
                clients[c] = cl
                ports[cl.port] = c
                env.vb[cl.port] = conn["vb"]
            cl = clients[c]
            if ended.get(c):
                cl.send(data)
                seg["end"] = ended[c]
            elif special and special["special"] == "listen":
                # the peer has said all it is going to say and just waits for the daemon's verdict (no further bytes, no half-close)
                cl.send(data)
                seg["end"] = read_until(cl, env, conn, seg, None, tmo)
                if seg["end"] == "garbage":
                    obs["anomalies"].append({"seg": len(obs["segs"]), "what": "undecodable bytes from the daemon"})
                    seg["end"] = "open"
                else:
                    ended[c] = seg["end"]
            elif special and special["special"] == "gone":
                # the peer sends its last bytes (possibly a message cut short) and goes away; the receiving side stays open
                cl.send(data + special_bytes(special))
                try:
                    cl.sock.shutdown(socket.SHUT_WR)
                except OSError:
                    pass
                seg["end"] = read_until(cl, env, conn, seg, None, tmo)
                ended[c] = seg["end"] if seg["end"] in ("closed", "silent") else "closed"
            else:
                end = "open"
                if data:
                    cl.send(data)
                    sync[0] += 1
                    cl.send(rd.ping_msg(seq=sync[0]))
                    end = read_until(cl, env, conn, seg, sync[0], tmo)
                if special and special["special"] == "silence" and end == "open":
                    # say nothing for longer than COMMTIMEOUT; whatever arrives meanwhile belongs to this segment
                    end = read_until(cl, env, conn, seg, None, COMMTO * 2.5)
                    env.silences -= 1 if end == "silent" else 0
                    if end == "silent":
                        sync[0] += 1
                        cl.send(rd.ping_msg(seq=sync[0]))
                        end = read_until(cl, env, conn, seg, sync[0], tmo)
                seg["end"] = end
                if end in ("closed", "silent"):
                    ended[c] = end
                if end == "garbage":
                    obs["anomalies"].append({"seg": len(obs["segs"]), "what": "undecodable bytes from the daemon"})
                    seg["end"] = "open"
            if any(m["flags"] & protocol.FLAGS_ONEWAY for m in msgs):
                wait_oneway()
            for (port, tok, meth, isd) in EXEC_LOG[log0:]:
                seg["execs"].append([ports.get(port, 999), tok if isinstance(tok, int) and not isinstance(tok, bool) and tok >= 0 else 999999, meth, bool(isd)])
            obs["segs"].append(seg)
    finally:
        log_end = len(EXEC_LOG)
        for cl in clients.values():
            env.vb.pop(cl.port, None)
            cl.close()
        obs["loop_alive"] = srv.loop_alive()
        if envname == "abort":
            env.stop()          # the server of such a case is not used again (leaked worker / ended loop)
        else:
            if any(is_app(it) for it in case["order"]):
                restore_registry(srv, any(is_app(it) and (it.get("weak") or it["app"] == "gc") for it in case["order"]))
            if not quiesce(srv, env.base_busy()):
                obs["anomalies"].append({"seg": -1, "what": "server did not release the connections of this case"})
            if not srv.loop_alive():
                obs["anomalies"].append({"seg": -1, "what": "daemon request loop died: %r" % (srv.loop_exception,)})
            # whatever ran after the peers saw their last answer / EOF (the daemon still working off bytes it should have dropped)
            wait_oneway()
            obs["late_execs"] = [[ports.get(port, 999), tok if isinstance(tok, int) and not isinstance(tok, bool) and tok >= 0 else 999999, meth, bool(isd)]
                                 for (port, tok, meth, isd) in EXEC_LOG[log_end:]]
            if obs["late_execs"]:
                obs["anomalies"].append({"seg": -1, "what": "methods ran after the case was over: %s" % (obs["late_execs"],)})
    return obs


# ---------------------------------------------------------------- the oracle: the property over the observations
def names_registered(m, reg_now):
    """does this (classified) first message name an object id that the application has registered right now"""
    if not m["hs"].startswith("HsFull (ObjId"):
        return False
    try:
        return m["hs_obj"] in reg_now
    except Exception:
        return False


def first_must_fail(case, c, cls_first, reg_now):
    """the property's notion, from the input alone: is the first event of connection c anything else than a
    well-formed CONNECT (known serializer) for an object that is registered at this moment (according to the
    application's own register / unregister calls) which the validator accepts, on a connection the transport
    server did not refuse"""
    from Pyro5 import protocol
    vb = case["conns"][c]["vb"]
    m = cls_first
    if m.get("special") or case_env(case) == "poolfull":
        return True
    ok = (m["type"] == protocol.MSG_CONNECT and m["wf"] == "WfOk" and m["ser_known"] and names_registered(m, reg_now)
          and vb["kind"] == "accept")
    return not ok


def tokens_of(item):
    if is_special(item):
        return []
    p = item["payload"]
    if p["k"] == "dcall":
        return [item["seq"]]
    return [p["tok"]] if p.get("tok") is not None else []


def oracle(env, case, obs, cls):
    from Pyro5 import protocol
    bad = []
    nconn = len(case["conns"])
    denied = case_env(case) == "poolfull"
    firsts, per_conn, reg_first = {}, {c: [] for c in range(nconn)}, {}
    timeline = registry_timeline(case)
    for i, it in enumerate(case["order"]):
        if is_app(it):
            continue
        c, si = it
        per_conn[c].append((i, si))
        if si == 0:
            firsts[c] = cls[i][0]
            reg_first[c] = timeline[i]
    CONNECT = protocol.MSG_CONNECT

    def reached(c):
        m0, vb = firsts[c], case["conns"][c]["vb"]
        return (not denied and not m0.get("special") and m0["type"] == CONNECT and m0["wf"] == "WfOk" and m0["ser_known"]
                and (m0["hs"] == "HsNoObjectKey" or m0["hs"].startswith("HsFull")))
    aborting = [c for c in range(nconn) if per_conn[c] and case["conns"][c]["vb"]["kind"] == "abort" and reached(c)]
    if not obs.get("loop_alive", True):
        if aborting:
            bad.append(("validator-baseexception-unanswered", "validator raised %s: the daemon's request loop ended, no connection is served any more" % case["conns"][aborting[0]]["vb"]["cls"]))
        else:
            bad.append(("daemon-loop-died", "the daemon's request loop ended while playing the case"))
    connok_at = {}
    for c in range(nconn):
        if not per_conn[c]:
            continue
        vb = case["conns"][c]["vb"]
        m0 = firsts[c]
        must_fail = first_must_fail(case, c, m0, reg_first[c])
        i0 = per_conn[c][0][0]
        for (i, si) in per_conn[c]:
            for r in obs["segs"][i]["replies"]:
                if r["type"] == protocol.MSG_CONNECTOK and c not in connok_at:
                    connok_at[c] = i
        if not must_fail:
            continue
        o0 = obs["segs"][i0]
        validator_reached = reached(c)
        gone = m0.get("special") == "gone"
        if gone:
            cause = "peer went away before completing its first message"
        elif m0.get("special") == "silence":
            cause = "silence beyond COMMTIMEOUT"
        elif m0["type"] != CONNECT:
            cause = "type %d instead of CONNECT" % m0["type"]
        elif m0["wf"] != "WfOk":
            cause = "malformed CONNECT message"
        elif denied:
            cause = "no free worker in the thread pool"
        elif not m0["ser_known"]:
            cause = "unknown serializer id %d" % m0["ser"]
        elif validator_reached and vb["kind"] in ("raise", "abort"):
            cause = "validator raises %s" % vb["cls"]
        elif m0["hs"].startswith("HsFull (ObjId") and not names_registered(m0, reg_first[c]):
            cause = "object %r is not registered at this moment" % (m0["hs_obj"],)
        else:
            cause = "handshake payload %s" % m0["hs"]
        if c in connok_at:
            bad.append(("handshake-accepted-wrongly", "first event (%s) was answered CONNECTOK" % cause))
        fails = [r for r in o0["replies"] if r["type"] == protocol.MSG_CONNECTFAIL]
        others = [r for r in o0["replies"] if r["type"] not in (protocol.MSG_CONNECTFAIL, protocol.MSG_CONNECTOK)]
        is_abort = validator_reached and vb["kind"] == "abort"
        if is_abort and (not fails or o0["end"] != "closed") and c not in connok_at:
            bad.append(("validator-baseexception-unanswered", "validator raised %s: CONNECTFAIL sent: %s, connection %s" % (
                vb["cls"], bool(fails), {"closed": "closed", "silent": "left open and unserved", "open": "still served"}[o0["end"]])))
        elif not fails and c not in connok_at and not gone:      # a peer that is gone cannot be answered
            if not m0.get("special") and m0["type"] == CONNECT and m0["wf"] == "WfOk" and not m0["ser_known"] and not denied:
                bad.append(("silent-close-unknown-serializer", "CONNECT with unknown serializer id %d: no CONNECTFAIL was sent (%s)" % (m0["ser"], o0["end"])))
            elif validator_reached and vb["kind"] == "raise" and m0["val"] == "VRaise true":
                bad.append(("silent-close-validator-connclosed", "validator raised %s: no CONNECTFAIL was sent (%s)" % (vb["cls"], o0["end"])))
            else:
                bad.append(("failed-handshake-not-answered", "failing first event (%s): no CONNECTFAIL was sent (connection %s)" % (cause, o0["end"])))
        if len(fails) > 1:
            bad.append(("reply-after-failed-handshake", "more than one CONNECTFAIL"))
        if others:
            bad.append(("reply-after-failed-handshake", "failing first event (%s): the peer also got replies of type %s" % (cause, [r["type"] for r in others])))
        for r in fails[:1]:
            if validator_reached and vb["kind"] == "raise":
                if r["rsn"] != "validator":
                    bad.append(("wrong-reason", "validator raised %s(%r) but CONNECTFAIL carries %r" % (vb["cls"], vb["msg"], r["text"])))
            elif m0.get("special") or (denied and m0["wf"] == "WfOk") or m0["type"] != CONNECT or \
                    (m0["hs"].startswith("HsFull (ObjId") and not names_registered(m0, reg_first[c]) and vb["kind"] == "accept"
                     and m0["wf"] == "WfOk" and m0["ser_known"]):
                if not (isinstance(r["text"], str) and r["text"].strip() and r["text"] != "None"):
                    bad.append(("empty-reason", "CONNECTFAIL for (%s) carries no reason text" % cause))
        if o0["end"] != "closed" and not is_abort:
            bad.append(("not-closed-after-failed-handshake", "failing first event (%s): the connection was %s afterwards" % (
                cause, "still served" if o0["end"] == "open" else "neither served nor closed")))
        for (i, si) in per_conn[c][1:]:
            if obs["segs"][i]["replies"] or obs["segs"][i]["end"] == "open":
                bad.append(("reply-after-failed-handshake", "messages sent after the failed handshake (%s) were answered / connection open" % cause))
    # executions: only for a connection that was answered CONNECTOK before, whose first event may be accepted
    for i, seg in enumerate(obs["segs"]):
        if is_app(case["order"][i]):
            if seg["execs"]:
                bad.append(("exec-not-on-behalf", "methods ran while only the application touched the registry: %s" % (seg["execs"],)))
            continue
        c_seg = case["order"][i][0]
        sent = set()
        for it in case["order"][:i + 1]:
            if is_app(it):
                continue
            c, si = it
            if c == c_seg:
                for m in case["conns"][c]["segs"][si]:
                    sent.update(tokens_of(m))
        for (ec, tok, meth, isd) in seg["execs"]:
            name = ("Pyro.Daemon." if isd else "") + meth
            if meth in ("hidden", "_private"):
                bad.append(("unexposed-method-ran", "method %s ran" % meth))
            if ec == 999:
                bad.append(("exec-without-handshake", "method %s(%s) ran on behalf of a connection the case does not know" % (name, tok)))
                continue
            if ec not in connok_at or connok_at[ec] > i or first_must_fail(case, ec, firsts[ec], reg_first[ec]):
                bad.append(("exec-without-handshake", "method %s(%s) ran for connection %d which never completed an accepted handshake" % (name, tok, ec)))
            elif ec != c_seg or tok not in sent:
                bad.append(("exec-not-on-behalf", "method %s(%s) ran for connection %d while connection %d was sending" % (name, tok, ec, c_seg)))
    for (ec, tok, meth, isd) in obs.get("late_execs", []):
        name = ("Pyro.Daemon." if isd else "") + meth
        if ec == 999 or ec not in connok_at or first_must_fail(case, ec, firsts[ec], reg_first[ec]):
            bad.append(("exec-without-handshake", "method %s(%s) ran (after the peer had been told the outcome) for connection %s which never completed an accepted handshake" % (name, tok, ec)))
        else:
            bad.append(("exec-not-on-behalf", "method %s(%s) ran for connection %d after the case was over" % (name, tok, ec)))
    seen, out = set(), []
    for sig, what in bad:
        if sig not in seen:
            seen.add(sig)
            out.append((sig, what))
    return out


# ---------------------------------------------------------------- generator
TYPES_ALL = [0, 1, 2, 3, 4, 5, 6, 7, 99]
SER_UNKNOWN = [0, 5, 42, 99, 255]
WF_BAD = ["hdr:tag", "hdr:version", "hdr:magic", "hdr:size", "hdr:garbage", "body:tile", "body:annid", "body:zlib"]


def gen_vb(rng, bias_accept=0.55):
    if rng.random() < bias_accept:
        return {"kind": "accept", "value": rng.choice(VALUE_NAMES if rng.random() < 0.6 else ["hello", "none", "false", "zero", "dict"])}
    return {"kind": "raise", "cls": rng.choice(EXC_NAMES), "msg": "denied:%d" % rng.randrange(10 ** 6)}


class Gen:
    def __init__(self, rng, info):
        self.rng, self.info = rng, info
        self.tok = 0
        self.known = sorted(known_serializers())

    def token(self):
        self.tok += 1
        return self.tok

    def base(self, mtype, payload, ser=None, wf="ok"):
        rng = self.rng
        flags = 0
        if rng.random() < 0.15:
            flags |= 64      # FLAGS_CORR_ID
        if rng.random() < 0.08:
            flags |= 2       # FLAGS_COMPRESSED (validly compressed)
        return {"type": mtype, "wf": wf, "ser": rng.choice(self.known) if ser is None else ser, "seq": rng.randrange(0, 50000),
                "flags": flags, "payload": payload, "ann": rng.random() < 0.1}

    def dcall(self, oneway=None):
        """a call on the daemon's own Pyro.Daemon object; its token is the message's sequence number"""
        rng = self.rng
        method, args = rng.choice([("ping", []), ("registered", []), ("info", []), ("get_metadata", [OBJ]), ("get_metadata", ["nope"]),
                                   ("close_stream", ["s1"]), ("get_next_stream_item", ["s1"]), ("ping", [1]), ("nosuch", []),
                                   ("get_metadata", [DAEMON_OBJ])])
        m = self.base(4, {"k": "dcall", "method": method, "args": args})
        m["seq"] = 30000 + self.token()
        if oneway if oneway is not None else rng.random() < 0.15:
            m["flags"] |= 4
        return m

    def call(self, oneway=None, method=None, obj=None):
        rng = self.rng
        if method is None and obj is None and rng.random() < 0.2:
            return self.dcall(oneway)
        method = method or rng.choice(["ok", "ok", "ok", "boom", "hidden", "_private", "nosuch", "__class__"])
        obj = obj or rng.choice([OBJ, OBJ, OBJ, OBJ, "nope", ""])
        k = "call" if rng.random() < 0.9 else rng.choice(["call_evil", "call_badargs"])
        m = self.base(4, {"k": k, "obj": obj, "method": method, "tok": self.token()})
        if oneway if oneway is not None else rng.random() < 0.15:
            m["flags"] |= 4
        return m

    def ping(self):
        m = self.base(6, {"k": "raw", "hex": b"ping".hex()})
        return m

    def hs_payload(self, good):
        rng = self.rng
        if good:
            return {"k": "hs", "shape": rng.choice(["full", "full", "full", "extra"]), "obj": rng.choice([OBJ, OBJ, "Pyro.Daemon"])}
        r = rng.random()
        if r < 0.35:
            return {"k": "hs", "shape": "full", "obj": rng.choice(["nope", "", "T", "Pyro.NameServer", "t "])}
        if r < 0.75:
            return {"k": "hs", "shape": rng.choice(["nohandshake", "noobject", "list", "str", "int", "objlist", "none"]), "obj": OBJ}
        if r < 0.88:
            return {"k": "raw", "hex": rng.choice([b"", b"\x00\x01garbage", b"{", b"(1,2", b"\xff" * 9]).hex()}
        return {"k": rng.choice(["call", "call_evil"]), "obj": OBJ, "method": "ok", "tok": self.token()}

    def first_message(self):
        """(message, intended-to-be-accepted?)"""
        rng = self.rng
        r = rng.random()
        if r < 0.34:
            return self.base(1, self.hs_payload(True))
        if r < 0.46:      # CONNECT, bad payload
            return self.base(1, self.hs_payload(False))
        if r < 0.56:      # CONNECT, unknown serializer
            return self.base(1, self.hs_payload(rng.random() < 0.7), ser=rng.choice(SER_UNKNOWN))
        if r < 0.68:      # CONNECT, malformed
            return self.base(1, self.hs_payload(rng.random() < 0.7), wf=rng.choice(WF_BAD))
        if r < 0.90:      # another type, any payload (including a perfectly valid handshake payload)
            t = rng.choice([t for t in TYPES_ALL if t != 1] + [4, 4, 6])
            rr = rng.random()
            if rr < 0.4:
                p = self.hs_payload(True)
            elif rr < 0.8:
                p = {"k": "call", "obj": OBJ, "method": "ok", "tok": self.token()}
            else:
                p = self.hs_payload(False)
            m = self.base(t, p, ser=rng.choice(self.known + [99]) if rng.random() < 0.2 else None)
            if rng.random() < 0.15:
                m["flags"] |= 4
            return m
        # another type and malformed
        return self.base(rng.choice(TYPES_ALL), self.hs_payload(True), wf=rng.choice(WF_BAD))

    def later_message(self):
        rng = self.rng
        r = rng.random()
        if r < 0.55:
            return self.call()
        if r < 0.70:
            return self.ping()
        if r < 0.76:
            return self.base(4, {"k": "call", "obj": OBJ, "method": "ok", "tok": self.token()}, ser=rng.choice(SER_UNKNOWN))
        if r < 0.82:
            return self.base(rng.choice([4, 4, 6]), {"k": "call", "obj": OBJ, "method": "ok", "tok": self.token()}, wf=rng.choice(WF_BAD))
        if r < 0.90:
            return self.base(rng.choice([0, 1, 2, 3, 5, 7, 99]), rng.choice([self.hs_payload(True), {"k": "call", "obj": OBJ, "method": "ok", "tok": self.token()}]))
        if r < 0.96:
            return self.base(4, self.hs_payload(rng.random() < 0.5))
        return self.base(4, {"k": "raw", "hex": rng.choice([b"", b"\x00\x01garbage", b"{"]).hex()})

    def gone(self, first):
        """the peer goes away: plain EOF, or a prefix of an otherwise acceptable message and then EOF"""
        rng = self.rng
        if rng.random() < 0.3:
            return {"special": "gone", "trunc": None, "cut": 0}
        if first:
            t = self.base(1, self.hs_payload(True))
        else:
            t = rng.choice([self.call(oneway=False, method="ok", obj=OBJ), self.ping()])
        t["flags"] &= ~2
        return {"special": "gone", "trunc": t, "cut": rng.choice([0, 1, 3, 5, 6, 7, 20, 39, 40, 41, 47, 60, rng.randrange(0, 120)])}

    def short_bad(self):
        """fewer than 40 bytes that cannot be the beginning of a Pyro message; then the peer only listens"""
        rng = self.rng
        m = self.base(rng.choice([1, 1, 4, 6]), self.hs_payload(True), wf=rng.choice(["hdr:short6", "hdr:shorttag", "hdr:shortver"]))
        m["pad"] = rng.randrange(0, 34)
        return [m, {"special": "listen"}]

    def connection(self, gone_prob=0.12, first_special=0.05):
        rng = self.rng
        if rng.random() < first_special:
            return {"vb": gen_vb(rng), "segs": [[self.gone(True)]]}
        if rng.random() < 0.04:
            return {"vb": gen_vb(rng), "segs": [self.short_bad()] + ([[self.call()]] if rng.random() < 0.5 else [])}
        first = self.first_message()
        seg0 = [first]
        if rng.random() < 0.7:           # pipelined in the same TCP segment behind the first message
            for _ in range(rng.choice([1, 1, 2, 3])):
                seg0.append(self.call() if rng.random() < 0.7 else self.later_message())
        segs = [seg0]
        for _ in range(rng.choice([0, 1, 1, 2, 3])):
            segs.append([self.later_message() for _ in range(rng.choice([1, 1, 2, 3]))])
        if rng.random() < gone_prob:
            segs[-1].append(self.gone(False))
        elif rng.random() < 0.04:
            segs.append(self.short_bad())
        return {"vb": gen_vb(rng), "segs": segs}

    def timeout_case(self, sty=None):
        """COMMTIMEOUT configured, one connection, one or two silences"""
        rng = self.rng
        self.tok = 0
        sil = {"special": "silence"}
        r = rng.random()
        if r < 0.3:
            segs = [[dict(sil)], [self.call()]]
        else:
            conn = self.connection(gone_prob=0.0, first_special=0.0)
            segs = conn["segs"][:2]
            k = rng.randrange(len(segs))
            segs[k] = segs[k] + [dict(sil)]
            segs.append([self.call(), self.ping()])
            if rng.random() < 0.25:
                segs[-1].append(dict(sil))
        vb = gen_vb(rng, 0.7)
        return {"sty": sty or rng.choice(["thread", "multiplex"]), "env": "timeout", "conns": [{"vb": vb, "segs": segs}],
                "order": [[0, i] for i in range(len(segs))]}

    def poolfull_case(self):
        """thread pool exhausted: every connection of the case is refused from the accept loop"""
        rng = self.rng
        self.tok = 0
        conns = []
        for _ in range(rng.choice([1, 1, 2])):
            conn = self.connection(gone_prob=0.1, first_special=0.1)
            if rng.random() < 0.06:
                conn["segs"] = [[{"special": "silence"}], [self.call()]]
            if rng.random() < 0.5:          # mostly well-formed CONNECTs: the "no free workers" answer
                conn["segs"][0][0] = self.base(1, self.hs_payload(True)) if not is_special(conn["segs"][0][0]) else conn["segs"][0][0]
            conns.append(conn)
        case = self.interleave(conns, "thread")
        case["env"] = "poolfull"
        return case

    def abort_case(self, sty, cls=None):
        """the validator raises a BaseException-only class for connection 1; connection 0 is an accepted witness"""
        rng = self.rng
        self.tok = 0
        good = {"type": 1, "wf": "ok", "ser": rng.choice(self.known), "seq": 9, "flags": 0, "ann": False,
                "payload": {"k": "hs", "shape": "full", "obj": OBJ}}
        w = {"vb": {"kind": "accept", "value": "hello"}, "segs": [[dict(good), self.call(oneway=False, method="ok", obj=OBJ)],
                                                                    [self.call(oneway=False, method="ok", obj=OBJ), self.dcall(False)]]}
        a = {"vb": {"kind": "abort", "cls": cls or rng.choice(ABORT_NAMES)},
             "segs": [[dict(good, seq=10), self.call(oneway=False, method="ok", obj=OBJ)], [self.call(oneway=False, method="ok", obj=OBJ)]]}
        return {"sty": sty, "env": "abort", "conns": [w, a], "order": [[0, 0], [1, 0], [0, 1], [1, 1]]}

    def case(self, sty=None):
        rng = self.rng
        self.tok = 0
        conns = [self.connection() for _ in range(rng.choice([1, 1, 2, 2, 3]))]
        return self.interleave(conns, sty or rng.choice(["thread", "multiplex"]))

    def registry_case(self, sty=None):
        """the application registers and unregisters objects (by id, by object, weak + collected) between and during
        connections: connect before the registration, after it (filling whatever the daemon remembers about the id), after
        the removal, after a re-registration; older connections keep calling the removed object"""
        rng = self.rng
        self.tok = 0
        conns, order = [], []
        good_ser = lambda: rng.choice(self.known)

        def connect(oid, vb=None):
            m = self.base(1, {"k": "hs", "shape": rng.choice(["full", "full", "extra"]), "obj": oid}, ser=good_ser())
            seg0 = [m]
            for _ in range(rng.choice([0, 1, 1, 2])):
                seg0.append(rng.choice([self.call(oneway=False, method="ok", obj=oid), self.call(method=rng.choice(["ok", "boom"]), obj=OBJ),
                                        self.dmeta(oid), self.call(method="ok", obj=rng.choice(POOL_IDS))]))
            conns.append({"vb": vb or ({"kind": "accept", "value": "hello"} if rng.random() < 0.85 else gen_vb(rng)), "segs": [seg0]})
            order.append([len(conns) - 1, 0])
            return len(conns) - 1

        def more(c, oid):
            seg = [rng.choice([self.call(oneway=False, method="ok", obj=oid), self.call(method="ok", obj=OBJ), self.dmeta(oid),
                               self.ping(), self.call(method="boom", obj=oid)]) for _ in range(rng.choice([1, 2, 3]))]
            conns[c]["segs"].append(seg)
            order.append([c, len(conns[c]["segs"]) - 1])
        live = {}        # id -> weak?
        old = []         # (connection, id) still open
        for _ in range(rng.choice([2, 3, 3, 4, 5])):
            oid = rng.choice(POOL_IDS[:3] if rng.random() < 0.85 else [OBJ])
            r = rng.random()
            if oid not in live and oid != OBJ:
                if r < 0.25:
                    connect(oid)                                     # not registered (yet / any more): must be refused
                weak = oid == "w" or rng.random() < 0.2
                order.append({"app": "register", "id": oid, "weak": weak})
                live[oid] = weak
                if rng.random() < 0.8:
                    old.append((connect(oid), oid))                   # an accepted peer (its handshake fetched the metadata)
            else:
                if rng.random() < 0.3:
                    old.append((connect(oid), oid))
                weak = live.get(oid, False)
                how = rng.choice(["unreg_id", "unreg_id", "unreg_obj"] + (["gc", "gc"] if weak else []))
                order.append({"app": how, "id": oid})
                live.pop(oid, None)
                connect(oid)                                          # a NEW peer naming the removed id
                if oid == OBJ:
                    order.append({"app": "register", "id": OBJ, "weak": False})
                    live.pop(OBJ, None)
            if old and rng.random() < 0.7:
                c, o = rng.choice(old)
                more(c, o)
        return {"sty": sty or rng.choice(["thread", "multiplex"]), "conns": conns, "order": order}

    def dmeta(self, oid):
        m = self.base(4, {"k": "dcall", "method": "get_metadata", "args": [oid]})
        m["seq"] = 30000 + self.token()
        return m

    def interleave(self, conns, sty):
        rng = self.rng
        order = []
        left = [[c, 0] for c in range(len(conns))]
        while left:
            k = rng.randrange(len(left))
            c, si = left[k]
            order.append([c, si])
            if si + 1 < len(conns[c]["segs"]):
                left[k][1] += 1
            else:
                left.pop(k)
        return {"sty": sty, "conns": conns, "order": order}


def targeted(info, thorough=False):
    """the product the property quantifies over, one connection each: every first-message type x valid/malformed x
    serializer id x payload shape, with an INVOKE pipelined in the same segment; every validator behaviour; calls on the
    daemon's own object before and after the handshake; peers going away; silences; a full thread pool; aborting validators"""
    out = []
    tok = [1000]

    def inv(oneway=False):
        tok[0] += 1
        return {"type": 4, "wf": "ok", "ser": 1, "seq": 11, "flags": 4 if oneway else 0, "ann": False,
                "payload": {"k": "call", "obj": OBJ, "method": "ok", "tok": tok[0]}}

    def dinv(method="ping", args=(), oneway=False, mtype=4):
        tok[0] += 1
        return {"type": mtype, "wf": "ok", "ser": 1, "seq": 30000 + tok[0], "flags": 4 if oneway else 0, "ann": False,
                "payload": {"k": "dcall", "method": method, "args": list(args)}}
    ping = {"type": 6, "wf": "ok", "ser": 1, "seq": 12, "flags": 0, "ann": False, "payload": {"k": "raw", "hex": "70696e67"}}

    def one(first, vb, sty, env="plain", tail=None):
        segs = [[first, inv(), dinv("registered"), inv(True)], [inv(), dict(ping)]]
        if is_special(first):
            segs = [[first], [inv()]]
        if tail:
            segs = segs + tail
        out.append({"sty": sty, "env": env, "conns": [{"vb": vb, "segs": segs}], "order": [[0, i] for i in range(len(segs))]})
    acc = {"kind": "accept", "value": "hello"}
    good = {"k": "hs", "shape": "full", "obj": OBJ}

    def connect(ser=1, payload=None, seq=9, wf="ok", t=1):
        return {"type": t, "wf": wf, "ser": ser, "seq": seq, "flags": 0, "ann": False, "payload": dict(payload or good)}
    extra_types = sorted(set(info.get("first_types", [])) | set(TYPES_ALL))
    for sty in ("thread", "multiplex"):
        for t in extra_types:
            for ser in (1, 2, 3, 4, 99):
                for p in (good, {"k": "call", "obj": OBJ, "method": "ok", "tok": 999}):
                    if sty == "multiplex" and ser in (2, 4) and t not in (1, 4):
                        continue
                    one(connect(ser, p, t=t), acc, sty)
            for wf in WF_BAD:
                one(connect(wf=wf, t=t), acc, sty)
        for shape in ("nohandshake", "noobject", "list", "str", "int", "objlist", "none", "extra"):
            for ser in (1, 3):
                one(connect(ser, {"k": "hs", "shape": shape, "obj": OBJ}), acc, sty)
        for obj in ("nope", "", "Pyro.Daemon"):
            one(connect(payload={"k": "hs", "shape": "full", "obj": obj}), acc, sty)
        for cls in EXC_NAMES:
            one(connect(), {"kind": "raise", "cls": cls, "msg": "denied:%s" % cls}, sty)
        for v in VALUE_NAMES:
            for ser in (1, 3):
                one(connect(ser), {"kind": "accept", "value": v}, sty)
        # the daemon's own object: as the first message, pipelined behind a refusal, and after an accepted handshake
        for method, args in (("ping", ()), ("registered", ()), ("info", ()), ("get_metadata", (OBJ,)), ("get_metadata", ("nope",)),
                             ("close_stream", ("s",)), ("get_next_stream_item", ("s",))):
            one(dinv(method, args), acc, sty)
            one(connect(), {"kind": "raise", "cls": "ValueError", "msg": "denied:d"}, sty, tail=[[dinv(method, args), dinv(method, args, True)]])
            one(connect(), acc, sty, tail=[[dinv(method, args), dinv(method, args, True), dinv(method, args, mtype=1)]])
        # fewer than 40 bytes that are already wrong; the peer then only listens (no further bytes, no half-close, no COMMTIMEOUT)
        for wfk, pad in (("hdr:short6", 0), ("hdr:shorttag", 0), ("hdr:shorttag", 20), ("hdr:shorttag", 33), ("hdr:shortver", 0), ("hdr:shortver", 30)):
            short = dict(connect(wf=wfk), pad=pad)
            out.append({"sty": sty, "env": "plain", "conns": [{"vb": acc, "segs": [[short, {"special": "listen"}], [inv()]]}], "order": [[0, 0], [0, 1]]})
            out.append({"sty": sty, "env": "plain", "conns": [{"vb": acc, "segs": [[connect(), inv()], [dict(short, type=4), {"special": "listen"}], [inv()]]}],
                        "order": [[0, 0], [0, 1], [0, 2]]})
        # the peer goes away: before / inside its first message, and later
        for cut in (0, 3, 6, 20, 39, 40, 41, 60):
            one({"special": "gone", "trunc": connect(), "cut": cut}, acc, sty)
            one(connect(), acc, sty, tail=[[inv(), {"special": "gone", "trunc": inv(), "cut": cut}]])
        one(connect(), {"kind": "raise", "cls": "ValueError", "msg": "denied:g"}, sty, tail=[[inv(), {"special": "gone", "trunc": None, "cut": 0}]])
        # silence beyond COMMTIMEOUT: as the first event, after an accepted handshake, after a refused one
        sil = {"special": "silence"}
        one(dict(sil), acc, sty, env="timeout")
        one(connect(), acc, sty, env="timeout", tail=[[inv(), dict(sil)], [inv()]])
        one(connect(), {"kind": "raise", "cls": "KeyError", "msg": "denied:s"}, sty, env="timeout", tail=[[dict(sil)], [inv()]])
    # the registry changes under the connections: every way of removing an id x with/without an earlier peer that made
    # the daemon look the id up x handshake / get_metadata as the earlier access
    def reg_case(sty, how, earlier, ser=1):
        tok[0] += 10
        weak = how == "gc"
        conns, order = [], [{"app": "register", "id": "a", "weak": weak}]
        ca = {"k": "hs", "shape": "full", "obj": "a"}

        def inv_on(oid, method="ok"):
            tok[0] += 1
            return {"type": 4, "wf": "ok", "ser": ser, "seq": 11, "flags": 0, "ann": False,
                    "payload": {"k": "call", "obj": oid, "method": method, "tok": tok[0]}}
        if earlier == "handshake":
            conns.append({"vb": acc, "segs": [[connect(ser, ca), inv_on("a")], [inv_on("a"), inv_on(OBJ), dinv("get_metadata", ("a",))]]})
            order.append([0, 0])
        elif earlier == "get_metadata":
            conns.append({"vb": acc, "segs": [[connect(ser), dinv("get_metadata", ("a",)), inv_on("a")], [inv_on("a"), inv_on(OBJ), dinv("get_metadata", ("a",))]]})
            order.append([0, 0])
        order.append({"app": how, "id": "a"})
        k = len(conns)
        conns.append({"vb": acc, "segs": [[connect(ser, ca, seq=21), inv_on(OBJ), inv_on("a")], [inv_on(OBJ)]]})   # the NEW peer
        order += [[k, 0], [k, 1]]
        if earlier != "none":
            order.append([0, 1])
        order.append({"app": "register", "id": "a", "weak": False})
        conns.append({"vb": acc, "segs": [[connect(ser, ca, seq=22), inv_on("a")]]})                                # registered again: accepted
        order.append([k + 1, 0])
        out.append({"sty": sty, "env": "plain", "conns": conns, "order": order})
    for sty in ("thread", "multiplex"):
        for how in ("unreg_id", "unreg_obj", "gc"):
            for earlier in ("handshake", "get_metadata", "none"):
                reg_case(sty, how, earlier, ser=1 if how != "unreg_obj" else 3)
    # a full thread pool: every first event is refused from the accept loop
    for t in extra_types:
        one(connect(t=t), acc, "thread", env="poolfull")
    for ser in (2, 3, 99):
        one(connect(ser), acc, "thread", env="poolfull")
    for wf in ("hdr:tag", "hdr:size", "body:tile", "body:zlib"):
        one(connect(wf=wf), acc, "thread", env="poolfull")
    one(connect(payload={"k": "hs", "shape": "full", "obj": "nope"}), {"kind": "raise", "cls": "ValueError", "msg": "x"}, "thread", env="poolfull")
    one({"special": "gone", "trunc": connect(), "cut": 45}, acc, "thread", env="poolfull")
    one({"special": "gone", "trunc": None, "cut": 0}, acc, "thread", env="poolfull")
    one({"special": "silence"}, acc, "thread", env="poolfull")
    out.append({"sty": "thread", "env": "poolfull", "conns": [{"vb": acc, "segs": [[dict(connect(wf="hdr:shorttag"), pad=9), {"special": "listen"}]]}], "order": [[0, 0]]})
    return out


def abort_cases(g, thorough):
    """validators raising a BaseException-only class; each case runs on a throw-away server"""
    pairs = [("thread", "SystemExit"), ("multiplex", "KeyboardInterrupt")]
    if thorough:
        pairs = [(sty, cls) for sty in ("thread", "multiplex") for cls in ABORT_NAMES]
    return [g.abort_case(sty, cls) for sty, cls in pairs]


# ---------------------------------------------------------------- the proxy's side of the handshake
SER_NAMES = {1: "serpent", 2: "marshal", 3: "json", 4: "msgpack"}
REASON_TEXTS = {"validator": "denied:client-side-case", "unknown": "unknown object", "denied": None, "other": "message used serializer that is not accepted: 77"}
REASON_COQ = {"validator": "RsnValidator", "unknown": "RsnUnknownObject", "denied": "RsnDenied", "other": "RsnOther"}


def client_cases():
    """a real Proxy, configured with each serializer, against a scripted peer answering its CONNECT with every kind of
    answer through every serializer (in particular: another one than the proxy's), or not at all"""
    out = []
    for cs in sorted(known_serializers()):
        for rs in sorted(known_serializers()):
            for rsn in ("validator", "unknown", "denied", "other"):
                out.append({"kind": "client", "client_ser": cs, "answer": {"type": 3, "ser": rs, "rsn": rsn}})
            out.append({"kind": "client", "client_ser": cs, "answer": {"type": 2, "ser": rs, "rsn": None}})
        out.append({"kind": "client", "client_ser": cs, "answer": {"type": 5, "ser": cs, "rsn": None}})
        out.append({"kind": "client", "client_ser": cs, "answer": {"type": 6, "ser": 2, "rsn": None}})
        out.append({"kind": "client", "client_ser": cs, "answer": None})
    return out


def run_client_case(env, case):
    """returns the observed outcome: connected | rejected:<rsn> | noanswer | garbled | protocol (+ detail)"""
    from Pyro5 import client, errors, protocol
    sers = known_serializers()
    ans = case["answer"]
    text = None
    if ans and ans["type"] == protocol.MSG_CONNECTFAIL:
        text = REASON_TEXTS[ans["rsn"]] or env.deny_reason
    lsock = socket.socket()
    lsock.bind(("127.0.0.1", 0))
    lsock.listen(1)
    port = lsock.getsockname()[1]
    done = threading.Event()

    def peer():
        try:
            c, _ = lsock.accept()
            c.settimeout(3)
            hdr = b""
            while len(hdr) < 40:
                chunk = c.recv(40 - len(hdr))
                if not chunk:
                    break
                hdr += chunk
            dl, al = struct.unpack("!II", hdr[12:20])
            seq = struct.unpack("!H", hdr[10:12])[0]
            rest = b""
            while len(rest) < dl + al:
                rest += c.recv(dl + al - len(rest))
            if ans is not None:
                ser = sers[ans["ser"]]
                if ans["type"] == protocol.MSG_CONNECTOK:
                    payload = ser.dumps({"handshake": "hello", "meta": {"methods": ["ok"], "oneway": [], "attrs": []}})
                elif ans["type"] == protocol.MSG_CONNECTFAIL:
                    payload = ser.dumps(text)
                else:
                    payload = ser.dumps("x")
                c.sendall(rd.raw_msg(ans["type"], 0, seq, ans["ser"], payload))
                done.wait(3)
            c.close()
        except Exception:
            pass
    t = threading.Thread(target=peer, daemon=True)
    t.start()
    p = client.Proxy("PYRO:%s@127.0.0.1:%d" % (OBJ, port))
    p._pyroSerializer = SER_NAMES[case["client_ser"]]
    p._pyroTimeout = 3
    detail = None
    try:
        p._pyroBind()
        out = "connected"
    except errors.ProtocolError as x:
        out, detail = "protocol", str(x)
    except errors.ConnectionClosedError as x:
        out, detail = "noanswer", str(x)
    except errors.CommunicationError as x:
        detail = str(x)
        out = "rejected:" + ans["rsn"] if (text is not None and ("rejected: " + text) in detail) else "garbled"
    except Exception as x:
        out, detail = "garbled", "%s: %s" % (type(x).__name__, x)
    finally:
        done.set()
        try:
            p._pyroRelease()
        except Exception:
            pass
        t.join(3)
        lsock.close()
    return {"outcome": out, "detail": detail}


def c_ccase(env, case, obs):
    q = "(%s, %s, %s)" % (cbool(False), cbool(False), cbool(True))
    a = case["answer"]
    ans = "None" if a is None else "(Some (%s, %s, %s))" % (cN(a["type"]), cN(a["ser"]), "None" if a["rsn"] is None else "(Some %s)" % REASON_COQ[a["rsn"]])
    o = obs["outcome"]
    oc = {"connected": "CConnected", "noanswer": "CNoAnswer", "garbled": "CGarbled", "protocol": "CProtocol"}.get(o) or "(CRejected %s)" % REASON_COQ[o.split(":")[1]]
    return "{| cc_q := %s; cc_client_ser := %s; cc_answer := %s; cc_obs := %s |}" % (q, cN(case["client_ser"]), ans, oc)


def client_oracle(case, obs):
    from Pyro5 import protocol
    a = case["answer"]
    if a and a["type"] == protocol.MSG_CONNECTFAIL and obs["outcome"] != "rejected:" + a["rsn"]:
        return [("client-loses-rejection-reason", "proxy using %s was refused with a CONNECTFAIL written with %s: it raised %r instead of the rejection carrying the reason" % (
            SER_NAMES[case["client_ser"]], SER_NAMES[a["ser"]], obs["detail"]))]
    if a and a["type"] == protocol.MSG_CONNECTOK and obs["outcome"] != "connected":
        return [("client-fails-accepted-handshake", "proxy using %s got CONNECTOK written with %s and raised %r" % (SER_NAMES[case["client_ser"]], SER_NAMES[a["ser"]], obs["detail"]))]
    return []


def proxy_cases():
    """a real Proxy against the real daemons: refused early (full pool: answer through the fallback serializer), refused by the
    validator / for an unknown object (answer through the proxy's serializer), accepted"""
    out = []
    for cs in sorted(known_serializers()):
        out.append({"kind": "proxy", "sty": "thread", "env": "poolfull", "client_ser": cs, "scenario": "denied"})
        for sty in ("thread", "multiplex"):
            for sc in ("validator", "unknown", "ok"):
                out.append({"kind": "proxy", "sty": sty, "env": "plain", "client_ser": cs, "scenario": sc})
    return out


def run_proxy_case(env, case):
    from Pyro5 import client, errors
    srv = env.server(case["sty"], case["env"])
    sc = case["scenario"]
    env.vb[None] = {"kind": "raise", "cls": "PermissionError", "msg": "denied:proxy-case"} if sc == "validator" else {"kind": "accept", "value": "hello"}
    del EXEC_LOG[:]
    p = client.Proxy("PYRO:%s@127.0.0.1:%d" % ("nope" if sc == "unknown" else OBJ, srv.port))
    p._pyroSerializer = SER_NAMES[case["client_ser"]]
    p._pyroTimeout = 3
    res = {"outcome": None, "detail": None, "execs": 0}
    try:
        p._pyroBind()
        res["outcome"] = "connected"
        if sc == "ok":
            p.ok(4242)
    except errors.CommunicationError as x:
        res["outcome"], res["detail"] = "CommunicationError", str(x)
    except Exception as x:
        res["outcome"], res["detail"] = type(x).__name__, str(x)
    finally:
        try:
            p._pyroRelease()
        except Exception:
            pass
        env.vb.pop(None, None)
        quiesce(srv, env.base_busy())
    res["execs"] = len(EXEC_LOG)
    return res


def proxy_oracle(env, case, obs):
    sc = case["scenario"]
    # the validator's words and the transport's refusal text must arrive literally; for an unknown object any non-empty reason will do
    want = {"denied": env.deny_reason, "validator": "denied:proxy-case", "unknown": ""}.get(sc)
    who = "proxy using %s against the %s server" % (SER_NAMES[case["client_ser"]], case["sty"])
    bad = []
    if sc == "ok":
        if obs["outcome"] != "connected" or obs["execs"] != 1:
            bad.append(("client-fails-accepted-handshake", "%s: accepted handshake, but the proxy got %s %r (executions: %d)" % (who, obs["outcome"], obs["detail"], obs["execs"])))
        return bad
    if obs["execs"]:
        bad.append(("exec-without-handshake", "%s: refused (%s) but a method ran" % (who, sc)))
    detail = obs["detail"] or ""
    if obs["outcome"] != "CommunicationError" or ("rejected: " + want) not in detail or not detail.split("rejected: ", 1)[-1].strip():
        bad.append(("client-loses-rejection-reason", "%s: refused (%s) but the caller got %s %r instead of the rejection carrying %r" % (who, sc, obs["outcome"], obs["detail"], want)))
    return bad


def execute_client_side(ctx, env, model_ok, res):
    cases = client_cases()
    lits, kept = [], []
    for case in cases:
        obs = run_client_case(env, case)
        res.seen(case, True)
        res.count("client-side:" + obs["outcome"].split(":")[0])
        for sig, what in client_oracle(case, obs):
            res.violations.append({"signature": sig, "what": what, "case": case})
        lits.append(c_ccase(env, case, obs))
        kept.append((case, obs))
    if model_ok:
        for idx in vlib.run_cases(ctx, "k", IMPORTS, "ccase", "check_ccase", lits, shard=200):
            res.mismatches.append({"component": "C08-client", "case": kept[idx][0], "impl": kept[idx][1]})
    pc = sorted(proxy_cases(), key=lambda k: ENV_ORDER.index(k["env"]))
    for case in pc:
        obs = run_proxy_case(env, case)
        res.seen(case, True)
        res.count("proxy:" + case["scenario"])
        for sig, what in proxy_oracle(env, case, obs):
            res.violations.append({"signature": sig, "what": what, "case": case})
    return cases + pc


# ---------------------------------------------------------------- check.py interface


def gen_info(ctx):
    from tools.gen import gen
    st = gen.regenerate(ctx.tree, only=["GenHandshake"])["GenHandshake"]
    return st["info"] if st["ok"] else {"first_types": [1], "later_types": [4, 6]}


def classify_case(env, case):
    if env.exc is None:
        env.exc = _exc_table()
    cls = []
    timeline = registry_timeline(case)
    for i, it in enumerate(case["order"]):
        if is_app(it):
            cls.append([])
            continue
        c, si = it
        conn = case["conns"][c]
        cls.append([{"special": m["special"]} if is_special(m) else classify(m, timeline[i], conn["vb"], env.exc) for m in conn["segs"][si]])
    return cls


def short_obs(obs):
    return {"segs": [{"replies": [[r["type"], r["exc"], r["seq"], r["ser"], r["rsn"], r["text"]] for r in s["replies"]],
                      "execs": s["execs"], "end": s["end"]} for s in obs["segs"]],
            "anomalies": obs["anomalies"], "quirks": [obs["q1"], obs["q2"], obs["q3"]], "loop_alive": obs.get("loop_alive"),
            "late_execs": obs.get("late_execs", [])}


def nontrivial(case, obs):
    return sum(len(s) for c in case["conns"] for s in c["segs"]) >= 2


def execute(ctx, env, cases, model_ok, res, collect=True):
    lits, kept = [], []
    cases = sorted(cases, key=lambda k: ENV_ORDER.index(case_env(k)))      # stable: one environment after the other
    for case in cases:
        cls = classify_case(env, case)
        obs = run_impl(env, case)
        res.seen(case, nontrivial(case, obs))
        for c in case["conns"]:
            m0 = c["segs"][0][0]
            if is_special(m0):
                res.count("first:" + m0["special"])
            else:
                res.count("first:type%d:%s:ser%s" % (m0["type"], m0["wf"].split(":")[0], "known" if m0["ser"] in (1, 2, 3, 4) else "unknown"))
            res.count("validator:" + c["vb"]["kind"])
        for it in case["order"]:
            if is_app(it):
                res.count("event:app-" + it["app"])
            for sg in c["segs"]:
                for m in sg:
                    if is_special(m):
                        res.count("event:" + m["special"])
                    elif m["payload"]["k"] == "dcall":
                        res.count("event:daemon-object-call")
        res.count("servertype:" + case["sty"])
        res.count("env:" + case_env(case))
        res.count("execs", sum(len(s["execs"]) for s in obs["segs"]))
        res.count("execs-daemon-object", sum(1 for s in obs["segs"] for e in s["execs"] if e[3]))
        res.count("connections", len(case["conns"]))
        res.count("segments", len(case["order"]))
        for i0 in [i for i, it in enumerate(case["order"]) if not is_app(it) and it[1] == 0]:
            r0 = obs["segs"][i0]["replies"]
            res.count("first-answer:" + ("none" if not r0 else {2: "CONNECTOK", 3: "CONNECTFAIL"}.get(r0[0]["type"], "type%d" % r0[0]["type"])))
        try:
            verdicts = oracle(env, case, obs, cls)
        except Exception:
            import traceback
            verdicts = []
            res.mismatches.append({"component": "C08-oracle-crash", "case": case, "impl": short_obs(obs), "model": traceback.format_exc()[-800:]})
        for sig, what in verdicts:
            res.violations.append({"signature": sig, "what": what, "case": case})
        if obs["anomalies"]:
            res.count("anomalies", len(obs["anomalies"]))
            res.mismatches.append({"component": "C08-driver", "case": case, "impl": short_obs(obs), "model": "garbage / leak / dead loop"})
            continue
        if collect:
            lits.append(c_case(case, obs, cls))
            kept.append((case, obs))
    if model_ok and lits:
        for idx in vlib.run_cases(ctx, "c", IMPORTS, "case", "check_case", lits, shard=150):
            case, obs = kept[idx]
            res.mismatches.append({"component": "C08", "case": case, "impl": short_obs(obs)})
    return res


def all_cases(ctx, info, scale_random=True):
    g = Gen(ctx.rng, info)
    thorough = not ctx.quick
    cases = vlib.load_corpus(PROP) + targeted(info, thorough)
    cases += [g.case() for _ in range(ctx.n(850, 7000))]
    cases += [g.registry_case() for _ in range(ctx.n(80, 600))]
    cases += [g.timeout_case() for _ in range(ctx.n(10, 70))]
    cases += [g.poolfull_case() for _ in range(ctx.n(60, 600))]
    cases += abort_cases(g, thorough)
    return cases


def run(ctx, model_ok=True):
    res = vlib.Result()
    info = gen_info(ctx)
    env = Env()
    env.deny_reason = info.get("deny_reason", env.deny_reason)
    cases = []
    try:
        cases = all_cases(ctx, info)
        execute(ctx, env, cases, model_ok, res)
        env.stop()
        execute_client_side(ctx, env, model_ok, res)
        for sty, q in env.quirks.items():
            res.quirks["%s:silent_unknown_serializer" % sty] = q[0]
            res.quirks["%s:silent_validator_connclosed" % sty] = q[1]
        res.quirks["validator_baseexception_unanswered"] = env.q3
    finally:
        env.stop()
    res.rule = ("real daemons of both server types on loopback; per case 1-3 raw connections with interleaved segments; first "
                "event = every message type x well-formed/8 kinds of damage x known/unknown serializer id x handshake payload shape "
                "(valid, missing keys, non-dict, unhashable/unknown/daemon object id, undecodable, a call payload), or the peer going "
                "away (EOF / message cut at any offset), or silence beyond COMMTIMEOUT, or a connection refused by a full thread pool; "
                "validator accepting with 15 values (falsy, unserialisable), raising one of 31 Exception classes, or raising a "
                "BaseException-only class (throw-away servers); INVOKEs on the application object and on the daemon's own Pyro.Daemon "
                "object (also oneway) pipelined in the same TCP write behind the first message and in later segments; non-trivial = "
                "at least two events; distinct = distinct case hash")
    res.samples = cases[-2:] + cases[:1] if cases else []
    return res


def search(ctx, broken):
    res = vlib.Result()
    info = gen_info(ctx)
    env = Env()
    env.deny_reason = info.get("deny_reason", env.deny_reason)
    try:
        g = Gen(ctx.rng, info)
        cases = [b["case"] for b in broken if b.get("case")] + targeted(info) + [g.case() for _ in range(ctx.n(150, 600))]
        cases += [g.registry_case() for _ in range(ctx.n(30, 100))]
        cases += [g.poolfull_case() for _ in range(ctx.n(20, 60))] + [g.timeout_case() for _ in range(ctx.n(1, 3))]
        cases = sorted(cases, key=lambda k: ENV_ORDER.index(case_env(k)))
        for case in cases:
            cls = classify_case(env, case)
            obs = run_impl(env, case)
            res.seen(case)
            for sig, what in oracle(env, case, obs, cls):
                res.violations.append({"signature": sig, "what": what, "case": case})
        env.stop()
        execute_client_side(ctx, env, False, res)
    finally:
        env.stop()
    # concrete unknown failures first, then the ones already on file
    res.violations.sort(key=lambda v: v["signature"] in KNOWN_SIGS)
    return res


def replay(ctx, case):
    env = Env()
    env.deny_reason = gen_info(ctx).get("deny_reason", env.deny_reason)
    if case.get("kind") in ("client", "proxy"):
        try:
            if case["kind"] == "client":
                obs = run_client_case(env, case)
                bad = client_oracle(case, obs)
                if not bad and vlib.run_cases(ctx, "r", IMPORTS, "ccase", "check_ccase", [c_ccase(env, case, obs)]):
                    return True, {"mismatch": True, "impl": obs}
            else:
                obs = run_proxy_case(env, case)
                bad = proxy_oracle(env, case, obs)
            return bool(bad), {"oracle": bad, "impl": obs}
        finally:
            env.stop()
    try:
        cls = classify_case(env, case)
        obs = run_impl(env, case)
        bad = oracle(env, case, obs, cls)
        open_sigs = {k["signature"] for k in vlib.load_known() if k.get("property") == PROP and k.get("status") == "open"}
        known = [b for b in bad if b[0] in open_sigs]
        bad = [b for b in bad if b[0] not in open_sigs]
        if bad:
            return True, {"oracle": bad, "impl": short_obs(obs)}
        lit = c_case(case, obs, cls)
        idx = vlib.run_cases(ctx, "r", IMPORTS, "case", "check_case", [lit])
        if idx or obs["anomalies"]:
            model = vlib.eval_model(ctx, IMPORTS, "model_case (%s)" % lit)
            return True, {"mismatch": True, "impl": short_obs(obs), "model": model[-2000:]}
        return False, {"impl": short_obs(obs), "known_finding_reproduced": known}
    finally:
        env.stop()
