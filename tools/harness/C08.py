"""C08 — nothing is invoked on a connection before an accepted handshake.

Real daemons (thread-pool and multiplex transport servers, real request loops, real sockets on
127.0.0.1; tools/lib/rawdrv.py) are driven by raw client sockets that play *segments* (several wire
messages written in ONE send, so that whatever follows a failing first message is pipelined behind it in
the same TCP segment).  After every segment the driver sends a sync PING and reads until its pong or
EOF/RESET, which tells which replies belong to the segment and whether the server closed the connection.
The registered object logs every execution (peer port, token).

  oracle          the property stated directly over these observations (no model involved)
  correspondence  the same case, with every message *classified* (type, well-formedness, serializer known?,
                  what the payload decodes to with the real serializer, validator behaviour), is evaluated by
                  Model/HandshakeGate.v inside Coq (Harness/H08.v) and compared segment by segment.
"""
import json, struct, threading, time, zlib
from tools.lib import vlib
from tools.lib import rawdrv as rd
from tools.lib.vlib import cN, cnat, cbool, clist

PROP = "C08"
GEN = ["GenHandshake", "GenProtocol"]
ASSUMPTIONS = [
    "message classification (does the payload decode, to what) is computed with the tree's own serializers; the model takes it as input",
    "validator behaviours modelled: returns any value / raises any Exception subclass; BaseException-only classes (SystemExit, KeyboardInterrupt) are process-control signals and not covered",
    "the peer keeps its socket open while it waits for answers (a vanishing peer only makes the daemon close sooner); EOF/truncation/silence/pool-full refusals are C05/C13 territory and not modelled here",
    "pre-connected socket pairs (svr_existingconn) are exempt by the property text",
    "calls on the built-in Pyro.Daemon object are not generated (its methods do not log)",
]
IMPORTS = "From V Require Import Model.HandshakeGate Harness.Cmp Harness.H08."

SYNC_BASE = 60000
RECV_TIMEOUT = 2.5      # only ever waited out when the daemon neither answers nor closes (never on a correct tree)
RECV_TIMEOUT_AFTER_MANY = 0.3   # once 20 such silences were seen (a broken tree), stop paying for them
OBJ = "t"
KNOWN_SIGS = ("silent-close-unknown-serializer", "silent-close-validator-connclosed")

EXEC_LOG = []      # (peer port, token, method)


def _exc_table():
    from Pyro5 import errors

    class CustomError(Exception):
        pass

    class CustomConnClosed(errors.ConnectionClosedError):
        pass

    class OddStr(Exception):
        def __str__(self):
            return "odd<%s>" % (self.args[0] if self.args else "")
    import socket
    t = {"Exception": Exception, "ValueError": ValueError, "KeyError": KeyError, "TypeError": TypeError,
         "RuntimeError": RuntimeError, "OSError": OSError, "PermissionError": PermissionError,
         "AssertionError": AssertionError, "LookupError": LookupError, "StopIteration": StopIteration,
         "ZeroDivisionError": ZeroDivisionError, "MemoryError": MemoryError, "NotImplementedError": NotImplementedError,
         "UnicodeError": UnicodeError, "ConnectionResetError": ConnectionResetError, "BrokenPipeError": BrokenPipeError,
         "socket.timeout": socket.timeout, "EOFError": EOFError,
         "PyroError": errors.PyroError, "CommunicationError": errors.CommunicationError,
         "ConnectionClosedError": errors.ConnectionClosedError, "Pyro.TimeoutError": errors.TimeoutError,
         "ProtocolError": errors.ProtocolError, "SecurityError": errors.SecurityError,
         "SerializeError": errors.SerializeError, "DaemonError": errors.DaemonError, "NamingError": errors.NamingError,
         "MessageTooLargeError": errors.MessageTooLargeError,
         "CustomError": CustomError, "CustomConnClosed": CustomConnClosed, "OddStr": OddStr}
    return t


EXC_NAMES = ["Exception", "ValueError", "KeyError", "TypeError", "RuntimeError", "OSError", "PermissionError",
             "AssertionError", "LookupError", "StopIteration", "ZeroDivisionError", "MemoryError", "NotImplementedError",
             "UnicodeError", "ConnectionResetError", "BrokenPipeError", "socket.timeout", "EOFError", "PyroError",
             "CommunicationError", "ConnectionClosedError", "Pyro.TimeoutError", "ProtocolError", "SecurityError",
             "SerializeError", "DaemonError", "NamingError", "MessageTooLargeError", "CustomError", "CustomConnClosed", "OddStr"]

# values a validator may return (name -> factory); several are falsy, several cannot be serialised
VALUES = {"hello": lambda: "hello", "none": lambda: None, "false": lambda: False, "zero": lambda: 0, "empty": lambda: "",
          "list": lambda: [], "dict": lambda: {"k": [1, 2]}, "int": lambda: 12345, "float": lambda: 3.5,
          "tuple": lambda: ("a", "b"), "true": lambda: True, "bytes": lambda: b"ab",
          "object": lambda: object(), "lock": lambda: threading.Lock(), "type": lambda: int}
VALUE_NAMES = sorted(VALUES)


class Env:
    """the two real daemons, kept for the whole run"""
    def __init__(self):
        self.servers = {}
        self.vb = {}          # peer port -> validator behaviour spec
        self.exc = None
        self.quirks = {}
        self.silences = 0

    def server(self, sty):
        if sty not in self.servers:
            import Pyro5.api as api
            if self.exc is None:
                self.exc = _exc_table()
            env = self

            def validator(conn, data):
                port = conn.sock.getpeername()[1]
                b = env.vb.get(port) or {"kind": "accept", "value": "hello"}
                if b["kind"] == "raise":
                    raise env.exc[b["cls"]](b["msg"])
                return VALUES[b["value"]]()

            class Target(object):
                @api.expose
                def ok(self, tok):
                    EXEC_LOG.append((_peer_port(), tok, "ok"))
                    return tok

                @api.expose
                def boom(self, tok):
                    EXEC_LOG.append((_peer_port(), tok, "boom"))
                    raise ValueError("boom %r" % (tok,))

                def hidden(self, tok):          # not exposed: must never run
                    EXEC_LOG.append((_peer_port(), tok, "hidden"))
                    return tok

                def _private(self, tok):
                    EXEC_LOG.append((_peer_port(), tok, "_private"))
                    return tok
            srv = rd.Server(sty, validator=validator, pool_size=64, pool_min=4).start()
            srv.register(Target(), OBJ)
            self.servers[sty] = srv
        return self.servers[sty]

    def stop(self):
        for sty in reversed(list(self.servers)):
            try:
                self.servers[sty].stop()
            except Exception:
                pass
        self.servers = {}


def _peer_port():
    from Pyro5.api import current_context
    try:
        return current_context.client_sock_addr[1]
    except Exception:
        try:
            return current_context.client.sock.getpeername()[1]
        except Exception:
            return None


# ---------------------------------------------------------------- building and classifying messages
def known_serializers():
    from Pyro5 import serializers
    return dict(serializers.serializers_by_id)


def hs_value(p):
    shape = p.get("shape", "full")
    obj = p.get("obj", OBJ)
    return {"full": {"handshake": "hello", "object": obj}, "nohandshake": {"object": obj, "other": 1},
            "noobject": {"handshake": "x"}, "list": ["handshake", "object"], "str": "handshake", "int": 5,
            "objlist": {"handshake": "h", "object": [1, 2]}, "extra": {"handshake": {"a": 1}, "object": obj, "more": [1]},
            "none": None}[shape]


def payload_bytes(spec, ser):
    """ser: a serializer object (the request's own, or serpent when the id is unknown)"""
    p = spec["payload"]
    k = p["k"]
    if k == "hs":
        return ser.dumps(hs_value(p))
    if k == "call":
        return ser.dumpsCall(p["obj"], p["method"], (p["tok"],), {})
    if k == "call_evil":
        return ser.dumpsCall(p["obj"], p["method"], ({"__class__": "builtins.__evil__"},), {})
    if k == "call_badargs":
        return ser.dumpsCall(p["obj"], p["method"], (p["tok"], 1, 2), {"zz": 1})
    if k == "raw":
        return bytes.fromhex(p["hex"])
    raise ValueError(k)


def build_message(spec):
    """wire bytes of one message spec (real encoder, then structure-aware damage)"""
    from Pyro5 import protocol
    sers = known_serializers()
    ser = sers.get(spec["ser"]) or sers[1]
    body = payload_bytes(spec, ser)
    wfk = spec["wf"]
    flags = spec["flags"] & ~protocol.FLAGS_COMPRESSED
    compressed = bool(spec["flags"] & protocol.FLAGS_COMPRESSED)
    if wfk == "hdr:garbage":
        return (b"GET /pyro HTTP/1.1\r\nHost: localhost\r\nAccept: */*\r\n\r\n" + b"x" * 16)
    ann = None
    if wfk in ("body:tile", "body:annid"):
        ann = {"ABCD": b"xy"}
    elif spec.get("ann"):
        ann = {"HARN": b"\x01\x02\x03"}
    if compressed and wfk != "body:zlib":
        body = zlib.compress(body, 4)
    data = bytearray(rd.raw_msg(spec["type"], flags, spec["seq"], spec["ser"], body, ann))
    if compressed or wfk == "body:zlib":
        f = struct.unpack("!H", data[8:10])[0] | protocol.FLAGS_COMPRESSED
        data[8:10] = struct.pack("!H", f)
    if wfk == "hdr:tag":
        data[0:4] = b"PYRX"
    elif wfk == "hdr:version":
        data[4:6] = struct.pack("!H", (protocol.PROTOCOL_VERSION + 1) & 0xffff)
    elif wfk == "hdr:magic":
        data[38:40] = bytes([data[38] ^ 0xff, data[39] ^ 0x5a])
    elif wfk == "hdr:size":
        data[12:16] = struct.pack("!I", 0xfffffff0)
        del data[40:]
    elif wfk == "body:tile":
        data[44:48] = struct.pack("!I", 100)
    elif wfk == "body:annid":
        data[40:44] = b"\xff\xfe\xfd\xfc"
    return bytes(data)


def classify(spec, registered, vbspec, exc_table):
    """classification of a message spec = the model's input.  Uses the tree's serializers to learn what the
    payload decodes to, mirroring the accesses the daemon makes (data["handshake"], data["object"], 4-tuple unpack)."""
    from Pyro5 import errors, protocol
    sers = known_serializers()
    known = spec["ser"] in sers
    wf = "WfOk" if spec["wf"] == "ok" else ("WfBadHeader" if spec["wf"].startswith("hdr:") else "WfBadBody")
    hs, call = "HsUndecodable", "CpFail DfKeep"
    if known and wf == "WfOk":
        ser = sers[spec["ser"]]
        body = payload_bytes(spec, ser)
        # as a handshake request
        try:
            data = ser.loads(body)
        except Exception:
            hs = "HsUndecodable"
        else:
            try:
                data["handshake"]
            except Exception:
                hs = "HsNoHandshakeKey"
            else:
                try:
                    o = data["object"]
                except Exception:
                    hs = "HsNoObjectKey"
                else:
                    try:
                        hs = "HsFull ObjKnown" if registered.get(o) is not None else "HsFull ObjUnknown"
                    except Exception:
                        hs = "HsFull ObjBad"
        # as a call
        try:
            objid, method, vargs, kwargs = ser.loadsCall(body)
        except Exception as x:
            if isinstance(x, (errors.SerializeError, errors.SecurityError)):
                call = "CpFail DfCloseReply"
            elif isinstance(x, errors.CommunicationError):
                call = "CpFail DfCloseSilent"
            else:
                call = "CpFail DfKeep"
        else:
            try:
                obj_known = registered.get(objid) is not None
            except Exception:
                obj_known = False
            meth, tok = "MUnknown", 0
            try:
                if objid == OBJ and method in ("ok", "boom") and len(vargs) == 1 and not kwargs \
                        and isinstance(vargs[0], int) and not isinstance(vargs[0], bool) and vargs[0] >= 0:
                    meth = "MReturns" if method == "ok" else "MRaises"
                    tok = vargs[0]
            except Exception:
                pass
            call = "CpCall %s %s %s" % (cbool(obj_known), meth, cN(tok))
    # validator behaviour of this connection
    if vbspec["kind"] == "raise":
        val = "VRaise %s" % cbool(issubclass(exc_table[vbspec["cls"]], errors.ConnectionClosedError))
    else:
        okser = True
        if known:
            try:
                sers[spec["ser"]].dumps({"handshake": VALUES[vbspec["value"]](), "meta": {"methods": {"a"}, "oneway": set(), "attrs": set()}})
            except Exception:
                okser = False
        val = "VAccept %s" % cbool(okser)
    return {"type": spec["type"], "wf": wf, "ser": spec["ser"], "ser_known": known, "seq": spec["seq"],
            "oneway": bool(spec["flags"] & protocol.FLAGS_ONEWAY), "hs": hs, "call": call, "val": val}


def c_msg(cl):
    return ("{| m_type := %s; m_wf := %s; m_ser := %s; m_ser_known := %s; m_seq := %s; m_oneway := %s; "
            "m_hs := %s; m_call := %s; m_val := %s |}") % (
        cN(cl["type"]), cl["wf"], cN(cl["ser"]), cbool(cl["ser_known"]), cN(cl["seq"]), cbool(cl["oneway"]),
        cl["hs"], cl["call"], cl["val"])


def c_reply(r):
    rs = {None: "None", "validator": "(Some RsnValidator)", "unknown": "(Some RsnUnknownObject)", "other": "(Some RsnOther)"}[r["rsn"]]
    return "{| or_type := %s; or_exc := %s; or_seq := %s; or_ser := %s; or_rsn := %s |}" % (
        cN(r["type"]), cbool(r["exc"]), cN(r["seq"]), cN(r["ser"]), rs)


def c_case(case, obs, cls):
    segs = []
    for i, (c, si) in enumerate(case["order"]):
        o = obs["segs"][i]
        msgs = clist([c_msg(m) for m in cls[i]])
        segs.append("{| s_conn := %s; s_msgs := %s; s_replies := %s; s_execs := %s; s_closed := %s |}" % (
            cnat(c), msgs, clist([c_reply(r) for r in o["replies"]]),
            clist(["(%s, %s)" % (cnat(e[0]), cN(e[1])) for e in o["execs"]]), cbool(o["closed"])))
    return "{| k_sty := %s; k_q1 := %s; k_q2 := %s; k_segs := %s |}" % (
        "Thread" if case["sty"] == "thread" else "Multiplex", cbool(obs["q1"]), cbool(obs["q2"]), clist(segs))


# ---------------------------------------------------------------- running one case on the real daemon
def expected_reason_text(env, vbspec):
    return str(env.exc[vbspec["cls"]](vbspec["msg"]))


def canon_reply(env, m, vbspec):
    from Pyro5 import protocol
    r = {"type": m["type"], "exc": bool(m["flags"] & protocol.FLAGS_EXCEPTION), "seq": m["seq"], "ser": m["serializer_id"],
         "rsn": None, "text": None}
    if m["type"] == protocol.MSG_CONNECTFAIL:
        v = m.get("value")
        r["text"] = v if isinstance(v, str) else repr(m.get("value", m.get("value_error")))
        if vbspec["kind"] == "raise" and v == expected_reason_text(env, vbspec):
            r["rsn"] = "validator"
        elif isinstance(v, str) and "unknown object" in v.lower():
            r["rsn"] = "unknown"
        else:
            r["rsn"] = "other"
    return r


def wait_oneway():
    for t in threading.enumerate():
        if type(t).__name__ == "_OnewayCallThread":
            t.join(2.0)


def quiesce(srv, timeout=3.0):
    t0 = time.time()
    while time.time() - t0 < timeout:
        a = srv.accounting()
        if a.get("busy", 0) == 0 and a.get("registered", 0) == 0:
            return True
        time.sleep(0.0005)
    return False


def probe_quirks(env, sty):
    """which variant of the two known defects does the tree show (witnesses of findings/C08.json)"""
    if sty in env.quirks:
        return env.quirks[sty]
    q = []
    for spec_first, vbspec in (
            ({"type": 1, "wf": "ok", "ser": 99, "seq": 7, "flags": 0, "payload": {"k": "hs", "shape": "full", "obj": OBJ}},
             {"kind": "accept", "value": "hello"}),
            ({"type": 1, "wf": "ok", "ser": 1, "seq": 7, "flags": 0, "payload": {"k": "hs", "shape": "full", "obj": OBJ}},
             {"kind": "raise", "cls": "ConnectionClosedError", "msg": "auth backend down"})):
        case = {"sty": sty, "conns": [{"vb": vbspec, "segs": [[spec_first]]}], "order": [[0, 0]]}
        obs = run_impl(env, case, probe=True)
        q.append(len(obs["segs"][0]["replies"]) == 0 and obs["segs"][0]["closed"])
    env.quirks[sty] = tuple(q)
    return env.quirks[sty]


def run_impl(env, case, probe=False):
    from Pyro5 import protocol
    srv = env.server(case["sty"])
    q1, q2 = (False, False) if probe else probe_quirks(env, case["sty"])
    clients, ports = {}, {}
    sync = [SYNC_BASE]
    obs = {"segs": [], "anomalies": [], "q1": q1, "q2": q2}
    del EXEC_LOG[:]
    closed_seen = {}
    try:
        for (c, si) in case["order"]:
            conn = case["conns"][c]
            msgs = conn["segs"][si]
            data = b"".join(build_message(m) for m in msgs)
            log0 = len(EXEC_LOG)
            seg = {"replies": [], "closed": False, "execs": []}
            if c not in clients:
                cl = rd.RawClient(srv.port, timeout=RECV_TIMEOUT if env.silences < 20 else RECV_TIMEOUT_AFTER_MANY)
                clients[c] = cl
                ports[cl.port] = c
                env.vb[cl.port] = conn["vb"]
            cl = clients[c]
            if closed_seen.get(c):
                cl.send(data)
                seg["closed"] = True
            else:
                cl.send(data)
                sync[0] += 1
                cl.send(rd.ping_msg(seq=sync[0]))
                while True:
                    m = cl.recv_msg()
                    if m in ("EOF", "RESET"):
                        seg["closed"] = True
                        closed_seen[c] = True
                        break
                    if isinstance(m, str) or "undecodable" in m:
                        if m == "TIMEOUT":
                            env.silences += 1
                        obs["anomalies"].append({"seg": len(obs["segs"]), "what": m if isinstance(m, str) else "undecodable reply"})
                        break
                    if m["type"] == protocol.MSG_PING and m["seq"] == sync[0]:
                        break
                    seg["replies"].append(canon_reply(env, m, conn["vb"]))
            if any(m["flags"] & protocol.FLAGS_ONEWAY for m in msgs):
                wait_oneway()
            for (port, tok, meth) in EXEC_LOG[log0:]:
                seg["execs"].append([ports.get(port, 999), tok if isinstance(tok, int) and not isinstance(tok, bool) and tok >= 0 else 999999, meth])
            obs["segs"].append(seg)
    finally:
        for cl in clients.values():
            env.vb.pop(cl.port, None)
            cl.close()
        if not quiesce(srv):
            obs["anomalies"].append({"seg": -1, "what": "server did not release the connections of this case"})
        if not srv.loop_alive():
            obs["anomalies"].append({"seg": -1, "what": "daemon request loop died: %r" % (srv.loop_exception,)})
    # executions that arrive after the last segment (late oneway threads) would be attributed nowhere
    return obs


# ---------------------------------------------------------------- the oracle: the property over the observations
def first_must_fail(case, c, cls_first):
    """the property's notion, from the input alone: is the first message of connection c anything else than a
    well-formed CONNECT (known serializer) for a registered object that the validator accepts"""
    from Pyro5 import protocol
    vb = case["conns"][c]["vb"]
    m = cls_first
    ok = (m["type"] == protocol.MSG_CONNECT and m["wf"] == "WfOk" and m["ser_known"] and m["hs"] == "HsFull ObjKnown" and vb["kind"] == "accept")
    return not ok


def oracle(env, case, obs, cls):
    from Pyro5 import protocol
    bad = []
    nconn = len(case["conns"])
    firsts, per_conn = {}, {c: [] for c in range(nconn)}
    for i, (c, si) in enumerate(case["order"]):
        per_conn[c].append((i, si))
        if si == 0:
            firsts[c] = cls[i][0]
    if any(a["what"].startswith("daemon request loop died") for a in obs["anomalies"]):
        bad.append(("daemon-loop-died", "the daemon's request loop ended while playing the case"))
    connok_at = {}
    for c in range(nconn):
        if not per_conn[c]:
            continue
        vb = case["conns"][c]["vb"]
        m0 = firsts[c]
        must_fail = first_must_fail(case, c, m0)
        i0 = per_conn[c][0][0]
        for (i, si) in per_conn[c]:
            for r in obs["segs"][i]["replies"]:
                if r["type"] == protocol.MSG_CONNECTOK and c not in connok_at:
                    connok_at[c] = i
        if not must_fail:
            continue
        o0 = obs["segs"][i0]
        CONNECT = protocol.MSG_CONNECT
        validator_reached = m0["type"] == CONNECT and m0["wf"] == "WfOk" and m0["ser_known"] and m0["hs"] in ("HsNoObjectKey", "HsFull ObjKnown", "HsFull ObjUnknown", "HsFull ObjBad")
        if m0["type"] != CONNECT:
            cause = "type %d instead of CONNECT" % m0["type"]
        elif m0["wf"] != "WfOk":
            cause = "malformed CONNECT message"
        elif not m0["ser_known"]:
            cause = "unknown serializer id %d" % m0["ser"]
        elif validator_reached and vb["kind"] == "raise":
            cause = "validator raises %s" % vb["cls"]
        elif m0["hs"] == "HsFull ObjUnknown":
            cause = "unknown object"
        else:
            cause = "handshake payload %s" % m0["hs"]
        if c in connok_at:
            bad.append(("handshake-accepted-wrongly", "first message (%s) was answered CONNECTOK" % cause))
        fails = [r for r in o0["replies"] if r["type"] == protocol.MSG_CONNECTFAIL]
        others = [r for r in o0["replies"] if r["type"] not in (protocol.MSG_CONNECTFAIL, protocol.MSG_CONNECTOK)]
        if not fails and c not in connok_at:
            if m0["type"] == CONNECT and m0["wf"] == "WfOk" and not m0["ser_known"]:
                bad.append(("silent-close-unknown-serializer", "CONNECT with unknown serializer id %d: no CONNECTFAIL was sent (closed=%s)" % (m0["ser"], o0["closed"])))
            elif validator_reached and vb["kind"] == "raise" and m0["val"] == "VRaise true":
                bad.append(("silent-close-validator-connclosed", "validator raised %s: no CONNECTFAIL was sent (closed=%s)" % (vb["cls"], o0["closed"])))
            else:
                bad.append(("missing-connectfail", "failing first message (%s): no CONNECTFAIL was sent" % cause))
        if len(fails) > 1:
            bad.append(("reply-after-failed-handshake", "more than one CONNECTFAIL"))
        if others:
            bad.append(("reply-after-failed-handshake", "failing first message (%s): the peer also got replies of type %s" % (cause, [r["type"] for r in others])))
        for r in fails[:1]:
            if validator_reached and vb["kind"] == "raise":
                if r["rsn"] != "validator":
                    bad.append(("wrong-reason", "validator raised %s(%r) but CONNECTFAIL carries %r" % (vb["cls"], vb["msg"], r["text"])))
            elif m0["type"] != CONNECT or (m0["hs"] == "HsFull ObjUnknown" and vb["kind"] == "accept" and m0["wf"] == "WfOk" and m0["ser_known"]):
                if not (isinstance(r["text"], str) and r["text"].strip() and r["text"] != "None"):
                    bad.append(("empty-reason", "CONNECTFAIL for (%s) carries no reason text" % cause))
        if not o0["closed"]:
            bad.append(("not-closed-after-failed-handshake", "failing first message (%s): the connection was still served afterwards" % cause))
        for (i, si) in per_conn[c][1:]:
            if obs["segs"][i]["replies"] or not obs["segs"][i]["closed"]:
                bad.append(("reply-after-failed-handshake", "messages sent after the failed handshake (%s) were answered / connection open" % cause))
    # executions: only for a connection that was answered CONNECTOK before, whose first message may be accepted
    for i, seg in enumerate(obs["segs"]):
        c_seg = case["order"][i][0]
        sent = set()
        for (c, si) in case["order"][:i + 1]:
            for m in case["conns"][c]["segs"][si]:
                if m["payload"].get("tok") is not None and c == c_seg:
                    sent.add(m["payload"]["tok"])
        for (ec, tok, meth) in seg["execs"]:
            if meth in ("hidden", "_private"):
                bad.append(("unexposed-method-ran", "method %s ran" % meth))
            if ec == 999:
                bad.append(("exec-without-handshake", "method %s(%s) ran on behalf of a connection the case does not know" % (meth, tok)))
                continue
            if ec not in connok_at or connok_at[ec] > i or first_must_fail(case, ec, firsts[ec]):
                bad.append(("exec-without-handshake", "method %s(%s) ran for connection %d which never completed an accepted handshake" % (meth, tok, ec)))
            elif ec != c_seg or tok not in sent:
                bad.append(("exec-not-on-behalf", "method %s(%s) ran for connection %d while connection %d was sending" % (meth, tok, ec, c_seg)))
    seen, out = set(), []
    for sig, what in bad:
        if sig not in seen:
            seen.add(sig)
            out.append((sig, what))
    return out


# ---------------------------------------------------------------- generator
TYPES_ALL = [0, 1, 2, 3, 4, 5, 6, 7, 99]
SER_UNKNOWN = [0, 5, 42, 99, 255]
WF_BAD = ["hdr:tag", "hdr:version", "hdr:magic", "hdr:size", "hdr:garbage", "body:tile", "body:annid", "body:zlib"]


def gen_vb(rng, bias_accept=0.55):
    if rng.random() < bias_accept:
        return {"kind": "accept", "value": rng.choice(VALUE_NAMES if rng.random() < 0.6 else ["hello", "none", "false", "zero", "dict"])}
    return {"kind": "raise", "cls": rng.choice(EXC_NAMES), "msg": "denied:%d" % rng.randrange(10 ** 6)}


class Gen:
    def __init__(self, rng, info):
        self.rng, self.info = rng, info
        self.tok = 0
        self.known = sorted(known_serializers())

    def token(self):
        self.tok += 1
        return self.tok

    def base(self, mtype, payload, ser=None, wf="ok"):
        rng = self.rng
        flags = 0
        if rng.random() < 0.15:
            flags |= 64      # FLAGS_CORR_ID
        if rng.random() < 0.08:
            flags |= 2       # FLAGS_COMPRESSED (validly compressed)
        return {"type": mtype, "wf": wf, "ser": rng.choice(self.known) if ser is None else ser, "seq": rng.randrange(0, 50000),
                "flags": flags, "payload": payload, "ann": rng.random() < 0.1}

    def call(self, oneway=None, method=None, obj=None):
        rng = self.rng
        method = method or rng.choice(["ok", "ok", "ok", "boom", "hidden", "_private", "nosuch", "__class__"])
        obj = obj or rng.choice([OBJ, OBJ, OBJ, OBJ, "nope", ""])
        k = "call" if rng.random() < 0.9 else rng.choice(["call_evil", "call_badargs"])
        m = self.base(4, {"k": k, "obj": obj, "method": method, "tok": self.token()})
        if oneway if oneway is not None else rng.random() < 0.15:
            m["flags"] |= 4
        return m

    def ping(self):
        m = self.base(6, {"k": "raw", "hex": b"ping".hex()})
        return m

    def hs_payload(self, good):
        rng = self.rng
        if good:
            return {"k": "hs", "shape": rng.choice(["full", "full", "full", "extra"]), "obj": rng.choice([OBJ, OBJ, "Pyro.Daemon"])}
        r = rng.random()
        if r < 0.35:
            return {"k": "hs", "shape": "full", "obj": rng.choice(["nope", "", "T", "Pyro.NameServer", "t "])}
        if r < 0.75:
            return {"k": "hs", "shape": rng.choice(["nohandshake", "noobject", "list", "str", "int", "objlist", "none"]), "obj": OBJ}
        if r < 0.88:
            return {"k": "raw", "hex": rng.choice([b"", b"\x00\x01garbage", b"{", b"(1,2", b"\xff" * 9]).hex()}
        return {"k": rng.choice(["call", "call_evil"]), "obj": OBJ, "method": "ok", "tok": self.token()}

    def first_message(self):
        """(message, intended-to-be-accepted?)"""
        rng = self.rng
        r = rng.random()
        if r < 0.34:
            return self.base(1, self.hs_payload(True))
        if r < 0.46:      # CONNECT, bad payload
            return self.base(1, self.hs_payload(False))
        if r < 0.56:      # CONNECT, unknown serializer
            return self.base(1, self.hs_payload(rng.random() < 0.7), ser=rng.choice(SER_UNKNOWN))
        if r < 0.68:      # CONNECT, malformed
            return self.base(1, self.hs_payload(rng.random() < 0.7), wf=rng.choice(WF_BAD))
        if r < 0.90:      # another type, any payload (including a perfectly valid handshake payload)
            t = rng.choice([t for t in TYPES_ALL if t != 1] + [4, 4, 6])
            rr = rng.random()
            if rr < 0.4:
                p = self.hs_payload(True)
            elif rr < 0.8:
                p = {"k": "call", "obj": OBJ, "method": "ok", "tok": self.token()}
            else:
                p = self.hs_payload(False)
            m = self.base(t, p, ser=rng.choice(self.known + [99]) if rng.random() < 0.2 else None)
            if rng.random() < 0.15:
                m["flags"] |= 4
            return m
        # another type and malformed
        return self.base(rng.choice(TYPES_ALL), self.hs_payload(True), wf=rng.choice(WF_BAD))

    def later_message(self):
        rng = self.rng
        r = rng.random()
        if r < 0.55:
            return self.call()
        if r < 0.70:
            return self.ping()
        if r < 0.76:
            return self.base(4, {"k": "call", "obj": OBJ, "method": "ok", "tok": self.token()}, ser=rng.choice(SER_UNKNOWN))
        if r < 0.82:
            return self.base(rng.choice([4, 4, 6]), {"k": "call", "obj": OBJ, "method": "ok", "tok": self.token()}, wf=rng.choice(WF_BAD))
        if r < 0.90:
            return self.base(rng.choice([0, 1, 2, 3, 5, 7, 99]), rng.choice([self.hs_payload(True), {"k": "call", "obj": OBJ, "method": "ok", "tok": self.token()}]))
        if r < 0.96:
            return self.base(4, self.hs_payload(rng.random() < 0.5))
        return self.base(4, {"k": "raw", "hex": rng.choice([b"", b"\x00\x01garbage", b"{"]).hex()})

    def connection(self):
        rng = self.rng
        first = self.first_message()
        seg0 = [first]
        if rng.random() < 0.7:           # pipelined in the same TCP segment behind the first message
            for _ in range(rng.choice([1, 1, 2, 3])):
                seg0.append(self.call() if rng.random() < 0.7 else self.later_message())
        segs = [seg0]
        for _ in range(rng.choice([0, 1, 1, 2, 3])):
            segs.append([self.later_message() for _ in range(rng.choice([1, 1, 2, 3]))])
        return {"vb": gen_vb(rng), "segs": segs}

    def case(self, sty=None):
        rng = self.rng
        self.tok = 0
        conns = [self.connection() for _ in range(rng.choice([1, 1, 2, 2, 3]))]
        order = []
        left = [[c, 0] for c in range(len(conns))]
        while left:
            k = rng.randrange(len(left))
            c, si = left[k]
            order.append([c, si])
            if si + 1 < len(conns[c]["segs"]):
                left[k][1] += 1
            else:
                left.pop(k)
        return {"sty": sty or rng.choice(["thread", "multiplex"]), "conns": conns, "order": order}


def targeted(info):
    """the product the property quantifies over, one connection each: every first-message type x valid/malformed x
    serializer id x payload shape, with an INVOKE pipelined in the same segment; every validator behaviour"""
    out = []
    tok = [1000]

    def inv(oneway=False):
        tok[0] += 1
        return {"type": 4, "wf": "ok", "ser": 1, "seq": 11, "flags": 4 if oneway else 0, "ann": False,
                "payload": {"k": "call", "obj": OBJ, "method": "ok", "tok": tok[0]}}

    def one(first, vb, sty):
        segs = [[first, inv(), inv(True)], [inv(), {"type": 6, "wf": "ok", "ser": 1, "seq": 12, "flags": 0, "ann": False, "payload": {"k": "raw", "hex": "70696e67"}}]]
        out.append({"sty": sty, "conns": [{"vb": vb, "segs": segs}], "order": [[0, 0], [0, 1]]})
    acc = {"kind": "accept", "value": "hello"}
    good = {"k": "hs", "shape": "full", "obj": OBJ}
    extra_types = sorted(set(info.get("first_types", [])) | set(TYPES_ALL))
    for sty in ("thread", "multiplex"):
        for t in extra_types:
            for ser in (1, 2, 3, 4, 99):
                for p in (good, {"k": "call", "obj": OBJ, "method": "ok", "tok": 999}):
                    if sty == "multiplex" and ser in (2, 4) and t not in (1, 4):
                        continue
                    one({"type": t, "wf": "ok", "ser": ser, "seq": 9, "flags": 0, "ann": False, "payload": dict(p)}, acc, sty)
            for wf in WF_BAD:
                one({"type": t, "wf": wf, "ser": 1, "seq": 9, "flags": 0, "ann": False, "payload": dict(good)}, acc, sty)
        for shape in ("nohandshake", "noobject", "list", "str", "int", "objlist", "none", "extra"):
            for ser in (1, 3):
                one({"type": 1, "wf": "ok", "ser": ser, "seq": 9, "flags": 0, "ann": False, "payload": {"k": "hs", "shape": shape, "obj": OBJ}}, acc, sty)
        for obj in ("nope", "", "Pyro.Daemon"):
            one({"type": 1, "wf": "ok", "ser": 1, "seq": 9, "flags": 0, "ann": False, "payload": {"k": "hs", "shape": "full", "obj": obj}}, acc, sty)
        for cls in EXC_NAMES:
            one({"type": 1, "wf": "ok", "ser": 1, "seq": 9, "flags": 0, "ann": False, "payload": dict(good)},
                {"kind": "raise", "cls": cls, "msg": "denied:%s" % cls}, sty)
        for v in VALUE_NAMES:
            for ser in (1, 3):
                one({"type": 1, "wf": "ok", "ser": ser, "seq": 9, "flags": 0, "ann": False, "payload": dict(good)},
                    {"kind": "accept", "value": v}, sty)
    return out


# ---------------------------------------------------------------- check.py interface
def gen_info(ctx):
    from tools.gen import gen
    st = gen.regenerate(ctx.tree, only=["GenHandshake"])["GenHandshake"]
    return st["info"] if st["ok"] else {"first_types": [1], "later_types": [4, 6]}


def classify_case(env, case):
    srv = env.server(case["sty"])
    registered = srv.daemon.objectsById
    cls = []
    for (c, si) in case["order"]:
        conn = case["conns"][c]
        cls.append([classify(m, registered, conn["vb"], env.exc) for m in conn["segs"][si]])
    return cls


def short_obs(obs):
    return {"segs": [{"replies": [[r["type"], r["exc"], r["seq"], r["ser"], r["rsn"], r["text"]] for r in s["replies"]],
                      "execs": s["execs"], "closed": s["closed"]} for s in obs["segs"]],
            "anomalies": obs["anomalies"], "quirks": [obs["q1"], obs["q2"]]}


def nontrivial(case, obs):
    return sum(len(s) for c in case["conns"] for s in c["segs"]) >= 2


def execute(ctx, env, cases, model_ok, res, collect=True):
    lits, kept = [], []
    for case in cases:
        cls = classify_case(env, case)
        obs = run_impl(env, case)
        res.seen(case, nontrivial(case, obs))
        for c in case["conns"]:
            m0 = c["segs"][0][0]
            res.count("first:type%d:%s:ser%s" % (m0["type"], m0["wf"].split(":")[0], "known" if m0["ser"] in (1, 2, 3, 4) else "unknown"))
            res.count("validator:" + (c["vb"]["kind"] if c["vb"]["kind"] == "accept" else "raise"))
        res.count("servertype:" + case["sty"])
        res.count("execs", sum(len(s["execs"]) for s in obs["segs"]))
        res.count("connections", len(case["conns"]))
        res.count("segments", len(case["order"]))
        for i0 in [i for i, (c, si) in enumerate(case["order"]) if si == 0]:
            r0 = obs["segs"][i0]["replies"]
            res.count("first-answer:" + ("none" if not r0 else {2: "CONNECTOK", 3: "CONNECTFAIL"}.get(r0[0]["type"], "type%d" % r0[0]["type"])))
        for sig, what in oracle(env, case, obs, cls):
            res.violations.append({"signature": sig, "what": what, "case": case})
        if obs["anomalies"]:
            res.count("anomalies", len(obs["anomalies"]))
            res.mismatches.append({"component": "C08-driver", "case": case, "impl": short_obs(obs), "model": "unexpected silence / garbage / leak"})
            continue
        if collect:
            lits.append(c_case(case, obs, cls))
            kept.append((case, obs))
    if model_ok and lits:
        for idx in vlib.run_cases(ctx, "c", IMPORTS, "case", "check_case", lits, shard=150):
            case, obs = kept[idx]
            res.mismatches.append({"component": "C08", "case": case, "impl": short_obs(obs)})
    return res


def run(ctx, model_ok=True):
    res = vlib.Result()
    info = gen_info(ctx)
    env = Env()
    try:
        env.server("thread")
        env.server("multiplex")
        g = Gen(ctx.rng, info)
        cases = vlib.load_corpus(PROP) + targeted(info) + [g.case() for _ in range(ctx.n(1200, 12000))]
        execute(ctx, env, cases, model_ok, res)
        for sty, q in env.quirks.items():
            res.quirks["%s:silent_unknown_serializer" % sty] = q[0]
            res.quirks["%s:silent_validator_connclosed" % sty] = q[1]
    finally:
        env.stop()
    res.rule = ("real daemons of both server types on loopback; per case 1-3 raw connections with interleaved segments; first "
                "message = every type x well-formed/8 kinds of damage x known/unknown serializer id x handshake payload shape "
                "(valid, missing keys, non-dict, unhashable/unknown/daemon object id, undecodable, a call payload), validator "
                "accepting with 15 values (falsy, unserialisable) or raising one of 31 Exception classes; INVOKEs (also oneway) "
                "pipelined in the same TCP write behind the first message and in later segments; non-trivial = at least two "
                "messages; distinct = distinct case hash")
    res.samples = cases[-2:] + cases[:1] if cases else []
    return res


def search(ctx, broken):
    res = vlib.Result()
    info = gen_info(ctx)
    env = Env()
    try:
        g = Gen(ctx.rng, info)
        cases = [b["case"] for b in broken if b.get("case")] + targeted(info) + [g.case() for _ in range(ctx.n(150, 600))]
        for case in cases:
            cls = classify_case(env, case)
            obs = run_impl(env, case)
            res.seen(case)
            for sig, what in oracle(env, case, obs, cls):
                res.violations.append({"signature": sig, "what": what, "case": case})
    finally:
        env.stop()
    # concrete unknown failures first, then the ones already on file
    res.violations.sort(key=lambda v: v["signature"] in KNOWN_SIGS)
    return res


def replay(ctx, case):
    env = Env()
    try:
        cls = classify_case(env, case)
        obs = run_impl(env, case)
        bad = oracle(env, case, obs, cls)
        if bad:
            return True, {"oracle": bad, "impl": short_obs(obs)}
        res = vlib.Result()
        lit = c_case(case, obs, cls)
        idx = vlib.run_cases(ctx, "r", IMPORTS, "case", "check_case", [lit])
        if idx or obs["anomalies"]:
            model = vlib.eval_model(ctx, IMPORTS, "model_case (%s)" % lit)
            return True, {"mismatch": True, "impl": short_obs(obs), "model": model[-2000:]}
        return False, {"impl": short_obs(obs)}
    finally:
        env.stop()
