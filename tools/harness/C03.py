"""C03 — a call returns its own reply or fails: real Proxy <-> real Daemon over the in-process loopback
transport with per-message fault scripts, against Model/ClientProto.v (DESIGN 6/C03)."""
import logging
from tools.lib import vlib
from tools.lib.vlib import cN, cnat, cbool, clist

PROP = "C03"
GEN = ["GenClient"]
ASSUMPTIONS = [
    "transport = tools/lib/loopback.py (+ loopback_c03.py): replies are whole messages in a FIFO per connection; a "
    "timeout is the event 'nothing to read', not wall-clock time; a request is processed by the server either completely "
    "or not at all",
    "oneway methods are run inline (the _OnewayCallThread is started synchronously) so that execution counts are deterministic",
    "an injected stale reply is a MSG_RESULT reply the server really produced earlier in the history; the theorems assume it is "
    "less than 2^16 requests old (ghost flag s_window_ok), which a 16-bit counter cannot avoid",
    "the server side of the loopback reproduces svr_multiplex's containment (exception -> disconnect hook -> close)",
]
IMPORTS = "From V Require Import Model.ClientProto Harness.Cmp Harness.H03."

KINDS = ["normal", "raise", "sec", "oneway", "onewayraise", "batch", "batchraise", "batchoneway", "batchonewaybad", "attr", "stream"]
CK = {"normal": "KNormal", "raise": "KRaise", "sec": "KSecErr", "oneway": "KOneway", "batch": "KBatch",
      "batchraise": "KBatchRaise", "batchoneway": "KBatchOneway", "attr": "KAttr", "stream": "KStream",
      # a oneway request is a oneway request whatever its method does: same model kind
      "onewayraise": "KOneway",            # @oneway method that raises after logging
      "batchonewaybad": "KBatchOneway"}    # oneway batch with a trailing member that is not exposed (fails in the daemon)
RETRY_KINDS = ("normal", "raise", "sec", "oneway", "onewayraise")
ONEWAY_KINDS = ("oneway", "onewayraise", "batchoneway", "batchonewaybad")
BATCH_KINDS = ("batch", "batchraise", "batchoneway", "batchonewaybad")
EXPECT = {"normal": "result", "batch": "result", "attr": "result", "stream": "result", "raise": "raised", "batchraise": "raised",
          "sec": "sec", "oneway": "none", "batchoneway": "none", "onewayraise": "none", "batchonewaybad": "none"}
FAULTS0 = ["deliver", "dropreq", "dropreply", "delay", "resetbefore", "resetafter", "resetafterreply", "resetdelivered", "dup", "wrongtype"]

CUR = [0]          # token of the call being made (stands in for the argument of argument-less kinds)
_ENV = {}


# ---------------------------------------------------------------- implementation side
def env():
    """one Daemon + exposed object per process (the daemon's request loop never runs)"""
    if _ENV:
        return _ENV
    import Pyro5.api as api, Pyro5.errors as errors, Pyro5.server as server
    from Pyro5 import config
    from tools.lib import loopback
    logging.getLogger("Pyro5").addHandler(logging.NullHandler())
    logging.getLogger("Pyro5").propagate = False

    @api.expose
    class Target(object):
        def __init__(self):
            self.log = []

        def echo(self, tok):
            self.log.append(tok)
            return ["r", tok]

        def boom(self, tok):
            self.log.append(tok)
            raise ValueError(tok)

        def sec(self, tok):
            self.log.append(tok)
            raise errors.SecurityError(tok)

        @api.oneway
        def ow(self, tok):
            self.log.append(tok)

        @api.oneway
        def owboom(self, tok):
            self.log.append(tok)
            raise ValueError(tok)

        def bm(self, tok, i):
            self.log.append((tok, i))
            return ["b", tok, i]

        def bboom(self, tok, i):
            self.log.append((tok, i))
            raise ValueError(tok, i)

        @property
        def attr(self):
            self.log.append(CUR[0])
            return ["r", CUR[0]]

        def gen(self):
            def g():
                while True:
                    self.log.append(CUR[0])
                    yield ["r", CUR[0]]
            return g()

    config.COMMTIMEOUT = 0.0
    config.ITER_STREAM_LINGER = 1e9
    config.ITER_STREAM_LIFETIME = 0.0
    d = loopback.make_daemon()
    t = Target()
    uri = d.register(t, "c03target")
    # oneway calls run inline: deterministic execution counts
    server._OnewayCallThread.start = lambda self: self.run()
    _ENV.update(api=api, errors=errors, config=config, daemon=d, target=t, uri=uri)
    return _ENV


def nmembers(tok):
    return 1 + tok % 3


def fault_dict(f):
    k = f[0]
    if k == "deliver":
        return {"kind": "deliver"}
    if k == "dropreq":
        return {"kind": "drop_request"}
    if k == "dropreply":
        return {"kind": "drop_reply"}
    if k == "delay":
        return {"kind": "delay_reply"}
    if k == "cut":
        return {"kind": "cut_frac", "frac": f[1]}
    if k == "resetbefore":
        return {"kind": "reset_before"}
    if k == "resetafter":
        return {"kind": "reset_after"}
    if k == "resetafterreply":
        return {"kind": "reset_after_reply"}
    if k == "resetdelivered":
        return {"kind": "reset_delivered"}
    if k == "stale":
        return {"kind": "stale_k", "k": f[1]}
    if k == "dup":
        return {"kind": "dup"}
    if k == "alter":
        return {"kind": "seq_add", "delta": f[1]}
    if k == "wrongtype":
        return {"kind": "alter_type"}
    raise ValueError("unknown fault %r" % (f,))


def canon_value(kind, tok, v):
    """value returned to the caller -> ('result', token) | ('none',) | ('other', text)"""
    if v is None:
        return ("none",)
    if isinstance(v, (list, tuple)) and len(v) == 2 and v[0] == "r" and isinstance(v[1], int):
        return ("result", v[1])
    return ("other", repr(v)[:80])


def canon_exc(x, errors):
    if isinstance(x, errors.TimeoutError):
        return ("err", "timeout")
    if isinstance(x, errors.ConnectionClosedError):
        return ("err", "closed")
    if isinstance(x, errors.ProtocolError):
        return ("err", "protocol")
    if isinstance(x, errors.CommunicationError):
        return ("err", "comm-other:" + type(x).__name__)
    if isinstance(x, errors.SecurityError) and len(x.args) == 1 and isinstance(x.args[0], int):
        return ("sec", x.args[0])
    if type(x) is ValueError and len(x.args) == 1 and isinstance(x.args[0], int):
        return ("raised", x.args[0])
    return ("other", "%s%r" % (type(x).__name__, x.args)[:80])


def do_batch(e, p, kind, tok, bpbox):
    """bpbox[0] is ONE BatchProxy that is re-used for every batch of the history (documented as re-usable); it is
    replaced by a fresh one only after an invocation that raised (the user gives up on that batch)."""
    api, errors = e["api"], e["errors"]
    m = nmembers(tok)
    if bpbox[0] is None:
        bpbox[0] = api.BatchProxy(p)
    b = bpbox[0]
    for i in range(m):
        if kind == "batchraise" and i == m - 1:
            b.bboom(tok, i)
        else:
            b.bm(tok, i)
    if kind == "batchonewaybad":
        b.nosuchmethod(tok)      # not checked client side; the daemon refuses it after running the members before it
    try:
        if kind in ("batchoneway", "batchonewaybad"):
            return canon_value(kind, tok, b(oneway=True))
        res = b()
    except BaseException:
        bpbox[0] = None
        raise
    vals, exc = [], None
    try:
        for v in res:
            vals.append(v)
    except ValueError as x:
        exc = x
    # canonicalise: all members must belong to one token t, in order
    toks = set()
    ok = True
    for i, v in enumerate(vals):
        if isinstance(v, (list, tuple)) and len(v) == 3 and v[0] == "b" and v[2] == i:
            toks.add(v[1])
        else:
            ok = False
    if exc is not None:
        if len(exc.args) == 2 and exc.args[1] == len(vals):
            toks.add(exc.args[0])
        else:
            ok = False
    if not ok or len(toks) != 1:
        # an ordinary (non-batch) stale reply accepted for a batch shows up here
        if exc is None and len(vals) == 2 and vals[0] == "r" and isinstance(vals[1], int):
            return ("result", vals[1])
        return ("other", "batch values %r exc %r" % (vals, exc))
    t = toks.pop()
    n = len(vals) + (1 if exc is not None else 0)
    if n != nmembers(t):
        return ("other", "batch of token %d answered with %d members" % (t, n))
    return ("raised", t) if exc is not None else ("result", t)


def canon_log(entries):
    """execution log of one call -> list of tokens (one per executed request) or None if a batch ran partially"""
    out, i = [], 0
    while i < len(entries):
        x = entries[i]
        if isinstance(x, tuple):
            tok = x[0]
            m = nmembers(tok)
            if [tuple(y) if isinstance(y, tuple) else y for y in entries[i:i + m]] != [(tok, j) for j in range(m)]:
                return None
            out.append(tok)
            i += m
        else:
            out.append(x)
            i += 1
    return out


def run_impl(case):
    """Run one history on the real code. Returns the list of per-call observations."""
    e = env()
    api, errors, config = e["api"], e["errors"], e["config"]
    from tools.lib.loopback_c03 import Loopback03
    t, d = e["target"], e["daemon"]
    retries = case["retries"]
    config.MAX_RETRIES = retries
    d.streaming_responses.clear()
    obs = []
    with Loopback03(d) as net:
        p = api.Proxy(e["uri"])
        p._pyroMaxRetries = retries
        it = None
        bpbox = [None]
        try:
            CUR[0] = 0
            p._pyroBind()
            if any(c["k"] == "stream" for c in case["calls"]):
                it = p.gen()
            if not case["conn0"]:
                p._pyroRelease()
            p._pyroSeq = case["seq0"]
            net.mark()
            del t.log[:]
            for c in case["calls"]:
                kind, tok = c["k"], c["tok"]
                CUR[0] = tok
                net.script([fault_dict(f) for f in c["f"]])
                net.delivered = 0
                net.oneway_answered = 0
                before = len(t.log)
                try:
                    if kind == "normal":
                        out = canon_value(kind, tok, p.echo(tok))
                    elif kind == "raise":
                        out = canon_value(kind, tok, p.boom(tok))
                    elif kind == "sec":
                        out = canon_value(kind, tok, p.sec(tok))
                    elif kind == "oneway":
                        out = canon_value(kind, tok, p.ow(tok))
                    elif kind == "onewayraise":
                        out = canon_value(kind, tok, p.owboom(tok))
                    elif kind in BATCH_KINDS:
                        out = do_batch(e, p, kind, tok, bpbox)
                    elif kind == "attr":
                        out = canon_value(kind, tok, p.attr)
                    elif kind == "stream":
                        out = canon_value(kind, tok, next(it))
                    else:
                        raise ValueError(kind)
                except BaseException as x:   # noqa: the caller's view of the call is an exception
                    if isinstance(x, (KeyboardInterrupt, SystemExit)):
                        raise
                    out = canon_exc(x, errors)
                    del x
                net.script([])
                delta = list(t.log[before:])
                obs.append({"out": list(out), "log": canon_log(delta), "rawlog": [list(x) if isinstance(x, tuple) else x for x in delta],
                            "conn": p._pyroConnection is not None, "seq": p._pyroSeq, "delivered": net.delivered,
                            "oneway_answered": net.oneway_answered,
                            "bp_pending": len(getattr(bpbox[0], "_BatchProxy__calls", [])) if bpbox[0] is not None else 0})
        finally:
            if it is not None:
                it.proxy = None
            try:
                p._pyroRelease()
            except Exception:
                pass
    return obs


# ---------------------------------------------------------------- oracle: the property, stated over observations
def oracle(case, obs):
    bad = []
    retries = case["retries"]
    prev_failed = False
    all_healthy = True      # no fault injected so far, and nothing that legitimately costs the connection
    for i, (c, o) in enumerate(zip(case["calls"], obs)):
        kind, tok = c["k"], c["tok"]
        n_eff = retries if kind in RETRY_KINDS else 0
        out = o["out"]
        where = "call %d (%s, token %d, retries %d)" % (i, kind, tok, n_eff)
        failed = out[0] == "err"
        returned = out[0] in ("result", "raised", "sec", "none")
        if out[0] == "other":
            bad.append(("unexpected-outcome", "%s: the caller saw %s" % (where, out[1])))
        elif out[0] in ("result", "raised", "sec") and out[1] != tok:
            bad.append(("foreign-reply", "%s returned the answer of the call with token %d" % (where, out[1])))
        elif returned and out[0] != EXPECT[kind]:
            bad.append(("wrong-outcome-kind", "%s: expected its own %s, the caller saw %s" % (where, EXPECT[kind], out[0])))
        log = o["log"]
        if log is None or any(x != tok for x in log):
            bad.append(("foreign-execution", "%s: the server executed %r during this call" % (where, o["rawlog"])))
            n = len(o["rawlog"])
        else:
            n = len(log)
            if n != o["delivered"]:
                sig = "oneway-delivered-not-executed-once" if kind in ONEWAY_KINDS else "delivered-not-executed-once"
                bad.append((sig, "%s: %d requests reached the server, the method ran %d times" % (where, o["delivered"], n)))
        if kind in ONEWAY_KINDS:
            if n > 1:
                bad.append(("oneway-executed-twice", "%s: a oneway call ran its method %d times" % (where, n)))
        elif returned:
            if n < 1 or n > 1 + n_eff:
                bad.append(("exec-count-returned", "%s returned but its method ran %d times (allowed 1..%d)" % (where, n, 1 + n_eff)))
        if failed and n > 1 + n_eff:
            bad.append(("exec-count-failed", "%s failed but its method ran %d times (allowed at most %d)" % (where, n, 1 + n_eff)))
        if o.get("oneway_answered"):
            bad.append(("oneway-request-answered", "%s: the server sent %d reply message(s) for a oneway request" % (where, o["oneway_answered"])))
        if kind in BATCH_KINDS and returned and o.get("bp_pending"):
            bad.append(("batch-proxy-not-cleared", "%s returned but the re-usable BatchProxy still holds %d call(s)" % (where, o["bp_pending"])))
        healthy = all(f[0] == "deliver" for f in c["f"])
        all_healthy = all_healthy and healthy
        if all_healthy and kind != "stream" and not (prev_failed and healthy):
            if not (returned and out[0] == EXPECT[kind] and (out[0] == "none" or out[1] == tok) and n == 1):
                bad.append(("healthy-call-failed", "%s: no fault was injected in this history so far, but this call gave %r with %d executions" % (where, out, n)))
        if kind == "sec":
            all_healthy = False     # the server drops the connection after a SecurityError (DESIGN section 7 row 14): the next call may fail
        if prev_failed and healthy and kind != "stream":
            if not (returned and out[0] == EXPECT[kind] and (out[0] == "none" or out[1] == tok) and n == 1):
                bad.append(("not-recovered", "%s: the previous call failed with a communication error and the transport is healthy, "
                            "but this call gave %r with %d executions" % (where, out, n)))
        prev_failed = failed
    return bad


# ---------------------------------------------------------------- Gallina encodings
def c_fault(f):
    k = f[0]
    simple = {"deliver": "FDeliver", "dropreq": "FDropReq", "dropreply": "FDropReply", "delay": "FDelay", "cut": "FCut",
              "resetbefore": "FResetBefore", "resetafter": "FResetAfter", "resetafterreply": "FResetAfterReply", "resetdelivered": "FResetDelivered", "dup": "FDup",
              "wrongtype": "FWrongType"}
    if k in simple:
        return simple[k]
    if k == "stale":
        return "FStale %s" % cnat(f[1])
    if k == "alter":
        return "FAlterSeq %s" % cN(f[1])
    raise ValueError(f)


def c_call(c):
    return "mkCall %s %s %s" % (CK[c["k"]], cN(c["tok"]), clist([c_fault(f) for f in c["f"]]))


def c_obs(o):
    out = o["out"]
    if out[0] == "result":
        oo = "(BResult %s)" % cN(out[1])
    elif out[0] == "raised":
        oo = "(BRaised %s)" % cN(out[1])
    elif out[0] == "sec":
        oo = "(BSec %s)" % cN(out[1])
    elif out[0] == "none":
        oo = "BNone"
    elif out[0] == "err" and out[1] in ("timeout", "closed", "protocol"):
        oo = "(BErr %s)" % {"timeout": "ETimeout", "closed": "EClosed", "protocol": "EProtocol"}[out[1]]
    else:
        return None
    if o["log"] is None:
        return None
    return "mkObs %s %s %s %s" % (oo, cN(len(o["log"])), cbool(o["conn"]), cN(o["seq"]))


def c_case(case, obs):
    lits = [c_obs(o) for o in obs]
    if any(l is None for l in lits) or len(obs) != len(case["calls"]):
        return None
    return "mkCase %s %s %s %s %s" % (cnat(case["retries"]), cN(case["seq0"]), cbool(case["conn0"]),
                                      clist([c_call(c) for c in case["calls"]]), clist(lits))


# ---------------------------------------------------------------- generator
def gen_fault(rng, hostile):
    r = rng.random()
    if r < (0.30 if hostile else 0.75):
        return ["deliver"]
    r = rng.random()
    if r < 0.60:
        return [rng.choice(FAULTS0[1:])]
    if r < 0.72:
        return ["cut", rng.choice([0.0, 0.1, 0.5, 0.9, 0.999, rng.random()])]
    if r < 0.88:
        return ["stale", rng.choice([0, 0, 1, 2, rng.randint(0, 6)])]
    return ["alter", rng.choice([1, 2, 65535, 65534, 65536, 256, rng.randint(1, 65535)])]


def gen_case(rng, maxlen=8):
    retries = rng.choice([0, 0, 1, 2])
    seq0 = rng.choice([0, 1, 65533, 65534, 65535, 65532, rng.randint(0, 65535), rng.randint(65520, 65535)])
    n = rng.randint(1, maxlen)
    toks = rng.sample(range(1, 1000), n)
    hostile = rng.random() < 0.7
    calls = []
    for i in range(n):
        kind = rng.choice(["normal", "normal", "normal", "raise", "oneway", "oneway", "onewayraise", "batch", "batch", "batchraise",
                           "batchoneway", "batchoneway", "batchonewaybad", "attr", "stream", "sec"] if rng.random() < 0.8 else ["normal", "oneway"])
        nf = rng.choice([0, 1, 1, 2, 2, 3, 2 * (retries + 1)])
        calls.append({"k": kind, "tok": toks[i], "f": [gen_fault(rng, hostile) for _ in range(nf)]})
    return {"retries": retries, "seq0": seq0, "conn0": rng.random() < 0.6, "calls": calls}


def N(tok, f=(), k="normal"):
    return {"k": k, "tok": tok, "f": [list(x) for x in f]}


def targeted():
    """the witnesses of the two necessity lemmas (short forms) and the routing-table rows of DESIGN appendix E"""
    D = ["deliver"]
    out = []
    for r in (0, 1, 2):
        # late reply, then a healthy call: recovers only because the connection was dropped
        out.append({"retries": r, "seq0": 7, "conn0": True, "calls": [N(1, [["delay"]] * (r + 1)), N(2), N(3)]})
        # duplicated reply: the copy is refused only because of the sequence check
        out.append({"retries": r, "seq0": 7, "conn0": True, "calls": [N(1, [["dup"]]), N(2), N(3)]})
        # stale reply parked behind a oneway call
        out.append({"retries": r, "seq0": 65534, "conn0": True, "calls": [N(1), N(2, [["stale", 0]], "oneway"), N(3), N(4)]})
        # wrap-around 65535 -> 0 must not raise a false out-of-sync
        out.append({"retries": r, "seq0": 65533, "conn0": False, "calls": [N(i + 1, [], k) for i, k in enumerate(
            ["normal", "oneway", "normal", "attr", "batch", "raise", "normal"])]})
        out.append({"retries": r, "seq0": 65535, "conn0": True, "calls": [N(1, [["stale", 0]]), N(2, [D, ["dup"]]), N(3), N(4, [["alter", 65535]]), N(5)]})
        # every single fault on the first message of every kind, followed by two healthy calls
        for f in [[x] for x in FAULTS0] + [["cut", 0.0], ["cut", 0.5], ["cut", 0.999], ["stale", 0], ["alter", 1], ["alter", 65536]]:
            for k in KINDS:
                out.append({"retries": r, "seq0": 65534, "conn0": True,
                            "calls": [N(11), N(12, [f], k), N(13, [], k), N(14)]})
            out.append({"retries": r, "seq0": 3, "conn0": False, "calls": [N(21), N(22, [], "oneway"), N(23, [f, f, f]), N(24, [D, f]), N(25)]})
        # one re-usable BatchProxy across oneway / normal / raising batches, and failing oneway requests followed by normal calls
        out.append({"retries": r, "seq0": 9, "conn0": True, "calls": [N(1, [], "batchoneway"), N(2, [], "batch"), N(3, [], "batchoneway"),
                                                                     N(4, [], "batchraise"), N(5, [], "batch"), N(6)]})
        out.append({"retries": r, "seq0": 9, "conn0": False, "calls": [N(1, [], "batchonewaybad"), N(2), N(3, [], "onewayraise"), N(4, [], "attr"),
                                                                      N(5, [], "batchonewaybad"), N(6, [], "batch"), N(7)]})
        # remote SecurityError: delivered, the server closes, the next call fails with a communication error, the one after works
        out.append({"retries": r, "seq0": 0, "conn0": True, "calls": [N(1, [], "sec"), N(2), N(3), N(4, [], "sec"), N(5, [], "oneway"), N(6)]})
    return out


def gen_cases(ctx):
    rng = ctx.rng
    cases = [gen_case(rng) for _ in range(ctx.n(1500, 20000))]
    cases += [gen_case(rng, maxlen=40) for _ in range(ctx.n(20, 300))]
    return cases


def wrap_witness():
    """the 65537-call witness of C03_no_release_refuted: a late reply, 65535 oneway calls, then a call whose
    sequence number equals that of the late reply.  On correct code the late reply died with its connection."""
    calls = [N(1, [["delay"]])] + [N(2 + i, [], "oneway") for i in range(65535)] + [N(70000)]
    return {"retries": 0, "seq0": 0, "conn0": True, "calls": calls}


def dup_wrap_witness(period):
    """a duplicated reply parked on a kept connection, period-1 oneway calls, then a call whose sequence number equals
    that of the parked copy.  Within the property's quantifier only when period < 65536 (narrowed mask)."""
    calls = [N(1, [["dup"]])] + [N(2 + i, [], "oneway") for i in range(period - 1)] + [N(70000)]
    return {"retries": 0, "seq0": 0, "conn0": True, "calls": calls}


def nontrivial(case, obs):
    return any(f[0] != "deliver" for c in case["calls"] for f in c["f"]) and len(case["calls"]) >= 2


def execute(ctx, cases, model_ok, res, with_model=True):
    lits, kept = [], []
    for case in cases:
        obs = run_impl(case)
        res.seen(case, nontrivial(case, obs))
        res.count("retries_%d" % case["retries"])
        res.count("calls_%s" % min(len(case["calls"]), 10))
        for c, o in zip(case["calls"], obs):
            res.count("kind:" + c["k"])
            res.count("outcome:" + (o["out"][0] if o["out"][0] != "err" else "err-" + str(o["out"][1])))
            for f in c["f"]:
                res.count("fault:" + f[0])
        if any(o["seq"] < case["seq0"] for o in obs):
            res.count("wrapped")
        for sig, what in oracle(case, obs):
            res.violations.append({"signature": sig, "what": what, "case": case})
        lit = c_case(case, obs)
        if lit is None:
            res.mismatches.append({"component": "C03", "case": case, "impl": obs, "model": "observation outside the model's vocabulary"})
            continue
        lits.append(lit)
        kept.append((case, obs))
    if model_ok and with_model:
        for idx in vlib.run_cases(ctx, "c", IMPORTS, "case", "check_case", lits, shard=150):
            case, obs = kept[idx]
            res.mismatches.append({"component": "C03", "case": case, "impl": [[o["out"], len(o["log"]), o["conn"], o["seq"]] for o in obs]})
    return res


def run(ctx, model_ok=True):
    res = vlib.Result()
    cases = vlib.load_corpus(PROP) + targeted() + gen_cases(ctx)
    execute(ctx, cases, model_ok, res)
    res.rule = ("histories of 1..8 (some up to 40) calls on one proxy — normal, raising, SecurityError, oneway, batch, raising batch, "
                "oneway batch, oneway calls whose method raises / whose batch names an unexposed member, attribute read, stream fetch; all batches of a history go through ONE re-used BatchProxy — each call with its own fault script (one entry per client message, CONNECT "
                "included): deliver, request lost, reply lost, reply late, reply cut + reset, reset before/after processing, reset after "
                "the full reply, reset after delivery but before the server handles the request, replay of an earlier reply, duplicate, altered sequence number, altered message type; MAX_RETRIES 0/1/2; "
                "initial _pyroSeq around the 16-bit wrap; non-trivial = at least two calls and one non-deliver fault")
    res.samples = cases[-2:] + targeted()[:2]
    return res


def search(ctx, broken):
    """a tie broke (extractor / proof / correspondence): oracle only, 10x volume, plus the long wrap-around witness"""
    res = vlib.Result()
    cases = [b["case"] for b in broken if b.get("case")] + targeted() + gen_cases(ctx)
    for case in cases:
        obs = run_impl(case)
        res.seen(case)
        for sig, what in oracle(case, obs):
            res.violations.append({"signature": sig, "what": what, "case": case})
    if not res.violations:
        from tools.gen import gen
        st = gen.regenerate(ctx.tree, only=["GenClient"])["GenClient"]
        mask = st["info"].get("mask", 65535) if st["ok"] else 65535
        long_cases = [("wrap_witness", wrap_witness())]
        if 0 < mask < 65535:
            long_cases.insert(0, ("dup_wrap_witness:%d" % (mask + 1), dup_wrap_witness(mask + 1)))
        for name, case in long_cases:
            obs = run_impl(case)
            res.seen(case)
            for sig, what in oracle(case, obs):
                res.violations.append({"signature": sig, "what": what, "case": {"generator": name}})
            if res.violations:
                break
    return res


def replay(ctx, case):
    if case.get("generator") == "wrap_witness":
        case = wrap_witness()
    elif str(case.get("generator", "")).startswith("dup_wrap_witness:"):
        case = dup_wrap_witness(int(case["generator"].split(":")[1]))
    obs = run_impl(case)
    bad = oracle(case, obs)
    short = [[o["out"], o["rawlog"], o["conn"], o["seq"]] for o in obs[:50]]
    if bad:
        return True, {"oracle": bad[:5], "impl": short}
    if len(case["calls"]) > 1000:
        return False, {"impl": short[:5]}
    res = vlib.Result()
    execute(ctx, [case], True, res)
    if res.mismatches:
        lit = c_case(case, obs)
        model = vlib.eval_model(ctx, IMPORTS, "model_case (%s)" % lit) if lit else "n/a"
        return True, {"mismatch": True, "impl": short, "model": model[-2500:]}
    return False, {"impl": short}
