"""C01 — values cross the wire unchanged, identically for arguments and results (DESIGN 6/C01).

Two levels: (a) serializer level — loadsCall(dumpsCall(..)) (positional and keyword) and
loads(dumps(..)) of every generated value with all four serializers; (b) end to end — a real Proxy
talks to a real Daemon through tools/lib/loopback.py and an echo object records the very objects
the method received / returns a chosen object, for the positions positional, keyword, nested,
batch argument, result, batch result, streamed item, with compression off and on.
Every observation is also one correspondence case (serializer, path, value, outcome) for
Model/Serializers.v `wire gen_table`, evaluated inside Coq."""
import base64, datetime, decimal, math, struct, uuid
from tools.lib import vlib
from tools.lib.vlib import cN, cZ, cbool, clist, ctext, cbytes

PROP = "C01"
GEN = ["GenSerializers", "GenProtocol"]
ASSUMPTIONS = [
    "the third-party libraries (serpent, marshal, json, msgpack) realise the dump-then-load type mapping written down in "
    "Model/Serializers.v (sp_map/sp_st, ma_st, js_map/js_st, mp_map/mp_st) on the modelled value domain — validated by this "
    "correspondence run, not proved",
    "msgpack ext_hook inverts default on the ExtType payloads (struct 'dd' / 'l' round trip, int(str(n)) == n): an ExtType is "
    "modelled as its code plus the value its data encodes",
    "str(uuid), str(Decimal), date.isoformat(), date.toordinal() are data carried by the value (computed by Python)",
    "zlib.decompress(zlib.compress(x)) == x (C06's oracle assumption, used by compression_transparent)",
    "the delivered value depends only on (hook table, serializer, path, value): not on the buffer type handed to loads/loadsCall "
    "(bytes, bytearray, memoryview, memoryview slice), message annotations, correlation id or compression — `wire` has no such "
    "parameter; checked by observing every case under all of them against one model outcome",
    "dict keys / set elements stay distinct under the mapping (no uuid next to its own str() in one container); dict keys other "
    "than '__class__'; json dict keys are str (the json module's coercion of int/float/bool/None keys to text is outside the model); "
    "no NaN inside set elements or dict keys; datetimes are naive local datetimes of the years 1902..2100 on which "
    "datetime.fromtimestamp(d.timestamp()) == d (away from DST folds/gaps of the local zone; generated before and after the epoch, "
    "microseconds 0 and non-0) — on that domain msgpack's float-timestamp codec is the identity; timezone-aware datetimes are refused "
    "by msgpack and outside the model",
    "serialisation is a pure function of the value: no state is shared between two invocations of one serializer object "
    "(checked by a deterministic re-entrancy probe from inside a converter hook; thread interleavings are not enumerated)",
]
IMPORTS = "From V Require Import Model.Values Model.Serializers Harness.Cmp Harness.H01."
SERS = ["serpent", "marshal", "json", "msgpack"]
CSER = {"serpent": "Serpent", "marshal": "Marshal", "json": "Json", "msgpack": "Msgpack"}
CPATH = {"arg": "Arg", "kwarg": "Kwarg", "result": "Result"}
REFUSED = "Refused"


class Unrep(Exception):
    """a delivered object that is not in the value domain at all"""


# ------------------------------------------------------------------ specs (JSON) <-> python objects
def build(spec):
    t = spec[0]
    if t == "none":
        return None
    if t == "bool":
        return bool(spec[1])
    if t == "int":
        return int(spec[1])
    if t == "float":
        return struct.unpack(">d", struct.pack(">Q", int(spec[1])))[0]
    if t == "str":
        return "".join(chr(c) for c in spec[1])
    if t == "bytes":
        return bytes(spec[1])
    if t == "list":
        return [build(x) for x in spec[1]]
    if t == "tuple":
        return tuple(build(x) for x in spec[1])
    if t == "set":
        return {build(x) for x in spec[1]}
    if t == "frozenset":
        return frozenset(build(x) for x in spec[1])
    if t == "dict":
        return {build(k): build(v) for k, v in spec[1]}
    if t == "complex":
        return complex(build(["float", spec[1]]), build(["float", spec[2]]))
    if t == "uuid":
        return uuid.UUID(int=int(spec[1]))
    if t == "decimal":
        return decimal.Decimal(spec[1])
    if t == "date":
        return datetime.date.fromordinal(spec[1])
    if t == "datetime":
        return datetime.datetime(*spec[1])
    raise ValueError("bad spec %r" % (spec,))


def fbits(f):
    return struct.unpack(">Q", struct.pack(">d", f))[0]


def cfl(f):
    return "FNaN" if f != f else "(FBits %s)" % cN(fbits(f))


def ext_payload(code, data, codes):
    """the value an ExtType's data encodes, by the conventions of MsgpackSerializer.default"""
    if code == codes["complex"] and len(data) == 16:
        return complex(*struct.unpack("dd", data))
    if code == codes["long"]:
        return int(data)
    if code == codes["date"] and len(data) == struct.calcsize("l"):
        return datetime.date.fromordinal(struct.unpack("l", data)[0])
    if code == codes["datetime"] and len(data) == 8:
        return datetime.datetime.fromtimestamp(struct.unpack("d", data)[0])
    raise Unrep("ExtType(%d, %r)" % (code, data))


def lit(o, codes):
    """python object -> Gallina term of type val (type-exact; sets/dicts in iteration order)"""
    t = type(o)
    if o is None:
        return "VNone"
    if t is bool:
        return "(VBool %s)" % cbool(o)
    if t is int:
        return "(VInt %s)" % cZ(o)
    if t is float:
        return "(VFloat %s)" % cfl(o)
    if t is str:
        return "(VStr %s)" % ctext(o)
    if t is bytes:
        return "(VBytes %s)" % cbytes(o)
    if t is list:
        return "(VList %s)" % clist([lit(x, codes) for x in o])
    if t is tuple:
        return "(VTuple %s)" % clist([lit(x, codes) for x in o])
    if t is set:
        return "(VSet %s)" % clist([lit(x, codes) for x in o])
    if t is frozenset:
        return "(VFrozenSet %s)" % clist([lit(x, codes) for x in o])
    if t is dict:
        return "(VDict %s)" % clist(["(%s, %s)" % (lit(k, codes), lit(v, codes)) for k, v in o.items()])
    if t is complex:
        return "(VComplex %s %s)" % (cfl(o.real), cfl(o.imag))
    if t is uuid.UUID:
        return "(VUuid %s)" % ctext(str(o))
    if t is decimal.Decimal:
        return "(VDecimal %s)" % ctext(str(o))
    if t is datetime.date:
        return "(VDate %s %s)" % (cZ(o.toordinal()), ctext(o.isoformat()))
    if t is datetime.datetime and o.tzinfo is None:
        key = (o.toordinal() * 86400 + o.hour * 3600 + o.minute * 60 + o.second) * 1000000 + o.microsecond
        return "(VDateTime %s %s)" % (cZ(key), ctext(o.isoformat()))
    if t.__name__ == "ExtType" and hasattr(o, "code") and hasattr(o, "data"):
        return "(VExt %s %s)" % (cN(o.code), lit(ext_payload(o.code, o.data, codes), codes))
    raise Unrep("%s object" % t.__name__)


def canon(o):
    """type-exact, order-free canonical form used by the oracle to compare delivered objects"""
    t = type(o)
    if t is float:
        return ("float", "nan" if o != o else fbits(o))
    if t is complex:
        return ("complex", canon(o.real), canon(o.imag))
    if t in (list, tuple):
        return (t.__name__,) + tuple(canon(x) for x in o)
    if t in (set, frozenset):
        return (t.__name__,) + tuple(sorted((canon(x) for x in o), key=repr))
    if t is dict:
        return ("dict",) + tuple(sorted(((canon(k), canon(v)) for k, v in o.items()), key=repr))
    if t.__name__ == "ExtType" and hasattr(o, "code"):
        return ("ExtType", o.code, bytes(o.data))
    return (t.__name__, o if t in (type(None), bool, int, str, bytes) else str(o))


def show(o):
    s = repr(o)
    return s if len(s) < 300 else s[:300] + "..."


# ------------------------------------------------------------------ the documented mapping, in Python (oracle)
class Refuse(Exception):
    pass


def is_core(v):
    t = type(v)
    if v is None or t in (bool, int, float, str):
        return True
    if t is list:
        return all(is_core(x) for x in v)
    if t is dict:
        return all(type(k) is str and k != "__class__" and is_core(x) for k, x in v.items())
    return False


def expected(s, v, top=True):
    """what serializer s is documented to deliver for v (raises Refuse when it does not support v)"""
    import numbers
    t = type(v)
    if v is None or t in (bool, int, float, str):
        return v
    if t is bytes:
        if s == "serpent":
            return {"data": base64.b64encode(v).decode("ascii"), "encoding": "base64"}
        if s == "json":
            raise Refuse("bytes")
        return v
    if t is list:
        return [expected(s, x, False) for x in v]
    if t is tuple:
        r = [expected(s, x, False) for x in v]
        return r if s in ("json", "msgpack") else tuple(r)
    if t in (set, frozenset):
        if s in ("json", "msgpack"):
            if t is frozenset:
                raise Refuse("frozenset")
            return [expected(s, x, False) for x in v]
        r = [key_expected(s, x) for x in v]
        if s == "serpent":
            return set(r) if r else ()
        return t(r)
    if t is dict:
        return {key_expected(s, k): expected(s, x, False) for k, x in v.items()}
    if t is complex:
        if s == "json" or (s == "serpent" and (v.real != v.real or v.imag != v.imag)):
            raise Refuse("complex")
        if s == "serpent":    # textual "(re+imj)" literal: re + complex(0, im) resp. re - complex(0, |im|)
            neg = math.copysign(1.0, v.imag) < 0
            unneg0 = lambda f: 0.0 if f == 0 else f
            return complex(v.real, unneg0(v.imag)) if neg else complex(unneg0(v.real), v.imag)
        return v
    if t is uuid.UUID:
        if s == "marshal" and not top:
            raise Refuse("nested uuid")
        return str(v)
    if t is decimal.Decimal:
        if s == "marshal":
            raise Refuse("decimal")
        return str(v)
    if t is datetime.date or (t is datetime.datetime and v.tzinfo is None):
        if s == "marshal":
            raise Refuse("date")
        return v if s == "msgpack" else v.isoformat()
    raise Refuse(t.__name__)


def key_expected(s, k):
    import numbers
    r = expected(s, k, False)
    if s == "serpent":
        if not (type(k) in (bool, bytes, str, tuple) or isinstance(k, numbers.Number)):
            raise Refuse("serpent key type")
        if serpent_key_becomes_dict(k):
            raise Refuse("unhashable after mapping")
        try:
            hash(r)
        except TypeError:
            raise Refuse("unhashable after mapping")
    elif s == "json":
        if type(k) is not str:
            raise Refuse("json key")
    elif s == "msgpack":
        if type(r) not in (str, bytes):
            raise Refuse("msgpack key")
    return r


def serpent_key_becomes_dict(k):
    """serpent writes bytes and float NaN as dicts, which cannot be (part of) a key or set element"""
    if type(k) is bytes or (type(k) is float and k != k):
        return True
    return type(k) is tuple and any(serpent_key_becomes_dict(x) for x in k)


def outside(s, v):
    """(serializer, value) combinations that the model declares outside its domain"""
    t = type(v)
    if t in (list, tuple, set, frozenset):
        return any(outside(s, x) for x in v)
    if t is dict:
        for k, x in v.items():
            if k == "__class__" or outside(s, k) or outside(s, x):
                return True
            if s == "json" and (k is None or type(k) in (bool, int, float)):
                return True
    return False


def expect_outcome(s, v, top=True):
    try:
        return ("ok", expected(s, v, top))
    except Refuse:
        return (REFUSED, None)


# ------------------------------------------------------------------ generator
def g_int(rng):
    r = rng.random()
    if r < 0.35:
        return rng.randint(-300, 300)
    if r < 0.6:
        b = rng.choice([7, 8, 15, 16, 31, 32, 63, 64])
        return rng.choice([1, -1]) * (2 ** b) + rng.choice([-2, -1, 0, 1, 2])
    if r < 0.8:
        return rng.choice([1, -1]) * rng.getrandbits(rng.choice([40, 63, 64, 65, 70, 128, 200]))
    return rng.choice([2 ** 63 - 1, 2 ** 63, 2 ** 64 - 1, 2 ** 64, -2 ** 63, -2 ** 63 - 1, 2 ** 70, -2 ** 70, 2 ** 200])


def g_floatbits(rng, nan_ok=True):
    r = rng.random()
    if r < 0.3:
        f = rng.choice([0.0, -0.0, 1.0, -1.5, 0.1, 1e300, 5e-324, 2.2250738585072014e-308, 1e-310, 3.141592653589793,
                        float("inf"), float("-inf"), 123456789.125, 1e16, 2.0 ** 70])
        return fbits(f)
    if r < 0.4 and nan_ok:
        return fbits(float("nan"))
    b = rng.getrandbits(64)
    f = struct.unpack(">d", struct.pack(">Q", b))[0]
    if f != f:
        return fbits(float("nan")) if nan_ok else fbits(1.25)
    return b


def g_text(rng):
    r = rng.random()
    n = rng.choice([0, 1, 1, 2, 3, 5, 8, 20])
    if r < 0.4:
        return [rng.choice(b"abcxyzABC 019_-.'\"\\/{}[](),:") for _ in range(n)]
    pools = [(0, 0x7f), (0x80, 0x7ff), (0x800, 0xd7ff), (0xe000, 0xffff), (0x10000, 0x10ffff), (0, 0x1f)]
    out = []
    for _ in range(n):
        lo, hi = rng.choice(pools)
        out.append(rng.randint(lo, hi))
    return out


def g_atom(rng, core_only=False, hashable_only=False):
    kinds = ["none", "bool", "int", "int", "float", "float", "str", "str"]
    if not core_only:
        kinds += ["bytes", "complex", "uuid", "decimal", "date", "datetime"]
    k = rng.choice(kinds)
    if k == "none":
        return ["none"]
    if k == "bool":
        return ["bool", rng.random() < 0.5]
    if k == "int":
        return ["int", str(g_int(rng))]
    if k == "float":
        return ["float", str(g_floatbits(rng, nan_ok=not hashable_only))]
    if k == "str":
        return ["str", g_text(rng)]
    if k == "bytes":
        return ["bytes", [rng.randrange(256) for _ in range(rng.choice([0, 1, 2, 3, 4, 7, 30]))]]
    if k == "complex":
        nan_ok = (not hashable_only) and rng.random() < 0.3
        return ["complex", str(g_floatbits(rng, nan_ok)), str(g_floatbits(rng, nan_ok))]
    if k == "uuid":
        return ["uuid", str(rng.getrandbits(128))]
    if k == "decimal":
        return ["decimal", rng.choice(["1.50", "0", "-0", "1E+3", "123456789012345678901234567890.000000001", "-7.25", "Infinity"])]
    if k == "datetime":
        return g_datetime(rng)
    return ["date", rng.randint(1, 3652059)]


def g_datetime(rng):
    """naive local datetimes 1902..2100 (before and after the epoch, microseconds 0 and non-0) on which
    fromtimestamp(timestamp()) is the identity (i.e. away from DST folds / gaps of the local zone)"""
    for _ in range(20):
        r = rng.random()
        year = rng.randint(1902, 1969) if r < 0.45 else rng.randint(1970, 2100) if r < 0.9 else rng.choice([1969, 1970])
        us = rng.choice([0, 0, 1, 500000, 999999, rng.randrange(1000000)])
        f = [year, rng.randint(1, 12), rng.randint(1, 28), rng.randrange(24), rng.randrange(60), rng.randrange(60), us]
        d = datetime.datetime(*f)
        if datetime.datetime.fromtimestamp(d.timestamp()) == d:
            return ["datetime", f]
    return ["datetime", [2001, 2, 3, 4, 5, 6, 7]]


def g_hashable(rng, depth):
    r = rng.random()
    if depth > 0 and r < 0.2:
        return ["tuple", [g_hashable(rng, depth - 1) for _ in range(rng.choice([0, 1, 2, 3]))]]
    if depth > 0 and r < 0.27:
        return ["frozenset", [g_hashable(rng, depth - 1) for _ in range(rng.choice([0, 1, 2]))]]
    return g_atom(rng, hashable_only=True)


def g_key(rng, depth):
    r = rng.random()
    if r < 0.7:
        t = g_text(rng)
        if "".join(chr(c) for c in t) == "__class__":
            t = [107]
        return ["str", t]
    return g_hashable(rng, min(depth, 1))


def g_value(rng, depth, core_only=False):
    r = rng.random()
    if depth <= 0 or r < 0.3:
        return g_atom(rng, core_only)
    n = rng.choice([0, 1, 1, 2, 2, 3, 4])
    if core_only:
        if r < 0.65:
            return ["list", [g_value(rng, depth - 1, True) for _ in range(n)]]
        return ["dict", [[["str", [c for c in g_text(rng)] or [107]], g_value(rng, depth - 1, True)] for _ in range(n)]]
    if r < 0.45:
        return ["list", [g_value(rng, depth - 1) for _ in range(n)]]
    if r < 0.6:
        return ["tuple", [g_value(rng, depth - 1) for _ in range(n)]]
    if r < 0.7:
        return ["set", [g_hashable(rng, 2) for _ in range(n)]]
    if r < 0.75:
        return ["frozenset", [g_hashable(rng, 2) for _ in range(n)]]
    return ["dict", [[g_key(rng, 2), g_value(rng, depth - 1)] for _ in range(n)]]


def fix_core_keys(spec):
    """core dicts never use the reserved key"""
    if spec[0] == "dict":
        for kv in spec[1]:
            if kv[0][0] == "str" and "".join(chr(c) for c in kv[0][1]) == "__class__":
                kv[0][1] = [107]
            fix_core_keys(kv[1])
    elif spec[0] in ("list", "tuple"):
        for x in spec[1]:
            fix_core_keys(x)
    return spec


def S(x):
    """python object -> spec (for targeted cases)"""
    t = type(x)
    if x is None:
        return ["none"]
    if t is bool:
        return ["bool", x]
    if t is int:
        return ["int", str(x)]
    if t is float:
        return ["float", str(fbits(x))]
    if t is str:
        return ["str", [ord(c) for c in x]]
    if t is bytes:
        return ["bytes", list(x)]
    if t in (list, tuple, set, frozenset):
        return [t.__name__, [S(y) for y in x]]
    if t is dict:
        return ["dict", [[S(k), S(v)] for k, v in x.items()]]
    if t is complex:
        return ["complex", str(fbits(x.real)), str(fbits(x.imag))]
    if t is uuid.UUID:
        return ["uuid", str(x.int)]
    if t is decimal.Decimal:
        return ["decimal", str(x)]
    if t is datetime.date:
        return ["date", x.toordinal()]
    if t is datetime.datetime:
        return ["datetime", [x.year, x.month, x.day, x.hour, x.minute, x.second, x.microsecond]]
    raise ValueError(x)


NAN = float("nan")
TARGET_VALUES = [
    2 ** 70, complex(-0.0, -0.0), [complex(-0.0, -0.0), complex(-0.0, 1.0), complex(2.0, -0.0)], -2 ** 70, 2 ** 64, 2 ** 64 - 1, -2 ** 63, -2 ** 63 - 1, 1 + 2j, complex(-0.0, float("inf")), complex(NAN, 1.0),
    datetime.date(2020, 2, 29), datetime.date(1, 1, 1), [2 ** 70], {"k": [1 + 2j, 2 ** 100]}, (datetime.date(1999, 12, 31),),
    NAN, [NAN], (NAN,), {"a": NAN}, {"a": (NAN, [NAN])}, {1.5, "x"}, set(), frozenset(), {(1, 2), (3,)}, frozenset({1, "a"}),
    b"", b"a", b"ab", b"abc", b"\xff\xfe\xfd\xfc", [b"x", (b"yz",)], {b"k": 1}, {"a": {"b": {"c": [None, True, -0.0, float("inf"), float("-inf")]}}},
    datetime.datetime(1969, 12, 31, 23, 59, 58, 500000), [datetime.datetime(1950, 6, 1, 1, 2, 3, 1), datetime.datetime(2020, 2, 29, 12, 0)],
    {"t": (datetime.datetime(1902, 1, 1, 0, 0, 0, 999999), datetime.datetime(2100, 12, 31, 23, 59, 59, 999999))},
    {datetime.datetime(1999, 1, 1)}, {datetime.datetime(1999, 1, 1): 1}, datetime.datetime(1970, 1, 1), datetime.datetime(1969, 12, 31, 23, 59, 59, 1),
    uuid.UUID(int=5), [uuid.UUID(int=5)], decimal.Decimal("1.50"), [decimal.Decimal("1E+3")], {uuid.UUID(int=7): 1},
    {(1, 2): 3}, {1: 2}, {None: 1}, {True: 0}, {1.5: 1}, {frozenset({1}): 1}, {1 + 2j: 1}, {decimal.Decimal("2"): 1}, {(NAN,): 1},
    {"data": "x", "encoding": "base64"}, "", "\x00", "\U0001f600é", [[[[[[1]]]]]], (), [], {}, ((),), [()], {"": ""},
    True, False, None, 0, -1, 0.0, -0.0, 5e-324, {b"a"}, {(b"a",)}, {datetime.date(2000, 1, 1)}, {decimal.Decimal("3")},
]


def gen_values(ctx, n):
    rng = ctx.rng
    out = []
    for i in range(n):
        core = rng.random() < 0.4
        depth = rng.choice([0, 1, 2, 2, 3, 3, 4] if ctx.quick else [0, 1, 2, 3, 4, 5, 6])
        v = g_value(rng, depth, core_only=core)
        out.append(fix_core_keys(v) if core else v)
    return out


# ------------------------------------------------------------------ implementation runners
def get_info(ctx):
    from tools.gen import gen
    st = gen.regenerate(ctx.tree, only=["GenSerializers", "GenProtocol"])
    info = {"codes": {"complex": 0x30, "long": 0x31, "datetime": 0x32, "date": 0x33}, "threshold": 100}
    if st["GenSerializers"]["ok"]:
        info["codes"] = dict(st["GenSerializers"]["info"]["ext_default"])
        info["table"] = st["GenSerializers"]["info"]["table"]
    if st["GenProtocol"]["ok"]:
        info["threshold"] = st["GenProtocol"]["info"]["threshold"]
    return info


def obs_ok(o):
    return ("ok", o)


BUFFERS = ["bytes", "bytearray", "memoryview", "memoryview-slice", "memoryview-bytearray"]


def as_buffer(data, kind):
    """the buffer types the protocol layer can hand to loads/loadsCall: bytes (plain message, or after zlib.decompress),
    a memoryview slice of the received payload (message with annotation chunks), bytearray / memoryview of it (_convertToBytes)"""
    data = bytes(data)
    if kind == "bytes":
        return data
    if kind == "bytearray":
        return bytearray(data)
    if kind == "memoryview":
        return memoryview(data)
    if kind == "memoryview-slice":
        return memoryview(b"RQST\x00\x00\x00\x02hi" + data)[10:]
    if kind == "memoryview-bytearray":
        return memoryview(bytearray(data))
    raise ValueError(kind)


def run_ser(sname, v, buffers=("bytes",)):
    """serializer level: outcomes on the three paths; keys "arg"/"kwarg"/"result" are the bytes-buffer outcomes,
    (path, buffer kind) the outcomes for the other buffer types"""
    from Pyro5 import serializers
    s = serializers.serializers[sname]
    out = {}
    dumped = {}
    for path, dump in (("result", lambda: s.dumps(v)), ("arg", lambda: s.dumpsCall("obj", "meth", (v,), {})),
                       ("kwarg", lambda: s.dumpsCall("obj", "meth", (), {"kw": v}))):
        try:
            dumped[path] = dump()
        except Exception as x:
            dumped[path] = x
    for path in ("result", "arg", "kwarg"):
        for kind in buffers:
            d = dumped[path]
            if isinstance(d, Exception):
                o = (REFUSED, type(d).__name__)
            else:
                try:
                    if path == "result":
                        o = obs_ok(s.loads(as_buffer(d, kind)))
                    elif path == "arg":
                        o = obs_ok(s.loadsCall(as_buffer(d, kind))[2][0])
                    else:
                        o = obs_ok(s.loadsCall(as_buffer(d, kind))[3]["kw"])
                except Exception as x:
                    o = (REFUSED, type(x).__name__)
            out[(path, kind)] = o
            if kind == "bytes":
                out[path] = o
    return out


class Hooked(object):
    """harness class whose to-dict converter serialises another value with the same serializer instance"""
    def __init__(self, tag):
        self.tag = tag


def run_reentrant(sname, inner):
    """serialisation is a pure function of the value: while serializer s is inside the converter hook of one value
    (class_to_dict registry -> json/msgpack default(), marshal convert_obj_into_marshallable, serpent class serializer),
    the hook serialises `inner` with the same serializer object (what happens when a __getstate__ / converter makes a
    Pyro call, or another thread serialises meanwhile).  Returns (outer outcome, expected outer, inner outcome)."""
    from Pyro5 import serializers
    s = serializers.serializers[sname]
    box = {}

    def converter(obj):
        if "inner" not in box:
            try:
                box["inner"] = ("bytes", s.dumps(inner))
            except Exception as x:
                box["inner"] = ("exc", x)
        return {"hooked": obj.tag, "n": 2 ** 40}
    outer = Hooked("outer") if sname == "marshal" else ["head", {"k": Hooked("outer")}, "tail" * 5, 12345]
    want = {"hooked": "outer", "n": 2 ** 40}
    want = want if sname == "marshal" else ["head", {"k": want}, "tail" * 5, 12345]
    serializers.SerializerBase.register_class_to_dict(Hooked, converter)
    try:
        try:
            o = obs_ok(s.loads(s.dumps(outer)))
        except Exception as x:
            o = (REFUSED, type(x).__name__)
    finally:
        serializers.SerializerBase.unregister_class_to_dict(Hooked)
    kind, data = box.get("inner", ("exc", RuntimeError("hook not called")))
    if kind == "exc":
        i = (REFUSED, type(data).__name__)
    else:
        try:
            i = obs_ok(s.loads(data))
        except Exception as x:
            i = (REFUSED, type(x).__name__)
    return o, obs_ok(want), i


def again(sname, o):
    from Pyro5 import serializers
    s = serializers.serializers[sname]
    try:
        return obs_ok(s.loads(s.dumps(o)))
    except Exception as x:
        return (REFUSED, type(x).__name__)


class World:
    """a real Daemon + echo object behind the loopback transport"""
    def __init__(self):
        from tools.lib import loopback
        import Pyro5.api as api
        from Pyro5 import config
        self.api, self.config, self.loopback = api, config, loopback
        self.saved = (config.COMPRESSION, config.SERIALIZER, config.MAX_RETRIES, config.ITER_STREAMING, config.SERPENT_BYTES_REPR)
        config.MAX_RETRIES = 0
        config.ITER_STREAMING = True
        config.SERPENT_BYTES_REPR = False
        world = self

        @api.expose
        class Echo(object):
            def take(self, *a, **k):
                world.got.append((a, k))
                return len(world.got)

            def give(self):
                return world.ret

            def stream(self):
                yield world.ret
                yield world.ret
        self.got, self.ret = [], None
        self.echo = Echo()
        self.daemon = loopback.make_daemon()
        self.uri = self.daemon.register(self.echo, "echo")
        self.net = loopback.Loopback(self.daemon)
        self.net.__enter__()
        self.proxies = {}
        self.resp_ann = False
        # Daemon.annotations() is the documented hook for annotations on every reply (plain, batch, stream items)
        self.daemon.annotations = lambda: ({"RESP": b"response-annotation"} if world.resp_ann else {})

    def flags_stats(self):
        """message counts over requests and replies: total, COMPRESSED flag, annotation chunks present, CORR_ID flag"""
        st = {"wire_messages": 0, "wire_messages_compressed": 0, "wire_messages_annotated": 0, "wire_messages_corr_id": 0,
              "wire_messages_annotated_uncompressed": 0}
        for conn in self.net.conns.values():
            for m in conn.requests + conn.replies:
                if len(m) >= 20:
                    flags = struct.unpack("!H", m[8:10])[0]
                    ann = struct.unpack("!I", m[16:20])[0]
                    st["wire_messages"] += 1
                    st["wire_messages_compressed"] += 1 if flags & 2 else 0
                    st["wire_messages_annotated"] += 1 if ann else 0
                    st["wire_messages_annotated_uncompressed"] += 1 if ann and not flags & 2 else 0
                    st["wire_messages_corr_id"] += 1 if flags & 64 else 0
        return st

    def prep(self, msg):
        """message-level configuration of the next call: "r" request annotations, "p" response annotations,
        "c" correlation id.  (Client and daemon share this thread's call context in the loopback, so it is
        set immediately before every call.)"""
        from Pyro5.callcontext import current_context
        current_context.annotations = {"RQST": b"request-annotation"} if "r" in msg else {}
        current_context.correlation_id = uuid.UUID(int=0x1234567890abcdef1234567890abcdef) if "c" in msg else None
        self.resp_ann = "p" in msg

    def proxy(self, sname):
        p = self.proxies.get(sname)
        if p is None:
            p = self.api.Proxy(self.uri)
            p._pyroSerializer = sname
            p._pyroTimeout = 2
            self.proxies[sname] = p
        return p

    def close(self):
        for p in self.proxies.values():
            try:
                p._pyroRelease()
            except Exception:
                pass
        self.net.__exit__(None, None, None)
        self.daemon.close()
        c = self.config
        c.COMPRESSION, c.SERIALIZER, c.MAX_RETRIES, c.ITER_STREAMING, c.SERPENT_BYTES_REPR = self.saved

    def observe(self, sname, position, v, compress, msg=""):
        """returns ("ok", delivered object) | ("Refused", exception class name)"""
        self.config.COMPRESSION = bool(compress)
        p = self.proxy(sname)
        p._pyroBind()
        self.got, self.ret = [], v
        try:
            if position == "positional":
                take = p.take
                self.prep(msg)
                take(v)
                return obs_ok(self.got[-1][0][0])
            if position == "keyword":
                take = p.take
                self.prep(msg)
                take(kw=v)
                return obs_ok(self.got[-1][1]["kw"])
            if position == "nested":
                take = p.take
                self.prep(msg)
                take([v])
                return obs_ok(self.got[-1][0][0])
            if position == "batcharg":
                b = self.api.BatchProxy(p)
                b.take(v)
                self.prep(msg)
                list(b())
                return obs_ok([self.got[-1][0][0]])
            if position == "result":
                give = p.give
                self.prep(msg)
                return obs_ok(give())
            if position == "batchresult":
                b = self.api.BatchProxy(p)
                b.give()
                self.prep(msg)
                return obs_ok(list(b()))
            if position == "stream":
                stream = p.stream
                self.prep(msg)
                items = list(stream())
                if len(items) != 2 or canon(items[0]) != canon(items[1]):
                    return ("ok", ("stream-items-differ", items))
                return obs_ok(items[0])
            raise ValueError(position)
        except Exception as x:
            return (REFUSED, type(x).__name__)
        finally:
            self.config.COMPRESSION = False
            self.prep("")


# position -> (model path, does the value travel wrapped in a list?)
MSG_ALL = ["", "r", "p", "c", "rp", "rc", "pc", "rpc"]    # request annotations / response annotations / correlation id
POSITIONS = {"positional": ("arg", False), "keyword": ("kwarg", False), "nested": ("arg", True), "batcharg": ("arg", True),
             "result": ("result", False), "batchresult": ("result", True), "stream": ("result", False)}


def payload_size(sname, position, v):
    from Pyro5 import serializers
    s = serializers.serializers[sname]
    try:
        if position in ("result", "stream"):
            return len(s.dumps(v))
        if position == "batchresult":
            return len(s.dumps([v]))
        if position == "keyword":
            return len(s.dumpsCall("echo", "take", (), {"kw": v}))
        if position == "nested":
            return len(s.dumpsCall("echo", "take", ([v],), {}))
        if position == "batcharg":
            return len(s.dumpsCall("echo", "<batch>", [("take", (v,), {})], {}))
        return len(s.dumpsCall("echo", "take", (v,), {}))
    except Exception:
        return None


# ------------------------------------------------------------------ cases
def c_case(sname, path, vin, obs, codes):
    if obs[0] == REFUSED:
        out = "Refused"
    else:
        out = "(Delivered %s)" % lit(obs[1], codes)
    return "{| k_ser := %s; k_path := %s; k_in := %s; k_out := %s |}" % (CSER[sname], CPATH[path], lit(vin, codes), out)


def same(a, b):
    if a[0] != b[0]:
        return False
    return a[0] == REFUSED or canon(a[1]) == canon(b[1])


def tname(v):
    return type(v).__name__


def oracle_ser(sname, v, obs):
    """the property over the serializer-level observations; at most one finding per value, most specific first"""
    if not (same(obs["arg"], obs["result"]) and same(obs["kwarg"], obs["result"])):
        return [("path-asymmetry:" + sname,
                 "%s: %s is delivered as %s when it is a positional argument, %s as a keyword argument, %s as a result"
                 % (sname, show(v), show(obs["arg"]), show(obs["kwarg"]), show(obs["result"])))]
    for key, o in obs.items():
        if isinstance(key, tuple) and not same(o, obs[key[0]]):
            return [("buffer-type-dependent:" + sname,
                     "%s: %s (%s path) is delivered as %s when the deserializer is handed a %s but as %s when handed bytes"
                     % (sname, show(v), key[0], show(o), key[1], show(obs[key[0]])))]
    exp = expect_outcome(sname, v)
    if not same(obs["result"], exp):
        sig = ("core-changed:" if is_core(v) else "mapping-differs:") + sname
        return [(sig, "%s: %s is delivered as %s, the documented mapping gives %s" % (sname, show(v), show(obs["result"]), show(exp)))]
    if obs["result"][0] == "ok":
        twice = again(sname, obs["result"][1])
        if not same(twice, obs["result"]):
            return [("not-idempotent:" + sname, "%s: %s arrives as %s, which sent again arrives as %s"
                     % (sname, show(v), show(obs["result"]), show(twice)))]
    return []


def oracle_e2e(case, obs_by_pos):
    """end to end: every position delivers what the documented mapping says — with compression off and on, with and
    without annotations on the request / on the reply, with and without a correlation id"""
    sname, v = case["ser"], build(case["value"])
    for w in ([v], v):      # a defect of the serializer itself is reported under its serializer-level signature
        if not outside(sname, w):
            found = oracle_ser(sname, w, run_ser(sname, w, BUFFERS))
            if found:
                return found
    found = []
    for (pos, comp, msg), obs in obs_by_pos.items():
        path, wrapped = POSITIONS[pos]
        exp = expect_outcome(sname, [v] if wrapped else v)
        if same(obs, exp):
            continue
        plain = obs_by_pos.get((pos, comp, ""))
        if msg and plain is not None and same(plain, exp):
            kind = "value-changes-with-message-annotations:" if ("r" in msg or "p" in msg) else "value-changes-with-correlation-id:"
            found.append((kind + sname,
                          "%s, %s, COMPRESSION=%s: %s is delivered as %s when the messages carry %s, but as %s when they do not"
                          % (sname, pos, comp, show(v), show(obs), msg_words(msg), show(plain))))
            continue
        other = obs_by_pos.get((pos, not comp, msg))
        if other is not None and same(other, exp):
            found.append(("compression-changes-value:" + sname,
                          "%s, %s: %s is delivered as %s with COMPRESSION=%s but as %s without"
                          % (sname, pos, show(v), show(obs), comp, show(other))))
            continue
        if obs[0] == REFUSED and exp[0] == "ok":
            cls = "batch" if pos.startswith("batch") else pos
            found.append(("position-fails:%s:%s" % (sname, cls),
                          "%s: a call carrying %s as %s fails with %s although the serializer supports the value"
                          % (sname, show(v), pos, obs[1])))
            continue
        sig = ("core-changed:" if is_core(v) else "mapping-differs:") + sname
        found.append((sig, "%s end to end (%s, compression %s, %s): %s is delivered as %s, documented mapping gives %s"
                      % (sname, pos, comp, msg_words(msg) or "plain messages", show(v), show(obs), show(exp))))
    found.sort(key=lambda f: (not f[0].startswith("value-changes"), not f[0].startswith("compression")))
    return found[:1]


def msg_words(msg):
    return ", ".join(w for k, w in (("r", "request annotations"), ("p", "response annotations"), ("c", "a correlation id")) if k in msg)


def run_case(ctx, case, info, world, res, lits, kept, with_oracle=True):
    """executes one case; appends violations / Gallina literals"""
    codes = info["codes"]
    sname = case["ser"]
    v = build(case["value"])
    skip_model = outside(sname, v)
    if case["level"] == "reentrant":
        outer, want, inner = run_reentrant(sname, v)
        plain = run_ser(sname, v)["result"]
        res.count("reentrant:" + sname)
        if with_oracle and not (same(outer, want) and same(inner, plain)):
            res.violations.append({"signature": "reentrant-serialization-differs:" + sname, "case": case,
                                   "what": "%s: while the serializer is inside the converter hook of one value the hook serialises %s with "
                                           "the same serializer object: the outer value arrives as %s (expected %s), the inner one as %s "
                                           "(alone it arrives as %s)" % (sname, show(v), show(outer), show(want), show(inner), show(plain))})
        if not skip_model:
            try:
                add_lit(lits, kept, c_case(sname, "result", v, inner, codes), (case, "reentrant-inner", inner))
            except Unrep as x:
                res.mismatches.append({"component": "C01:reentrant", "case": case, "impl": str(x)})
        return inner
    if case["level"] == "ser":
        obs = run_ser(sname, v, BUFFERS)
        res.count("ser:%s:%s" % (sname, obs["result"][0] if obs["result"][0] == "ok" else "refused"))
        if with_oracle and not skip_model:
            for sig, what in oracle_ser(sname, v, obs):
                res.violations.append({"signature": sig, "what": what, "case": case})
        if not skip_model:
            for key, o in obs.items():
                path, kind = key if isinstance(key, tuple) else (key, None)
                if kind is None:
                    continue
                try:
                    add_lit(lits, kept, c_case(sname, path, v, o, codes), (case, "%s/%s" % (path, kind), o))
                except Unrep as x:
                    res.mismatches.append({"component": "C01:serializer-level", "case": case, "impl": "%s: %s" % (path, x)})
        else:
            res.count("outside-model")
        return obs
    obs_by_pos = {}
    for pos in case["positions"]:
        for comp in case["compress"]:
            for msg in case.get("msg", [""]):
                obs_by_pos[(pos, comp, msg)] = world.observe(sname, pos, v, comp, msg)
                res.count("e2e:%s:%s" % (pos, "compress" if comp else "plain"))
                res.count("e2e-msg:" + (msg or "none"))
    if with_oracle and not skip_model:
        for sig, what in oracle_e2e(case, obs_by_pos):
            res.violations.append({"signature": sig, "what": what, "case": case})
    if not skip_model:
        for (pos, comp, msg), obs in obs_by_pos.items():
            path, wrapped = POSITIONS[pos]
            try:
                add_lit(lits, kept, c_case(sname, path, [v] if wrapped else v, obs, codes),
                        (case, "%s/%s/msg=%s" % (pos, "compress" if comp else "plain", msg or "none"), obs))
            except Unrep as x:
                res.mismatches.append({"component": "C01:end-to-end", "case": case, "impl": "%s: %s" % (pos, x)})
    return obs_by_pos


def add_lit(lits, kept, literal, origin):
    """`wire` has no buffer-type / annotation / correlation-id / compression parameter: observations of one value on one
    path that agree are ONE model evaluation; any observation that differs is a further case (and then a mismatch)"""
    if literal not in lits.index:
        lits.index[literal] = len(lits)
        lits.append(literal)
        kept.append(origin)


class LitList(list):
    def __init__(self):
        list.__init__(self)
        self.index = {}


def straddle_cases(info):
    """payloads of exactly threshold-1 .. threshold+2 bytes, per serializer and position, core text and a mixed value"""
    thr = info["threshold"]
    out = []
    for sname in SERS:
        for pos in POSITIONS:
            for want in (thr - 1, thr, thr + 1, thr + 2):
                for mk in (lambda n: "z" * n, lambda n: ["é" * n, 2 ** 70, -0.0]):
                    for n in range(0, 140):
                        if payload_size(sname, pos, mk(n)) == want:
                            out.append({"level": "e2e", "ser": sname, "value": S(mk(n)), "positions": [pos], "compress": [False, True],
                                        "msg": ["", "rp"], "note": "payload %d bytes" % want})
                            break
    return out


def make_cases(ctx, info):
    rng = ctx.rng
    cases = []
    for v in TARGET_VALUES:
        for sname in SERS:
            cases.append({"level": "ser", "ser": sname, "value": S(v)})
    for spec in gen_values(ctx, ctx.n(420, 5000)):
        for sname in SERS:
            cases.append({"level": "ser", "ser": sname, "value": spec})
    for v in [{1, "a"}, [uuid.UUID(int=9), 2 ** 70, 1 + 2j], "plain text", {"k": [1.5, None]}, datetime.date(2000, 1, 2), decimal.Decimal("7.5")]:
        for sname in SERS:
            cases.append({"level": "reentrant", "ser": sname, "value": S(v)})
    for spec in gen_values(ctx, ctx.n(10, 100)):
        cases.append({"level": "reentrant", "ser": rng.choice(SERS), "value": spec})
    e2e = []
    for v in TARGET_VALUES[:24] + [None, False, 0, "", [], 0.0, datetime.datetime(1969, 12, 31, 23, 59, 58, 500000), [datetime.datetime(1950, 6, 1, 1, 2, 3, 1)], uuid.UUID(int=5), [uuid.UUID(int=5)], b"abc", {"k": (1, 2)}, "x" * 300, list(range(60))]:
        for sname in SERS:
            e2e.append({"level": "e2e", "ser": sname, "value": S(v), "positions": list(POSITIONS), "compress": [False, True],
                        "msg": MSG_ALL if len(e2e) % 3 == 0 else ["", "r", "p", "rpc"]})
    for spec in gen_values(ctx, ctx.n(40, 500)):
        sname = rng.choice(SERS)
        e2e.append({"level": "e2e", "ser": sname, "value": spec, "positions": list(POSITIONS), "compress": [False, True],
                    "msg": ["", rng.choice(MSG_ALL[1:]), rng.choice(MSG_ALL[1:])]})
    big = gen_values(ctx, ctx.n(12, 120))
    for i, spec in enumerate(big):     # large payloads: compression really happens
        sname = SERS[i % 4]
        e2e.append({"level": "e2e", "ser": sname, "value": ["list", [spec] * 5 + [["str", [97] * 150]]],
                    "positions": ["positional", "keyword", "result", "batchresult", "stream"][i % 5:][:2], "compress": [False, True],
                    "msg": ["", "rp"]})
    return cases + straddle_cases(info) + e2e


def execute(ctx, cases, model_ok, res, info, with_oracle=True):
    lits, kept = LitList(), []
    world = None
    try:
        for case in cases:
            if case["level"] == "e2e" and world is None:
                world = World()
            run_case(ctx, case, info, world, res, lits, kept, with_oracle)
            res.seen(case, True)
    finally:
        if world is not None:
            res.extra.update(world.flags_stats())
            world.close()
    res.extra["model_evaluations"] = len(lits)
    if model_ok:
        for idx in vlib.run_cases(ctx, "c", IMPORTS, "case", "check_case", lits, shard=250):
            case, where, obs = kept[idx]
            res.mismatches.append({"component": "C01:" + case["level"], "case": case,
                                   "impl": "%s -> %s" % (where, show(obs))})
    return res


RULE = ("values: own generator over None/bool/int (boundaries of 8..64 bits, up to 2^200)/float (random bit patterns, inf, nan, -0.0, "
        "subnormals)/text (ascii, BMP, astral, NUL; no surrogates)/bytes/complex/uuid/Decimal/date/naive datetime (1902..2100, pre- and post-epoch, microseconds 0 and non-0), nested in list/tuple/set/frozenset/"
        "dict (str keys mostly, also int/float/bool/None/tuple/bytes/frozenset/complex/uuid keys) to depth 4 (quick) / 6 (thorough), "
        "40% drawn from the lossless core only; plus ~90 targeted values. Each value x 4 serializers at the serializer level "
        "(positional, keyword, result, each deserialized from bytes / bytearray / memoryview / memoryview slice / memoryview of "
        "bytearray); end to end through the loopback transport for 7 positions x compression off/on x message configuration (request "
        "annotations, response annotations via Daemon.annotations(), correlation id: all 8 combinations for a third of the targeted "
        "values, 4 for the rest, 2 random ones for generated values), incl. payloads of exactly threshold-1..threshold+2 bytes and "
        "large compressible payloads; observations of one value on one path that agree are one model evaluation; a re-entrancy "
        "probe per serializer (a converter hook serialising a second value with the same serializer object). "
        "distinct = distinct (level, serializer, value) cases")


def run(ctx, model_ok=True):
    res = vlib.Result()
    info = get_info(ctx)
    cases = vlib.load_corpus(PROP) + make_cases(ctx, info)
    execute(ctx, cases, model_ok, res, info)
    res.rule = RULE
    res.samples = [c for c in cases if c["level"] == "ser"][400:402] + [c for c in cases if c["level"] == "e2e"][-2:]
    return res


def search(ctx, broken):
    res = vlib.Result()
    info = get_info(ctx)
    cases = [b["case"] for b in broken if b.get("case")] + make_cases(ctx, info)
    execute(ctx, cases, False, res, info)
    return res


def replay(ctx, case):
    info = get_info(ctx)
    res = vlib.Result()
    execute(ctx, [case], False, res, info)
    if res.violations:
        return True, {"oracle": [(v["signature"], v["what"]) for v in res.violations]}
    res = vlib.Result()
    execute(ctx, [case], True, res, info, with_oracle=False)
    if res.mismatches:
        return True, {"mismatch": True, "impl": [m["impl"] for m in res.mismatches]}
    return False, {}
