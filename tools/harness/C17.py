"""C17 — socket reads and writes: scripted fake socket vs Model/SockIO.v (DESIGN 6/C17)."""
import errno, json, socket, types
from tools.lib import vlib
from tools.lib.vlib import cN, cnat, cbool, clist, copt

PROP = "C17"
GEN = ["GenSockutil"]
ASSUMPTIONS = [
    "a socket call transfers a prefix of the pending bytes or raises (the script quantifies over which)",
    "socket.sendall is modelled as a send loop that raises on the first error (atomic oracle)",
    "time.sleep is recorded, not executed",
]
IMPORTS = "From V Require Import Model.Bytes Model.SockIO Harness.Cmp Harness.H17."
REQUIRED = [errno.EINTR, errno.EAGAIN, errno.EWOULDBLOCK]
FATAL = [errno.EPIPE, errno.ECONNRESET, errno.EBADF, errno.ECONNABORTED, None]


class ScriptEnd(BaseException):
    pass


class FakeSock:
    def __init__(self, script, stream=b"", blocking=True):
        self.script = list(script)
        self.stream = stream
        self.pos = 0
        self.peer = bytearray()
        self.blocking = blocking
        self.consumed_events = []
        self.recv_sizes = []
        self.last_recv_len = None

    def _next(self):
        if not self.script:
            raise ScriptEnd()
        ev = self.script.pop(0)
        self.consumed_events.append(ev)
        return ev

    def _raise(self, ev):
        if ev[0] == "T":
            raise socket.timeout("timed out")
        e = ev[1]
        if e is None:
            raise OSError("boom")
        raise OSError(e, "scripted")

    def recv(self, n, flags=0):
        self.recv_sizes.append((n, flags))
        ev = self._next()
        if ev[0] == "D":
            k = min(ev[1], n)
            chunk = self.stream[self.pos:self.pos + k]
            self.pos += len(chunk)
            self.last_recv_len = len(chunk)
            return chunk
        if ev[0] == "E":
            self.last_recv_len = 0
            return b""
        self.last_recv_len = None
        self._raise(ev)

    def gettimeout(self):
        return None if self.blocking else 1.0

    def send(self, data):
        ev = self._next()
        if ev[0] == "D":
            chunk = bytes(data[:ev[1]])
            self.peer.extend(chunk)
            return len(chunk)
        if ev[0] == "E":
            return 0
        self._raise(ev)

    def sendall(self, data):
        data = bytes(data)
        while data:
            ev = self._next()
            if ev[0] == "D":
                self.peer.extend(data[:ev[1]])
                data = data[ev[1]:]
            elif ev[0] == "E":
                pass
            else:
                self._raise(ev)


def stream_bytes(s):
    return bytes(s["lit"]) if "lit" in s else vlib.pattern(*s["pat"])


def run_impl(case):
    """Run the real socketutil function on the scripted socket; return the observation."""
    from Pyro5 import socketutil, errors
    sleeps = []
    real_time = socketutil.time
    shim = types.SimpleNamespace(sleep=lambda d: sleeps.append(d))
    shim.__dict__.update({k: getattr(real_time, k) for k in dir(real_time) if k not in ("sleep",) and not k.startswith("__")})
    socketutil.time = shim
    old_wa = socketutil.USE_MSG_WAITALL
    try:
        if case["kind"] == "recv":
            stream = stream_bytes(case["stream"])
            sock = FakeSock(case["script"], stream)
            socketutil.USE_MSG_WAITALL = bool(case["waitall"])
            obs = {"data": None, "partial": None}
            try:
                d = socketutil.receive_data(sock, case["size"])
                obs["kind"] = "ok"
                obs["data"] = bytes(d)
            except errors.ConnectionClosedError as x:
                p = getattr(x, "partialData", None)
                if p is None:
                    obs["kind"] = "closed"
                else:
                    obs["kind"] = "closed_partial"
                    obs["partial"] = bytes(p)
            except errors.TimeoutError:
                obs["kind"] = "timeout"
            except ScriptEnd:
                obs["kind"] = "scriptend"
            except BaseException as x:  # anything else is outside the model's vocabulary
                obs["kind"] = "other:" + type(x).__name__
            obs["consumed"] = sock.pos
            obs["sleeps"] = list(sleeps)
            obs["events"] = sock.consumed_events
            obs["recv_sizes"] = sock.recv_sizes
            obs["last_recv_len"] = sock.last_recv_len
            return obs
        else:
            data = stream_bytes(case["data"])
            sock = FakeSock(case["script"], blocking=bool(case["blocking"]))
            obs = {}
            try:
                socketutil.send_data(sock, data)
                obs["kind"] = "ok"
            except errors.ConnectionClosedError:
                obs["kind"] = "closed"
            except errors.TimeoutError:
                obs["kind"] = "timeout"
            except ScriptEnd:
                obs["kind"] = "scriptend"
            except BaseException as x:
                obs["kind"] = "other:" + type(x).__name__
            obs["peer"] = bytes(sock.peer)
            obs["sleeps"] = list(sleeps)
            obs["events"] = sock.consumed_events
            return obs
    finally:
        socketutil.time = real_time
        socketutil.USE_MSG_WAITALL = old_wa


def expected_delays(n, info):
    out = list(info["retry_delays"])
    d = 0.1
    while len(out) < n:
        out.append(d)
        d += 0.1
    return out[:n]


def oracle(case, obs):
    """The property, stated directly over what the implementation did. Returns [] or [(signature, what)]."""
    bad = []
    last = obs["events"][-1] if obs["events"] else None
    if obs["kind"].startswith("other:"):
        bad.append(("unexpected-exception", "raised %s instead of returning data / ConnectionClosedError / TimeoutError" % obs["kind"][6:]))
        return bad
    if case["kind"] == "recv":
        stream = stream_bytes(case["stream"])
        size = case["size"]
        if obs["kind"] == "ok":
            if obs["data"] != stream[:size] or len(obs["data"]) != size:
                bad.append(("recv-wrong-data", "receive_data returned %d bytes that are not the next %d bytes of the stream" % (len(obs["data"]), size)))
            if obs["consumed"] != size:
                bad.append(("recv-wrong-position", "returned ok but consumed %d bytes of the stream for a %d byte read" % (obs["consumed"], size)))
        else:
            if obs["consumed"] > size:
                bad.append(("recv-overconsumed", "failed read consumed %d > %d bytes" % (obs["consumed"], size)))
            if obs["kind"] == "closed_partial":
                if obs["partial"] != stream[:obs["consumed"]]:
                    bad.append(("recv-partial-wrong", "partialData is not the bytes received so far"))
                fatal = last is not None and last[0] == "X" and last[1] not in REQUIRED
                if len(obs["partial"]) >= size and not fatal:
                    bad.append(("recv-partial-not-short", "partialData has %d bytes for a %d byte read" % (len(obs["partial"]), size)))
                if obs.get("last_recv_len") != 0 and not fatal:
                    # (a connection-closed error for a fatal socket error may carry the bytes so far as well)
                    bad.append(("recv-spurious-close", "connection-closed (with partial data) raised although the last recv neither reported end of stream nor failed fatally"))
                if last is not None and last[0] == "X" and last[1] in REQUIRED:
                    bad.append(("recv-retryable-fatal", "retryable errno %s ended the read" % last[1]))
            if obs["kind"] == "closed":
                if last is not None and last[0] == "X" and last[1] in REQUIRED:
                    bad.append(("recv-retryable-fatal", "retryable errno %s ended the read" % last[1]))
                if last is None or last[0] != "X":
                    bad.append(("recv-spurious-close", "connection lost raised without a socket error"))
            if obs["kind"] == "timeout" and (last is None or last[0] != "T"):
                bad.append(("recv-spurious-timeout", "timeout raised without a socket timeout"))
    else:
        data = stream_bytes(case["data"])
        if obs["kind"] == "ok":
            if obs["peer"] != data:
                bad.append(("send-wrong-data", "send_data returned but the peer has %d bytes != the %d byte buffer" % (len(obs["peer"]), len(data))))
        else:
            if data[:len(obs["peer"])] != obs["peer"]:
                bad.append(("send-not-prefix", "after a failed send the peer holds bytes that are not a prefix of the buffer"))
            if obs["kind"] == "closed" and last is not None and last[0] == "X" and last[1] in REQUIRED and not case["blocking"]:
                bad.append(("send-retryable-fatal", "retryable errno %s ended the send" % last[1]))
            if obs["kind"] == "timeout" and (last is None or last[0] != "T"):
                bad.append(("send-spurious-timeout", "timeout raised without a socket timeout"))
    return bad


# ---------------------------------------------------------------- Gallina encodings
def c_ev(ev):
    if ev[0] == "D":
        return "Deliver %s" % cnat(ev[1])
    if ev[0] == "E":
        return "Eof"
    if ev[0] == "T":
        return "Timeout"
    return "Err %s" % copt(ev[1], cN)


def c_src(s):
    if "lit" in s:
        return "(Lit %s)" % clist([cN(x) for x in s["lit"]])
    a, c, ln = s["pat"]
    return "(Pat %s %s %s)" % (cN(a), cN(c), cN(ln))


def c_ck(b):
    ln, h = vlib.cksum(b)
    return "(%s, %s)" % (cN(ln), cN(h))


def c_case(case, obs):
    script = clist([c_ev(e) for e in case["script"]])
    if case["kind"] == "recv":
        k = obs["kind"]
        o = {"ok": lambda: "OOk %s" % c_ck(obs["data"]), "closed_partial": lambda: "OClosedPartial %s" % c_ck(obs["partial"]),
             "closed": lambda: "OClosed", "timeout": lambda: "OTimeout", "scriptend": lambda: "OScriptEnd"}[k]()
        return "RC {| rc_waitall := %s; rc_size := %s; rc_script := %s; rc_stream := %s; rc_obs := %s; rc_consumed := %s; rc_delays := %s |}" % (
            cbool(case["waitall"]), cN(case["size"]), script, c_src(case["stream"]), o, cN(obs["consumed"]), cN(len(obs["sleeps"])))
    o = {"ok": "SoOk", "closed": "SoClosed", "timeout": "SoTimeout", "scriptend": "SoScriptEnd"}[obs["kind"]]
    return "SC {| sc_blocking := %s; sc_data := %s; sc_script := %s; sc_obs := %s; sc_peer := %s; sc_delays := %s |}" % (
        cbool(case["blocking"]), c_src(case["data"]), script, o, c_ck(obs["peer"]), cN(len(obs["sleeps"])))


# ---------------------------------------------------------------- generator
def gen_script(rng, size, retry_errnos, hostile):
    evs = []
    n = rng.choice([0, 1, 1, 2, 3, 4, 6, 9, 14])
    remaining = size
    for _ in range(n):
        r = rng.random()
        if r < 0.55:
            k = rng.choice([0, 1, 2, 3, max(1, size // 3), max(1, size // 2), size, size + 1, size + 7, 60000, 60001, rng.randint(0, size + 2)])
            evs.append(["D", k])
            remaining -= min(k, remaining)
        elif r < 0.80:
            evs.append(["X", rng.choice(retry_errnos)])
        elif hostile and r < 0.88:
            evs.append(["X", rng.choice(FATAL)])
        elif hostile and r < 0.94:
            evs.append(["T"])
        elif hostile:
            evs.append(["E"])
        else:
            evs.append(["X", rng.choice(retry_errnos)])
    if not hostile or rng.random() < 0.5:
        # make completion possible: enough deliveries at the end
        for _ in range(rng.choice([1, 2, 5])):
            evs.append(["D", max(1, size)])
    return evs


def gen_cases(ctx, info):
    rng = ctx.rng
    retry = sorted(set(info["errno_retries"]) | set(REQUIRED))
    cases = []
    n_small = ctx.n(2500, 30000)
    n_big = ctx.n(6, 60)
    for i in range(n_small):
        hostile = rng.random() < 0.45
        size = rng.choice([0, 1, 2, 3, 5, 8, 13, 40, 64, 100, 255, rng.randint(0, 300)])
        if rng.random() < 0.6:
            slen = size + rng.choice([0, 0, 1, 5, 40])
            if hostile and rng.random() < 0.4:
                slen = rng.randint(0, size)
            if slen <= 48:
                stream = {"lit": [rng.randrange(256) for _ in range(slen)]}
            else:
                stream = {"pat": [rng.randrange(1, 250), rng.randrange(251), slen]}
            cases.append({"kind": "recv", "waitall": rng.random() < 0.5, "size": size,
                          "script": gen_script(rng, size, retry, hostile), "stream": stream})
        else:
            if size <= 48:
                data = {"lit": [rng.randrange(256) for _ in range(size)]}
            else:
                data = {"pat": [rng.randrange(1, 250), rng.randrange(251), size]}
            cases.append({"kind": "send", "blocking": rng.random() < 0.4, "data": data,
                          "script": gen_script(rng, size, retry, hostile)})
    cap = info["recv_cap"]
    for i in range(n_big):
        size = rng.choice([cap - 1, cap, cap + 1, 2 * cap, 2 * cap + 17, 3 * cap + 5, rng.randint(cap, 200000)])
        slen = size + rng.choice([0, 3])
        script = []
        for _ in range(rng.randint(0, 3)):
            script.append(rng.choice([["D", rng.choice([1, 1000, cap - 1, cap, cap + 1, size])], ["X", rng.choice(retry)]]))
        script += [["D", size]] * 6
        cases.append({"kind": "recv", "waitall": rng.random() < 0.5, "size": size, "script": script,
                      "stream": {"pat": [rng.randrange(1, 250), rng.randrange(251), slen]}})
    rng.shuffle(cases)   # spread the expensive big cases over the shards
    return cases


def nontrivial(case, obs):
    return len(obs["events"]) >= 2


def targeted(info):
    """cases aimed at the constants the proofs depend on: every required errno in every position"""
    out = []
    for e in REQUIRED:
        for wa in (False, True):
            out.append({"kind": "recv", "waitall": wa, "size": 4, "script": [["D", 2], ["X", e], ["D", 4]], "stream": {"lit": [9, 8, 7, 6, 5]}})
            out.append({"kind": "recv", "waitall": wa, "size": 4, "script": [["X", e], ["D", 4]], "stream": {"lit": [9, 8, 7, 6, 5]}})
        out.append({"kind": "send", "blocking": False, "data": {"lit": [1, 2, 3, 4]}, "script": [["D", 1], ["X", e], ["D", 9]]})
    # long runs of retryable errors inside ONE call (the back-off delay sequence must never run out)
    for nretry in (12, 13, 14, 15, 25, 40):
        for e in REQUIRED[:2]:
            run = [["X", e]] * nretry
            inter = []
            for i in range(nretry):
                inter += [["X", e], ["D", 1]] if i % 3 == 0 else [["X", e]]
            for wa in (False, True):
                out.append({"kind": "recv", "waitall": wa, "size": 4, "script": run + [["D", 4]], "stream": {"lit": [9, 8, 7, 6, 5]}})
                out.append({"kind": "recv", "waitall": wa, "size": 30, "script": [["D", 2]] + inter + [["D", 30]],
                            "stream": {"pat": [7, 3, 33]}})
            out.append({"kind": "send", "blocking": False, "data": {"lit": [1, 2, 3, 4]}, "script": [["D", 1]] + run + [["D", 9]]})
    return out


def execute(ctx, cases, model_ok, res):
    from tools.gen import gen
    lits, kept = [], []
    for case in cases:
        obs = run_impl(case)
        res.seen(case, nontrivial(case, obs))
        res.count(case["kind"] + ":" + obs["kind"])
        res.count("script_len_%s" % min(len(case["script"]), 10))
        for sig, what in oracle(case, obs):
            res.violations.append({"signature": sig, "what": what, "case": case})
        if obs["kind"].startswith("other:"):
            res.mismatches.append({"component": "C17", "case": case, "impl": obs["kind"], "model": "no such outcome"})
            continue
        lits.append(c_case(case, obs))
        kept.append((case, obs))
    if model_ok:
        for idx in vlib.run_cases(ctx, "c", IMPORTS, "case", "check_case", lits):
            case, obs = kept[idx]
            short = {k: (v if not isinstance(v, (bytes, bytearray)) else list(v[:64])) for k, v in obs.items()}
            res.mismatches.append({"component": "C17", "case": case, "impl": short})
    return res


def run(ctx, model_ok=True):
    from tools.gen import gen
    res = vlib.Result()
    st = gen.regenerate(ctx.tree, only=["GenSockutil"])["GenSockutil"]
    info = st["info"] if st["ok"] else {"errno_retries": [4, 11, 115], "recv_cap": 60000, "retry_delays": [0.0001, 0.001, 0.01]}
    cases = vlib.load_corpus(PROP) + targeted(info) + gen_cases(ctx, info)
    execute(ctx, cases, model_ok, res)
    res.rule = ("seeded random scripts of Deliver/Eof/Err/Timeout events over literal or pattern streams, sizes 0..300 plus "
                "sizes around multiples of the recv cap up to 200000; both MSG_WAITALL settings, blocking and timeout sends; "
                "non-trivial = at least two socket calls were made; distinct = distinct (case) hash")
    res.samples = cases[-3:] + cases[:2]
    return res


def search(ctx, broken):
    res = vlib.Result()
    from tools.gen import gen
    st = gen.regenerate(ctx.tree, only=["GenSockutil"])["GenSockutil"]
    info = st["info"] if st["ok"] else {"errno_retries": [4, 11, 115], "recv_cap": 60000, "retry_delays": [0.0001, 0.001, 0.01]}
    cases = [b["case"] for b in broken if b.get("case")] + targeted(info) + gen_cases(ctx, info)
    for case in cases:
        obs = run_impl(case)
        res.seen(case)
        for sig, what in oracle(case, obs):
            res.violations.append({"signature": sig, "what": what, "case": case})
    return res


def replay(ctx, case):
    obs = run_impl(case)
    bad = oracle(case, obs)
    short = {k: (v if not isinstance(v, (bytes, bytearray)) else list(v[:64])) for k, v in obs.items()}
    if bad:
        return True, {"oracle": bad, "impl": short}
    res = vlib.Result()
    execute(ctx, [case], True, res)
    if res.mismatches:
        model = vlib.eval_model(ctx, IMPORTS, "match (%s) with RC r => inl (model_recv r) | SC s => inr (model_send s) end" % c_case(case, obs))
        return True, {"mismatch": True, "impl": short, "model": model[-1500:]}
    return False, {"impl": short}
