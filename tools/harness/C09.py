"""C09 — instance modes.  One case = a table of classes (mode, instance shape, creator), a script
saying what the n-th creator invocation does, a sequential history of Call/Close events played
by real Proxies against a real Daemon through the in-process loopback, then a concurrent phase:
real threads calling `daemon._getInstance(cls, conn)` under the cooperative scheduler (one
shared access per step: lock acquire/release, table get/set, creator invocation).
The same case is evaluated by Model/Instances.v inside Coq (Harness/H09.v) with the shape the
extractor read off the tree under test; the oracle states the property directly in Python."""
import gc, sys, types, weakref
from tools.lib import vlib, coop, loopback
from tools.lib.vlib import cnat, cbool, clist

PROP = "C09"
GEN = ["GenInstances"]
ASSUMPTIONS = [
    "an instance influences the daemon only through its truthiness and its __eq__/__hash__ (the two bits of the model); creators are arbitrary but deterministic in the serial number of the invocation",
    "each instrumented primitive (dict get/set on _pyroInstances, lock acquire/release, one creator invocation) is atomic under the GIL and code between two primitives is thread-local",
    "a connection ends when SocketConnection.close() runs (server loop calls it on disconnect); the loopback transport reproduces the multiplex server's disconnect handling; an abortive end (TCP reset) is represented by a server-side socket whose shutdown() raises ENOTCONN",
    "classes are registered with a mode accepted by @behavior (single/session/percall) or none (session)",
]
IMPORTS = "From V Require Import Model.Atomic Model.Instances Gen.GenInstances Harness.Cmp Harness.H09."
KNOWN_SIG = "falsy-instance-recreated"


# ---------------------------------------------------------------- the instrumented world
class CreatorFailed(LookupError):
    """raised by failing constructors/creators; crosses the wire as its builtin base class"""
    pass


FAIL_MARK = "c09-creator-failed"
FAIL_CLASSES = {"LookupError": LookupError, "TypeError": TypeError, "ValueError": ValueError, "RuntimeError": RuntimeError,
                "KeyError": KeyError, "AttributeError": AttributeError, "ZeroDivisionError": ZeroDivisionError,
                "IndexError": IndexError}
CREATORS = ("none", "func", "opt", "star", "obj", "cmeth")


def failure(o, n):
    return FAIL_CLASSES[o[1] if len(o) > 1 else "LookupError"](FAIL_MARK, n)


class World:
    def __init__(self, case):
        self.case = case
        self.cur = 0             # the daemon that is being driven right now
        self.counter = {}        # daemon -> number of creator invocations
        self.log = {}            # daemon -> [(cls index, outcome)] per creator invocation
        self.ctl = None
        self.classes = []
        self.refs = {}           # (daemon, serial) -> weakref
        self.bits = {}           # (daemon, serial) -> (cls, truthy, eqnone)
        self.bypass = []         # constructor of a class WITH creator invoked directly
        self.subclasses = {}     # cls index -> a proper subclass (creators may return instances of it)

    def outcome(self, n, idx):
        sc = self.case["script"]
        o = list(sc[n]) if n < len(sc) else list(self.case["dflt"])
        spec = self.case["classes"][idx]
        if o[0] == "made":
            # ["made", truthy, eqnone, subclass]: only a creator can hand out an instance of a proper subclass
            o = ["made", bool(o[1]) or spec["flavour"] == "plain", bool(o[2]) and spec["eq"],
                 bool(o[3]) if len(o) > 3 and spec["creator"] != "none" else False]
        elif o[0] == "wrong" and spec["creator"] == "none":
            o = ["fail", "LookupError"]
        elif o[0] == "fail":
            o = ["fail", o[1] if len(o) > 1 and o[1] in FAIL_CLASSES else "LookupError"]
        return o

    def invoke(self, idx):
        """one creator invocation (constructor call for classes without creator)"""
        if self.ctl is not None:
            self.ctl.yield_point("access", "create")
        d = self.cur
        n = self.counter.get(d, 0)
        self.counter[d] = n + 1
        o = self.outcome(n, idx)
        self.log.setdefault(d, []).append((idx, o))
        return n, o

    def build(self, idx, n, o):
        cls = self.classes[idx]
        if len(o) > 3 and o[3]:
            if idx not in self.subclasses:
                self.subclasses[idx] = type("Sub%d" % idx, (cls,), {})
            cls = self.subclasses[idx]
        obj = object.__new__(cls)
        obj._daemon, obj._serial, obj._truthy, obj._eqnone = self.cur, n, o[1], o[2]
        self.refs[(self.cur, n)] = weakref.ref(obj)
        self.bits[(self.cur, n)] = (idx, o[1], o[2])
        return obj


def make_class(world, idx, spec):
    import Pyro5.server as srv
    ns = {}

    def __new__(cls, *a, **kw):
        # direct construction: the creator invocation of a class without instance_creator
        if spec["creator"] != "none":
            world.bypass.append(idx)
        n, o = world.invoke(idx)
        if o[0] != "made":
            raise failure(o, n)
        return world.build(idx, n, o)

    def ident(self):
        return [self._daemon, self._serial]
    ns["__new__"] = __new__
    ns["ident"] = ident
    if spec["flavour"] == "len":
        ns["__len__"] = lambda self: 1 if self._truthy else 0
    elif spec["flavour"] == "bool":
        ns["__bool__"] = lambda self: self._truthy
    if spec["eq"]:
        def __eq__(self, other):
            if other is None:
                return self._eqnone
            return isinstance(other, type(self))        # all instances of the class compare equal
        ns["__eq__"] = __eq__
        ns["__ne__"] = lambda self, other: not self.__eq__(other)
        ns["__hash__"] = lambda self: 7
    cls = type("Cls%d" % idx, (object,), ns)
    cls = srv.expose(cls)

    def creator(clazz=None):
        n, o = world.invoke(idx)
        if o[0] == "fail":
            raise failure(o, n)
        if o[0] == "wrong":
            return object()
        return world.build(idx, n, o)
    cr = None
    kind = spec["creator"]
    if kind == "func":                       # f(clazz)
        cr = lambda clazz: creator(clazz)    # noqa: E731
    elif kind == "opt":                      # f(clazz=None): also callable without arguments
        cr = creator
    elif kind == "star":                     # f(*a)
        cr = lambda *a: creator(*a[:1])      # noqa: E731
    elif kind == "obj":                      # callable object, class argument optional
        cr = type("Creator", (object,), {"__call__": lambda self, clazz=None: creator(clazz)})()
    elif kind == "cmeth":                    # bound classmethod of a factory class
        cr = type("Factory", (object,), {"make": classmethod(lambda fcls, clazz=None: creator(clazz))}).make
    if spec["mode"] == "default":
        assert cr is None, "a class registered without @behavior cannot have a creator"
    else:
        cls = srv.behavior(instance_mode=spec["mode"], instance_creator=cr)(cls)
    return cls


class InstrDict(dict):
    """Daemon._pyroInstances with a yield point before every primitive"""
    ctl = None

    def _y(self, what):
        if self.ctl is not None:
            self.ctl.yield_point("access", what)

    def get(self, *a):
        self._y("get")
        return dict.get(self, *a)

    def __getitem__(self, k):
        self._y("getitem")
        return dict.__getitem__(self, k)

    def __setitem__(self, k, v):
        self._y("set")
        dict.__setitem__(self, k, v)

    def __contains__(self, k):
        self._y("contains")
        return dict.__contains__(self, k)

    def setdefault(self, *a):
        self._y("setdefault")
        return dict.setdefault(self, *a)

    def pop(self, *a):
        self._y("pop")
        return dict.pop(self, *a)

    def __delitem__(self, k):
        self._y("del")
        dict.__delitem__(self, k)


def instrument_daemon(daemon, ctl):
    """every dict- or lock-valued attribute of the daemon instance gets an instrumented twin, whatever its name:
    state that an edit adds to the daemon is a yield point too"""
    import threading
    lock_t, rlock_t = type(threading.Lock()), type(threading.RLock())
    for name, val in list(vars(daemon).items()):
        if type(val) is dict:
            twin = InstrDict(val)
            twin.ctl = ctl
            for k, v in list(val.items()):       # locks kept inside a table (e.g. one per class) become cooperative too
                if isinstance(v, lock_t):
                    dict.__setitem__(twin, k, coop.CoopLock(ctl))
                elif isinstance(v, rlock_t):
                    dict.__setitem__(twin, k, coop.CoopRLock(ctl))
            setattr(daemon, name, twin)
        elif isinstance(val, lock_t):
            setattr(daemon, name, coop.CoopLock(ctl))
        elif isinstance(val, rlock_t):
            setattr(daemon, name, coop.CoopRLock(ctl))


def coop_threading(ctl):
    """locks that Pyro5.server creates while the controlled threads run are cooperative locks; returns the undo function"""
    import threading
    import Pyro5.server as srv
    real = srv.threading
    shim = types.SimpleNamespace(**{k: getattr(threading, k) for k in dir(threading) if not k.startswith("__")})
    shim.Lock = lambda: coop.CoopLock(ctl)
    shim.RLock = lambda: coop.CoopRLock(ctl)
    srv.threading = shim

    def undo():
        srv.threading = real
    return undo


def code_objects(code):
    out = {code}
    for c in code.co_consts:
        if isinstance(c, types.CodeType):
            out |= code_objects(c)
    return out


def make_line_tracer(daemon, ctl):
    """line-level yield points inside Daemon._getInstance, its nested helpers and every function of Pyro5/server.py it
    calls (private helper methods a refactoring may have split it into): one scheduler step per source line"""
    import threading
    codes = code_objects(type(daemon)._getInstance.__code__)
    srvfile = type(daemon)._getInstance.__code__.co_filename
    inside = threading.local()

    def local(frame, event, arg):
        if event == "line":
            ctl.yield_point("line", frame.f_lineno)
        return local

    def root(frame, event, arg):
        if event == "line":
            ctl.yield_point("line", frame.f_lineno)
        elif event == "return" and frame.f_code is type(daemon)._getInstance.__code__:
            inside.n = getattr(inside, "n", 1) - 1
        return root

    def tracer(frame, event, arg):
        if event != "call":
            return None
        if frame.f_code is type(daemon)._getInstance.__code__:
            inside.n = getattr(inside, "n", 0) + 1
            return root
        if frame.f_code in codes or (getattr(inside, "n", 0) > 0 and frame.f_code.co_filename == srvfile):
            return local
        return None
    return tracer


_GEN_INFO = {}


def gen_info(tree):
    if tree not in _GEN_INFO:
        try:
            from tools.gen import gen
            gen.load_plugins()
            from tools.gen import gen_instances
            _GEN_INFO[tree] = gen_instances.extract(tree)
        except Exception as x:     # extractor failed closed: fall back to the attribute name of the pinned tree
            _GEN_INFO[tree] = {"lock_attr": "create_single_instance_lock", "lock_kind": "Lock", "error": str(x)}
    return _GEN_INFO[tree]


def serial_of(a):
    """serial of one of our instances; a foreign object found in a table is reported as 999999"""
    s = getattr(a, "_serial", None)
    return s if isinstance(s, int) else 999999


def mode_of(spec):
    return "session" if spec["mode"] == "default" else spec["mode"]


def call_result(fn, world=None, d=0, c=None, n0=None):
    """served / failed (the creator raised) / failed-wrongtype (the daemon refused what the creator returned: a
    TypeError while the creator of class c handed out a foreign object during this call; the message text is
    incidental) / error (anything else)"""
    if world is not None and n0 is None:
        n0 = len(world.log.get(d, []))
    try:
        r = fn()
        return ["served", r]
    except Exception as x:       # noqa
        if x.args and x.args[0] == FAIL_MARK:
            return ["failed", False]
        if isinstance(x, TypeError) and world is not None and \
                any(i == c and o[0] == "wrong" for i, o in world.log.get(d, [])[n0:]):
            return ["failed", True]
        return ["error", type(x).__name__ + ":" + str(x)[:80]]


ENDINGS = ("orderly", "reset", "stale", "error")


def admin_result(fn):
    try:
        fn()
        return ["admin"]
    except Exception as x:       # noqa
        return ["error", type(x).__name__ + ":" + str(x)[:80]]


def ending_of(ev):
    return ev[2] if len(ev) > 2 else "orderly"


def end_connection(net, lc, proxy, how):
    """the ways a connection ends; in every one of them the server side runs SocketConnection.close()
    (the loopback reproduces the server loop's disconnect handling)"""
    import errno

    def not_connected(*a):
        raise OSError(errno.ENOTCONN, "Transport endpoint is not connected")
    if how == "reset":
        # abortive end (client killed / SO_LINGER 0 -> TCP reset): the connection is no longer established
        # when the server closes it, so shutdown() of the server-side socket raises ENOTCONN
        lc.ssock.shutdown = not_connected
        net._reset(lc)
    elif how == "stale":
        # the server-side socket has already been closed when close() runs: shutdown() raises
        lc.ssock.close()
        net._server_close(lc, hook=lc.handshaken)
    elif how == "error":
        # the client sends bytes that are not a Pyro message: the server fails the request and closes
        try:
            proxy._pyroConnection.sock.sendall(b"\x00garbage-not-pyro" * 4)
        except Exception:      # noqa
            pass
    proxy._pyroRelease()          # orderly: the client closes its socket, the server sees end-of-stream


FOREIGN = 900000      # added to the serial of an instance that belongs to another daemon


class DaemonCtx:
    """one daemon of the case with its loopback network, proxies and observations"""
    def __init__(self, d, world, orig_create_socket):
        self.d, self.world = d, world
        self.daemon = loopback.make_daemon()
        for i, cls in enumerate(world.classes):
            self.daemon.register(cls, "id%d" % i)          # initially class i is known by id i
        self.net = loopback.Loopback(self.daemon)
        self.net._orig = orig_create_socket
        self.proxies, self.sconns, self.lconns = {}, {}, {}
        self.obs = {"obs": [], "dropped": [], "errors": [], "results": [], "done": []}
        self.closed = False

    def served(self, r, c):
        """r = ["served", [daemon, serial]] -> ["served", serial, cls, truthy, eqnone]"""
        dd, n = (r[1] + [None, None])[:2] if isinstance(r[1], list) else (None, None)
        if not isinstance(n, int):
            return ["error", "BadResult:%r" % (r[1],)]
        b = self.world.bits.get((dd, n), (c, True, False))
        if dd != self.d:
            self.obs.setdefault("foreign", []).append([dd, n])
            n += FOREIGN
        return ["served", n] + list(b)

    def serial(self, a):
        n = serial_of(a)
        return n if getattr(a, "_daemon", self.d) == self.d else n + FOREIGN

    def snapshot(self, nconn):
        singles = []
        for cls in self.world.classes:
            a = dict.get(self.daemon._pyroInstances, cls)
            singles.append(None if a is None else self.serial(a))
        sess = []
        for k in range(nconn):
            row = []
            for cls in self.world.classes:
                a = self.sconns[k].pyroInstances.get(cls) if k in self.sconns else None
                row.append(None if a is None else self.serial(a))
            sess.append(row)
        return {"log": [[i, list(o)] for i, o in self.world.log.get(self.d, [])], "singles": singles, "sessions": sess}

    def finish(self):
        if self.closed:
            return
        self.closed = True
        for p in self.proxies.values():
            try:
                p._pyroRelease()
            except Exception:      # noqa
                pass
        for c in list(self.net.conns.values()):
            if not c.server_closed:
                self.net._server_close(c, hook=c.handshaken)
        self.daemon.close()


# ---------------------------------------------------------------- real-socket leg (thread-pool and multiplex servers)
_REAL = {"servers": {}, "cur": None, "n": 0}


def real_server(kind, hook):
    """a real daemon running its real request loop; its clientDisconnect hook returns or raises"""
    from tools.lib import rawdrv
    key = (kind, hook)
    if key not in _REAL["servers"]:
        srv = rawdrv.Server(kind, pool_size=8, pool_min=2).start()
        daemon = srv.daemon
        orig_get = daemon._getInstance

        def get_instance(clazz, conn):
            cur = _REAL["cur"]
            if cur is not None:
                try:
                    cur["conns"][conn.sock.getpeername()[1]] = conn
                except Exception:      # noqa
                    pass
            return orig_get(clazz, conn)

        def client_disconnect(conn):
            cur = _REAL["cur"]
            if cur is not None:
                cur["hooked"].append(conn)
            if hook == "raise":
                raise RuntimeError("clientDisconnect hook failed (e.g. audit backend unavailable)")
        daemon._getInstance = get_instance
        daemon.clientDisconnect = client_disconnect
        _REAL["servers"][key] = srv
    return _REAL["servers"][key]


def stop_real_servers():
    for srv in list(_REAL["servers"].values()):
        try:
            srv.stop()
        except Exception:      # noqa
            pass
    _REAL["servers"].clear()
    _REAL["cur"] = None


def wait_for(pred, timeout):
    import time
    t0 = time.time()
    while time.time() - t0 < timeout:
        if pred():
            return True
        time.sleep(0.003)
    return pred()


def run_real(case, tree="/repo"):
    """the history played by raw clients against a real running daemon (case["leg"] = {"server": "thread"|"multiplex",
    "hook": "ok"|"raise"}); same observation format as the loopback leg (one daemon, no concurrent phase)"""
    from tools.lib import rawdrv
    from Pyro5 import protocol
    leg = case["leg"]
    srv = real_server(leg["server"], leg["hook"])
    daemon = srv.daemon
    world = World(case)
    world.classes = [None] * len(case["classes"])
    for i, spec in enumerate(case["classes"]):
        world.classes[i] = make_class(world, i, spec)
    _REAL["n"] += 1
    pre = "r%d_" % _REAL["n"]
    cur = {"conns": {}, "hooked": []}
    _REAL["cur"] = cur
    obs = {"obs": [], "dropped": [], "errors": [], "results": [], "done": [], "foreign": []}
    clients, seqs = {}, {}
    nconn = 1 + max([ev[1] for ev in case["hist"] if ev[0] in ("call", "close")] + [-1])

    def reply_to_result(m, c, n0):
        if not isinstance(m, dict) or "value" not in m:
            return ["error", "NoReply:%r" % (m if not isinstance(m, dict) else m.get("value_error"),)]
        v = m["value"]
        if m["flags"] & protocol.FLAGS_EXCEPTION:
            def rs():
                raise v
            return call_result(rs, world, 0, c, n0)
        if isinstance(v, (list, tuple)) and len(v) == 2 and isinstance(v[1], int):
            return ["served", v[1]] + list(world.bits.get((0, v[1]), (c, True, False)))
        return ["error", "BadResult:%r" % (v,)]
    try:
        for i, cls in enumerate(world.classes):
            daemon.register(cls, pre + "id%d" % i)
        for ev in case["hist"]:
            if ev[0] == "call":
                k, c = ev[1], ev[2]
                if k not in clients:
                    cl, m = rawdrv.handshake(srv.port, "Pyro.Daemon")
                    if not isinstance(m, dict) or m.get("type") != protocol.MSG_CONNECTOK:
                        obs["errors"].append("handshake failed: %r" % (m,))
                    clients[k], seqs[k] = cl, 0
                seqs[k] += 1
                n0 = len(world.log.get(0, []))
                clients[k].send(rawdrv.invoke_msg(pre + "id%d" % (ev[3] if len(ev) > 3 else c), "ident", (), {}, seq=seqs[k]))
                obs["obs"].append(reply_to_result(clients[k].recv_msg(timeout=5.0), c, n0))
            elif ev[0] == "close":
                k = ev[1]
                if k in clients:
                    cl = clients.pop(k)
                    how = ending_of(ev)
                    conn = cur["conns"].get(cl.port)
                    held = [(0, serial_of(v)) for v in conn.pyroInstances.values()] if conn is not None else []
                    if how == "reset":
                        cl.reset()
                    elif how == "error":
                        cl.send(b"\x00garbage-not-pyro" * 4)
                        cl.expect_eof(2.0)
                        cl.close()
                    else:
                        cl.close()

                    if not wait_for(lambda: (conn in cur["hooked"]) if conn is not None else True, 3.0):
                        obs["errors"].append("the server did not notice the end of connection %d (%s)" % (k, how))

                    def dropped():
                        return conn is None or (len(conn.pyroInstances) == 0 and
                                                not [s for s in held if s in world.refs and world.refs[s]() is not None])
                    if not wait_for(dropped, 0.6):
                        srv.wait_quiet(timeout=1.0)   # let the pool / selector accounting settle before judging
                        gc.collect()
                        wait_for(dropped, 0.5)
                    left = len(conn.pyroInstances) if conn is not None else 0
                    alive = [s[1] for s in held if s in world.refs and world.refs[s]() is not None]
                    obs["dropped"].append({"conn": k, "how": how, "left": left, "alive": alive,
                                           "server": leg["server"], "hook": leg["hook"]})
                    cur["conns"].pop(cl.port, None)
                obs["obs"].append(["closed"])
            else:
                obs["errors"].append("event %r is not supported by the real-socket leg" % (ev[0],))
        singles = []
        for cls in world.classes:
            a = dict.get(daemon._pyroInstances, cls)
            singles.append(None if a is None else serial_of(a))
        sess = []
        for k in range(nconn):
            conn = cur["conns"].get(clients[k].port) if k in clients else None
            row = []
            for cls in world.classes:
                a = conn.pyroInstances.get(cls) if conn is not None else None
                row.append(None if a is None else serial_of(a))
            sess.append(row)
        snap = {"log": [[i, list(o)] for i, o in world.log.get(0, [])], "singles": singles, "sessions": sess}
        obs.update(snap)
        obs["final"] = dict(snap, results=[], done=[])
        obs["bypass"] = list(world.bypass)
        if not srv.loop_alive():
            obs["errors"].append("the daemon's request loop died: %r" % (srv.loop_exception,))
        return {"d": [obs], "cd": 0}
    finally:
        for cl in clients.values():
            cl.close()
        for i in range(len(world.classes)):
            try:
                daemon.unregister(pre + "id%d" % i)
            except Exception:      # noqa
                pass
        for cls in world.classes:
            dict.pop(daemon._pyroInstances, cls, None)
        _REAL["cur"] = None


def daemons_of(case):
    dm = case.get("dmn") or [0] * len(case["hist"])
    return dm, 1 + max(list(dm) + [case.get("conc_d", 0)])


def run_impl(case, tree="/repo"):
    """plays the case on the real code; returns {"d": [observation per daemon], "cd": conc daemon}"""
    if case.get("leg"):
        return run_real(case, tree)
    import Pyro5.client, Pyro5.errors, Pyro5.core
    import Pyro5.socketutil as su
    from Pyro5 import config
    config.MAX_RETRIES = 0
    config.SERVERTYPE = "multiplex"      # the request loop is never started; its close() does not wait for worker threads
    config.SERIALIZER = "serpent"
    world = World(case)
    world.classes = [None] * len(case["classes"])
    for i, spec in enumerate(case["classes"]):
        world.classes[i] = make_class(world, i, spec)
    dmn, nd = daemons_of(case)
    cd = case.get("conc_d", 0)
    sequential = bool(case.get("sequential_daemons"))
    nconn = [1 + max([ev[1] for ev, d in zip(case["hist"], dmn) if d == dd and ev[0] in ("call", "close")] + [-1]) for dd in range(nd)]
    orig = su.create_socket
    ctxs = {}
    snaps = {}
    restore = []

    def ctx_of(d):
        if d not in ctxs:
            for dd in range(d):   # daemons come into being in index order
                ctx_of(dd)
            if sequential:        # one daemon after the other: the earlier ones are shut down first
                for dd, cx in ctxs.items():
                    if not cx.closed:
                        snaps[dd] = cx.snapshot(nconn[dd])
                        cx.finish()
            ctxs[d] = DaemonCtx(d, world, orig)
        return ctxs[d]
    try:
        if not sequential:
            for d in range(nd):
                ctx_of(d)
        for ev, d in zip(case["hist"], dmn):
            cx = ctx_of(d)
            world.cur = d
            daemon, obs = cx.daemon, cx.obs
            if cx.closed:
                obs["errors"].append("event for a daemon that was already shut down")
                continue
            if ev[0] == "reg":
                _, c, i, force = ev
                obs["obs"].append(admin_result(lambda: daemon.register(world.classes[c], "id%d" % i, force=bool(force))))
            elif ev[0] == "unreg":
                obs["obs"].append(admin_result(lambda: daemon.unregister("id%d" % ev[1])))
            elif ev[0] == "call":
                k, c = ev[1], ev[2]
                oid = "id%d" % (ev[3] if len(ev) > 3 else c)
                if k not in cx.proxies:
                    cid = cx.net._next
                    p = Pyro5.client.Proxy(daemon.uriFor(Pyro5.core.DAEMON_NAME))   # calls name their target id themselves
                    su.create_socket = cx.net._create_socket
                    try:
                        p._pyroBind()
                    finally:
                        su.create_socket = orig
                    cx.proxies[k] = p
                    cx.sconns[k] = cx.net.conns[cid].sconn
                    cx.lconns[k] = cx.net.conns[cid]
                p = cx.proxies[k]
                r = call_result(lambda: p._pyroInvoke("ident", [], {}, objectId=oid), world, d, c)
                if r[0] == "served":
                    r = cx.served(r, c)
                obs["obs"].append(r)
            else:
                k = ev[1]
                if k in cx.proxies:
                    p, sc, lc = cx.proxies.pop(k), cx.sconns.pop(k), cx.lconns.pop(k)
                    how = ending_of(ev)
                    held = [(getattr(v, "_daemon", d), serial_of(v)) for v in sc.pyroInstances.values()]
                    end_connection(cx.net, lc, p, how)
                    if not lc.server_closed:
                        obs["errors"].append("connection %d did not end on the server side (%s)" % (k, how))
                    left = len(sc.pyroInstances)
                    alive = [s for s in held if s in world.refs and world.refs[s]() is not None]
                    if alive:
                        gc.collect()
                        alive = [s for s in held if s in world.refs and world.refs[s]() is not None]
                    obs["dropped"].append({"conn": k, "how": how, "left": left, "alive": [s[1] for s in alive]})
                obs["obs"].append(["closed"])
        # ---- concurrent phase on daemon cd
        results = [[] for _ in case["calls"]]
        ctl = None
        cx = ctx_of(cd)
        world.cur = cd
        daemon = cx.daemon
        if case["calls"] and not cx.closed:
            ctl = coop.Controller()
            instrument_daemon(daemon, ctl)
            restore.append(coop_threading(ctl))
            world.ctl = ctl
            line_tracer = make_line_tracer(daemon, ctl) if case.get("conc") == "line" else None

            def mk(i, cl):
                conn = types.SimpleNamespace(pyroInstances={})

                def body():
                    if line_tracer is not None:
                        sys.settrace(line_tracer)
                    try:
                        for c in cl:
                            r = call_result(lambda: (lambda a: [getattr(a, "_daemon", cd), serial_of(a)])(daemon._getInstance(world.classes[c], conn)),
                                            world, cd, c)
                            if r[0] == "served":
                                r = cx.served(r, c)
                            results[i].append([c, r])
                    finally:
                        sys.settrace(None)
                return body
            for i, cl in enumerate(case["calls"]):
                ctl.spawn(mk(i, cl))
            try:
                ctl.start()
                ctl.run(case["sched"])
            except coop.HarnessStuck as x:
                cx.obs["errors"].append("stuck: %s" % x)

        def conc_snapshot():
            return {"results": [list(map(list, r)) for r in results], "done": [w.done for w in ctl.workers] if ctl else []}
        out = []
        for d in range(nd):
            c2 = ctx_of(d)
            o = c2.obs
            o.update(snaps[d] if d in snaps else c2.snapshot(nconn[d]))
            if d == cd:
                o.update(conc_snapshot())
        if ctl is not None:
            try:
                ctl.abandon()
            except coop.HarnessStuck as x:
                cx.obs["errors"].append("stuck: %s" % x)
            world.ctl = None
            cx.obs["errors"] += [repr(w.error) for w in ctl.workers if w.error is not None]
        for d in range(nd):
            c2 = ctxs[d]
            o = c2.obs
            fin = dict(snaps[d]) if d in snaps else c2.snapshot(nconn[d])
            fin.update(conc_snapshot() if d == cd else {"results": [], "done": []})
            o["final"] = fin
            o["bypass"] = list(world.bypass) if d == 0 else []
            o.setdefault("foreign", [])
            out.append(o)
        return {"d": out, "cd": cd}
    finally:
        su.create_socket = orig
        for undo in restore:
            undo()
        for cx in ctxs.values():
            try:
                cx.finish()
            except Exception:      # noqa
                pass


# ---------------------------------------------------------------- the property, stated directly
def oracle_one(case, obs):
    bad = []
    specs = case["classes"]

    def add(sig, what):
        if sig not in [b[0] for b in bad]:
            bad.append((sig, what))

    def recreated_sig(prev, generic):
        # prev = serial of the instance that existed when another one was made
        cls, truthy, eqnone = None, True, False
        for ev in served_all:
            if ev[1] == prev:
                cls, truthy, eqnone = ev[2], ev[3], ev[4]
        if not truthy:
            return KNOWN_SIG
        if eqnone:
            return "eq-none-instance-recreated"
        return generic
    final = obs["final"]
    served_all = [o for o in obs["obs"] if o[0] == "served"] + [r for rs in final["results"] for _, r in rs if r[0] == "served"]
    for o in obs["obs"] + [r for rs in final["results"] for _, r in rs]:
        if o[0] == "error":
            add("unexpected-exception:" + o[1].split(":")[0], "a call failed with %s" % o[1])
    for e in obs["errors"]:
        add("thread-problem", "concurrent phase: " + e)
    # group the calls
    per_single, per_session, per_percall = {}, {}, {}
    epoch = {}
    calls = []       # (cls, result)
    for ev, o in zip(case["hist"], obs["obs"]):
        if ev[0] == "close":
            epoch[ev[1]] = epoch.get(ev[1], 0) + 1
            continue
        if ev[0] in ("reg", "unreg"):
            continue
        k, c = ev[1], ev[2]
        calls.append((c, o))
        if o[0] != "served":
            continue
        m = mode_of(specs[c])
        if m == "single":
            per_single.setdefault(c, []).append(o[1])
        elif m == "session":
            per_session.setdefault(c, []).append(((k, epoch.get(k, 0)), o[1]))
        else:
            per_percall.setdefault(c, []).append(o[1])
    for rs in final["results"]:
        for c, r in rs:
            calls.append((c, r))
            if r[0] == "served":
                per_single.setdefault(c, []).append(r[1])    # the concurrent phase calls single classes only
    def pairs(ids):
        u = sorted(set(ids))
        return list(zip(u, u[1:]))
    for c, ids in per_single.items():
        if mode_of(specs[c]) != "single":
            continue
        for prev, nxt in pairs(ids):
            add(recreated_sig(prev, "single-two-instances"),
                "single-mode class %d was served by different instances: %d existed when %d was made (all: %s)"
                % (c, prev, nxt, sorted(set(ids))))
    for c, lst in per_session.items():
        owner, bykey = {}, {}
        for key, s in lst:
            bykey.setdefault(key, []).append(s)
            if s in owner and owner[s] != key:
                add("session-shared", "session-mode class %d: instance %d served connections %s and %s" % (c, s, owner[s], key))
            owner.setdefault(s, key)
        for key, ids in bykey.items():
            for prev, nxt in pairs(ids):
                add(recreated_sig(prev, "session-two-instances"),
                    "session-mode class %d: connection %s saw instances %d and %d" % (c, key, prev, nxt))
    for d in obs["dropped"]:
        if d["left"] or d["alive"]:
            add("session-not-dropped", "after connection %d ended (%s%s) its session table still holds %d entries / instances %s are alive"
                % (d["conn"], d.get("how", "orderly"),
                   ", %s server, clientDisconnect hook: %s" % (d["server"], d["hook"]) if "server" in d else "", d["left"], d["alive"]))
    for c, ids in per_percall.items():
        if len(set(ids)) != len(ids):
            add("percall-reused", "percall-mode class %d: %d calls were served by %d instances" % (c, len(ids), len(set(ids))))
    # creator invocations: one per instance that served, one per failed call, right class, right object
    for c in range(len(specs)):
        made = [n for n, (i, o) in enumerate(final["log"]) if i == c and o[0] == "made"]
        failed = [n for n, (i, o) in enumerate(final["log"]) if i == c and o[0] != "made"]
        served = [r[1] for cc, r in calls if cc == c and r[0] == "served"]
        nfail = len([1 for cc, r in calls if cc == c and r[0] == "failed"])
        if set(made) != set(served):
            add("creator-count", "class %d: successful creator invocations %s but the instances that served calls are %s"
                % (c, made, sorted(set(served))))
        if len(failed) != nfail:
            add("creator-count", "class %d: %d failed creator invocations but %d failed calls" % (c, len(failed), nfail))
    for cc, r in calls:
        if r[0] == "served" and r[2] != cc:
            add("wrong-class", "a call on class %d was served by an instance of class %d" % (cc, r[2]))
    if obs["bypass"]:
        add("creator-bypassed", "classes %s have an instance_creator but were constructed directly" % sorted(set(obs["bypass"])))
    # what is stored is what served
    for c, s in enumerate(final["singles"]):
        if mode_of(specs[c]) == "single":
            ids = per_single.get(c, [])
            if len(set(ids)) == 1 and s != ids[0]:
                add("single-store", "single-mode class %d: stored instance %s is not the one that served (%s)" % (c, s, ids[0]))
        elif s is not None:
            add("single-store", "class %d is not single-mode but has an entry in Daemon._pyroInstances" % c)
    return bad


def proj_case(case, d):
    """the part of the case that concerns daemon d"""
    dmn, _ = daemons_of(case)
    c = dict(case)
    c["hist"] = [ev for ev, dd in zip(case["hist"], dmn) if dd == d]
    c["calls"] = case["calls"] if d == case.get("conc_d", 0) else []
    return c


def oracle(case, mobs):
    """the property per daemon (instances are per daemon: nothing may be shared between two daemons of one process)"""
    bad = []
    many = len(mobs["d"]) > 1
    for d, obs in enumerate(mobs["d"]):
        found = list(oracle_one(proj_case(case, d), obs))
        if obs.get("foreign"):
            found.insert(0, ("instance-shared-between-daemons",
                             "a call on daemon %d was served by instance(s) %s made for another daemon" % (d, obs["foreign"][:3])))
        for sig, what in found:
            if sig not in [b[0] for b in bad]:
                bad.append((sig, ("daemon %d: " % d if many else "") + what))
    return bad


# ---------------------------------------------------------------- Gallina encodings
def c_outcome(o):
    if o[0] == "made":
        return "OMade %s %s" % (cbool(o[1]), cbool(o[2]))
    return "OFail" if o[0] == "fail" else "OWrong"


def c_obs(o):
    if o[0] == "served":
        return "Served (mk_inst %s %s %s %s)" % (cnat(o[1]), cnat(o[2]), cbool(o[3]), cbool(o[4]))
    if o[0] == "failed":
        return "Failed %s" % cbool(o[1])
    if o[0] == "closed":
        return "Closed"
    if o[0] == "admin":
        return "Admin"
    return "Failed false"      # unexpected exception: reported by the oracle; the model will disagree as well


def c_event(e):
    if e[0] == "call":
        return "Call %s %s" % (cnat(e[1]), cnat(e[2]))
    if e[0] == "reg":
        return "Reg %s %s %s" % (cnat(e[1]), cnat(e[2]), cbool(e[3]))
    if e[0] == "unreg":
        return "Unreg %s" % cnat(e[1])
    return "Close %s %s" % (cnat(e[1]), {"orderly": "EOrderly", "reset": "EReset", "stale": "EStale", "error": "EError"}[ending_of(e)])


def c_optnat(x):
    return "None" if x is None else "Some %s" % cnat(x)


def c_case(case, mobs):
    specs = case["classes"]
    modes = {"single": "MSingle", "session": "MSession", "percall": "MPercall"}
    dmn, _ = daemons_of(case)
    per = mobs["d"]
    cd = mobs.get("cd", 0)
    return ("{| c_modes := %s; c_falsy := %s; c_eq := %s; c_creator := %s; c_script := %s; c_dflt := %s; "
            "c_hist := %s; c_cd := %s; c_ncls := %s; c_calls := %s; c_sched := %s; c_obs := %s; c_results := %s; c_done := %s; "
            "c_log := %s; c_singles := %s; c_sessions := %s |}") % (
        clist([modes[mode_of(s)] for s in specs]), clist([cbool(s["flavour"] != "plain") for s in specs]),
        clist([cbool(s["eq"]) for s in specs]), clist([cbool(s["creator"] != "none") for s in specs]),
        clist([c_outcome(o) for o in case["script"]]), c_outcome(case["dflt"]),
        clist(["(%s, %s)" % (cnat(d), c_event(e)) for e, d in zip(case["hist"], dmn)]), cnat(cd), cnat(len(specs)),
        clist([clist([cnat(c) for c in cl]) for cl in case["calls"]]),
        clist([cnat(t) for t in case["sched"]]),
        clist([clist([c_obs(o) for o in obs["obs"]]) for obs in per]),
        clist([clist(["(%s, %s)" % (cnat(c), c_obs(r)) for c, r in rs]) for rs in per[cd]["results"]]),
        clist([cbool(d) for d in per[cd]["done"]]),
        clist([clist(["(%s, %s)" % (cnat(i), c_outcome(o)) for i, o in obs["log"]]) for obs in per]),
        clist([clist([c_optnat(x) for x in obs["singles"]]) for obs in per]),
        clist([clist([clist([c_optnat(x) for x in row]) for row in obs["sessions"]]) for obs in per]))


# ---------------------------------------------------------------- generators
def gen_outcome(rng):
    k = rng.random()
    sub = rng.random() < 0.3            # creators may return an instance of a proper subclass
    if k < 0.36:
        return ["made", True, False, sub]
    if k < 0.62:
        return ["made", False, False, sub]
    if k < 0.72:
        return ["made", True, True, sub]
    if k < 0.80:
        return ["made", False, True, sub]
    if k < 0.91:
        return ["fail", rng.choice(["TypeError", "TypeError", "TypeError"] + sorted(FAIL_CLASSES))]
    return ["wrong"]


def gen_class(rng, mode=None):
    c = {"mode": mode or rng.choice(["single", "single", "session", "session", "percall", "default"]),
            "flavour": rng.choice(["plain", "len", "len", "bool", "bool"]),
            "eq": rng.random() < 0.4,
            "creator": rng.choice(("none",) + CREATORS)}
    if c["mode"] == "default":
        c["creator"] = "none"
    return c


def drain(nt, k=6):
    one = []
    for t in range(nt):
        one += [t] * k
    return one * nt


def gen_case(rng, conc=None):
    ncls = rng.randint(2, 4)
    classes = [gen_class(rng) for _ in range(ncls)]
    if not any(c["mode"] == "single" for c in classes):
        classes[rng.randrange(ncls)] = gen_class(rng, "single")
    script = [gen_outcome(rng) for _ in range(rng.randint(0, 10))]
    dflt = rng.choice([["made", True, False], ["made", False, False], ["made", False, True]])
    nconn = rng.randint(1, 3)
    hot = rng.randrange(ncls)
    hist, dmn = [], []
    nd = 2 if rng.random() < 0.3 else 1       # several daemons in the process serve the same classes
    sequential = nd > 1 and rng.random() < 0.4
    regs = [{i: i for i in range(ncls)} for _ in range(nd)]     # per daemon: object id -> class
    nids = ncls + 2
    admin = rng.random() < 0.5               # half of the histories register / unregister classes under several ids
    nev = rng.choice([0, 2, 4, 6, 9, 12])
    for j in range(nev):
        d = (0 if j < nev // 2 else 1) if sequential else rng.randrange(nd)
        reg = regs[d]
        r = rng.random()
        n0 = len(hist)
        if admin and (r < 0.22 or not reg):
            c, i = (hot if rng.random() < 0.6 else rng.randrange(ncls)), rng.randrange(nids)
            if r < 0.11 and reg and rng.random() < 0.7:
                i = rng.choice(sorted(reg))
                if rng.random() < 0.6 and hot in reg.values():
                    i = rng.choice(sorted(k for k, v in reg.items() if v == hot))
                hist.append(["unreg", i])
                del reg[i]
            else:
                free = c not in reg.values() and i not in reg
                hist.append(["reg", c, i, not free or rng.random() < 0.5])
                reg[i] = c
        elif r < 0.36:
            hist.append(["close", rng.randrange(nconn), rng.choice(ENDINGS)])
        elif reg:
            ids = sorted(reg)
            hotids = [i for i in ids if reg[i] == hot]
            i = rng.choice(hotids) if hotids and rng.random() < 0.5 else rng.choice(ids)
            hist.append(["call", rng.randrange(nconn), reg[i], i])
        if len(hist) > n0:
            dmn.append(d)
    calls, sched = [], []
    if conc if conc is not None else rng.random() < 0.6:
        singles = [i for i, c in enumerate(classes) if c["mode"] == "single"]
        nt = rng.choice([2, 2, 3])
        hs = rng.choice(singles)
        calls = [[hs if rng.random() < 0.75 else rng.choice(singles) for _ in range(rng.choice([1, 1, 2]))] for _ in range(nt)]
        sched = [rng.randrange(nt) for _ in range(rng.randint(0, 14))]
        if rng.random() < 0.7:
            sched += drain(nt)
    case = {"classes": classes, "script": script, "dflt": dflt, "hist": hist, "calls": calls, "sched": sched}
    if nd > 1:
        case.update({"dmn": dmn, "conc_d": nd - 1 if sequential else rng.randrange(nd), "sequential_daemons": sequential})
    return case


def line_family():
    """concurrent first calls with one scheduler step per source line of _getInstance: every placement of two
    preemption points for two threads, a few three-thread interleavings"""
    out = []
    T, F = True, False
    for spec, dflt, script in ((cls("single", "plain", F, "none"), ["made", T, F], []),
                               (cls("single", "len", T, "opt"), ["made", F, T, T], [["fail", "TypeError"]])):
        step = 1 if not script else 2
        for i in range(0, 16, step):
            for j in range(0, 22, step):
                out.append({"classes": [spec], "script": script, "dflt": dflt, "hist": [], "calls": [[0], [0]],
                            "sched": [0] * i + [1] * j + drain(2, 40), "conc": "line"})
    for i in range(0, 14, 2):
        for j in range(0, 14, 3):
            out.append({"classes": [cls("single", "plain", F, "func"), cls("single", "bool", F, "none")], "script": [], "dflt": ["made", T, F],
                        "hist": [["call", 0, 1]], "calls": [[0, 1], [0], [1, 0]],
                        "sched": [0] * i + [1] * j + [2, 1, 2, 0, 2, 1, 2, 2, 0] + drain(3, 60), "conc": "line"})
    return out


def gen_line_case(rng):
    case = gen_case(rng, conc=True)
    nt = len(case["calls"])
    case["sched"] = [rng.randrange(nt) for _ in range(rng.randint(0, 40))] + drain(nt, 60)
    case["conc"] = "line"
    return case


REAL_ENDINGS = ("orderly", "reset", "error")


def gen_real_case(rng, server=None, hook=None):
    """a history for the real-socket leg: running daemon (thread pool / multiplex), clientDisconnect hook returns or raises"""
    ncls = rng.randint(1, 2)
    classes = [gen_class(rng, rng.choice(["session", "session", "single", "percall", "default"])) for _ in range(ncls)]
    if not any(mode_of(c) == "session" for c in classes):
        classes[0] = gen_class(rng, "session")
    script = [gen_outcome(rng) for _ in range(rng.randint(0, 5))]
    hist = []
    nconn = rng.randint(1, 2)
    for _ in range(rng.randint(3, 8)):
        if rng.random() < 0.3 and any(e[0] == "call" for e in hist):
            hist.append(["close", rng.randrange(nconn), rng.choice(REAL_ENDINGS)])
        else:
            hist.append(["call", rng.randrange(nconn), rng.randrange(ncls)])
    hist.append(["close", 0, rng.choice(REAL_ENDINGS)])
    return {"classes": classes, "script": script, "dflt": ["made", rng.random() < 0.6, False, rng.random() < 0.3], "hist": hist,
            "calls": [], "sched": [], "leg": {"server": server or rng.choice(["thread", "multiplex"]), "hook": hook or rng.choice(["ok", "raise"])}}


def real_family():
    out = []
    for server in ("thread", "multiplex"):
        for hook in ("ok", "raise"):
            for how in REAL_ENDINGS:
                out.append({"classes": [cls("session", "len", False, "func"), cls("single", "plain", False, "none")], "script": [],
                            "dflt": ["made", False, False], "leg": {"server": server, "hook": hook}, "calls": [], "sched": [],
                            "hist": [["call", 0, 0], ["call", 0, 0], ["call", 1, 0], ["call", 0, 1], ["close", 0, how], ["call", 0, 0],
                                     ["call", 1, 0], ["close", 1, how], ["close", 0, "orderly"]]})
    return out


def cls(mode, flavour="plain", eq=False, creator="none"):
    return {"mode": mode, "flavour": flavour, "eq": eq, "creator": creator}


WITNESS_FALSY = {"classes": [cls("single", "len")], "script": [], "dflt": ["made", False, False],
                 "hist": [["call", 0, 0], ["call", 1, 0], ["call", 0, 0]], "calls": [], "sched": []}


def family_cases():
    out = [WITNESS_FALSY]
    T, F = True, False
    # every instance shape x mode x creator kind, sequentially: two connections, close, reopen
    hist = [["call", 0, 0], ["call", 0, 0], ["call", 1, 0], ["call", 0, 0], ["close", 0, "reset"], ["call", 0, 0], ["call", 1, 0],
            ["close", 1, "stale"], ["close", 0, "error"], ["call", 0, 0], ["call", 1, 0], ["close", 1, "orderly"], ["call", 1, 0]]
    for mode in ("single", "session", "percall", "default"):
        for flavour in ("plain", "len", "bool"):
            for eq in (F, T):
                for creator in (("none", "func", "obj") if mode != "default" else ("none",)):
                    for bits in ((T, F), (F, F), (T, T), (F, T)):
                        out.append({"classes": [cls(mode, flavour, eq, creator)], "script": [], "dflt": ["made", bits[0], bits[1]],
                                    "hist": hist, "calls": [], "sched": []})
    # two daemons in one process serving the same classes, side by side and one after the other
    for mode in ("single", "session", "percall", "default"):
        for creator in (("none", "func", "cmeth") if mode != "default" else ("none",)):
            for bits in ((T, F), (F, T)):
                two = [cls(mode, "len", T, creator), cls("single", "plain", F, "none")]
                h = [["call", 0, 0], ["call", 0, 0], ["call", 0, 1], ["call", 1, 0], ["call", 0, 0], ["call", 0, 1], ["close", 0, "orderly"], ["call", 0, 0]]
                out.append({"classes": two, "script": [], "dflt": ["made", bits[0], bits[1]], "hist": h, "dmn": [0, 1, 0, 1, 1, 1, 0, 0],
                            "calls": [[1], [1]], "sched": [0, 1, 0, 1] + drain(2), "conc_d": 1})
                out.append({"classes": two, "script": [], "dflt": ["made", bits[0], bits[1]], "hist": h, "dmn": [0, 0, 0, 0, 1, 1, 1, 1],
                            "calls": [[1], [1, 1]], "sched": [1, 0, 0, 1] + drain(2), "conc_d": 1, "sequential_daemons": True})
    # one class known by several ids, unregistered and registered again; calls addressed to each id
    adm = [["call", 0, 0, 0], ["reg", 0, 5, T], ["call", 1, 0, 5], ["call", 0, 0, 0], ["unreg", 0], ["call", 0, 0, 5], ["call", 1, 0, 5],
           ["unreg", 5], ["reg", 0, 0, F], ["call", 0, 0, 0], ["call", 1, 0, 0], ["reg", 0, 6, T], ["unreg", 0], ["call", 0, 0, 6],
           ["close", 0, "orderly"], ["call", 0, 0, 6]]
    for mode in ("single", "session", "percall", "default"):
        for creator in (CREATORS if mode != "default" else ("none",)):
            for bits in ((T, F, F), (F, T, F), (T, F, T)):
                out.append({"classes": [cls(mode, "len", T, creator), cls("single", "plain", F, "none")], "script": [],
                            "dflt": ["made", bits[0], bits[1], bits[2]], "hist": adm, "calls": [], "sched": []})
    # every creator signature shape x failure class: fail first then succeed / always fail; subclass instances
    seq = [["call", 0, 0], ["call", 0, 0], ["call", 1, 0], ["call", 0, 0], ["close", 0, "orderly"], ["call", 0, 0], ["call", 1, 0]]
    for mode in ("single", "session", "percall"):
        for creator in CREATORS:
            for exc in sorted(FAIL_CLASSES):
                out.append({"classes": [cls(mode, "bool", F, creator)], "script": [["fail", exc], ["made", T, F, T], ["fail", exc], ["fail", exc]],
                            "dflt": ["made", T, F, F], "hist": seq, "calls": [], "sched": []})
            out.append({"classes": [cls(mode, "plain", F, creator)], "script": [], "dflt": ["fail", "TypeError"], "hist": seq, "calls": [], "sched": []})
            out.append({"classes": [cls(mode, "len", T, creator)], "script": [["made", T, F, T], ["made", F, F, F], ["made", T, T, T]],
                        "dflt": ["made", T, F, T], "hist": seq, "calls": [], "sched": []})
    # failing creators: fail, fail again, succeed, then stable
    for mode in ("single", "session", "percall"):
        for creator in ("none", "func"):
            for first in (["fail"], ["wrong"]):
                out.append({"classes": [cls(mode, "len", T, creator)], "script": [first, ["fail"], ["made", F, T], first],
                            "dflt": ["made", T, F], "hist": [["call", 0, 0], ["call", 1, 0], ["call", 0, 0], ["call", 0, 0],
                                                              ["call", 1, 0], ["close", 0], ["call", 0, 0]],
                            "calls": [], "sched": []})
    # concurrent first calls: every placement of two preemption points, 2 and 3 threads, all shapes
    for bits in ((T, F), (F, F), (F, T)):
        for script in ([], [["fail"]], [["wrong"], ["fail"]]):
            for i in range(0, 7):
                for j in range(0, 7):
                    out.append({"classes": [cls("single", "bool", T, "func")], "script": script, "dflt": ["made", bits[0], bits[1]],
                                "hist": [], "calls": [[0], [0]], "sched": [0] * i + [1] * j + drain(2)})
            for i in range(0, 6):
                out.append({"classes": [cls("single", "len", F, "none"), cls("single", "plain", F, "obj")], "script": script,
                            "dflt": ["made", bits[0], bits[1]], "hist": [["call", 0, 1]],
                            "calls": [[0, 1], [0], [1, 0]], "sched": [0] * i + [1, 2, 1, 2, 1, 0, 2, 2] + drain(3, 12)})
    return out


def short(mobs):
    return {"cd": mobs.get("cd", 0),
            "d": [{k: obs.get(k) for k in ("obs", "results", "done", "log", "singles", "sessions", "errors", "dropped", "foreign")}
                  for obs in mobs["d"]]}


def execute(ctx, cases, model_ok, res):
    try:
        return _execute(ctx, cases, model_ok, res)
    finally:
        stop_real_servers()


def _execute(ctx, cases, model_ok, res):
    lits, kept = [], []
    for case in cases:
        obs = run_impl(case, ctx.tree)
        nontriv = len(case["hist"]) + sum(len(c) for c in case["calls"]) >= 2
        res.seen(case, nontriv)
        res.count("conc" if case["calls"] else "sequential")
        res.count("daemons_%d%s" % (len(obs["d"]), "_sequential" if case.get("sequential_daemons") else ""))
        if case.get("leg"):
            res.count("real:%s/hook-%s" % (case["leg"]["server"], case["leg"]["hook"]))
        if case["calls"]:
            res.count("threads_%d" % len(case["calls"]))
            res.count("sched_complete" if all(obs["d"][obs.get("cd", 0)]["done"]) else "sched_incomplete")
        for ev in case["hist"]:
            if ev[0] == "close":
                res.count("end:" + ending_of(ev))
            elif ev[0] in ("reg", "unreg"):
                res.count("admin:" + ev[0])
        for spec in case["classes"]:
            res.count("class:%s/%s%s/%s" % (mode_of(spec), spec["flavour"], "+eq" if spec["eq"] else "", spec["creator"]))
        for o in [o for od in obs["d"] for o in od["obs"] + [r for rs in od["final"]["results"] for _, r in rs]]:
            if o[0] == "served":
                res.count("served:%s%s" % ("truthy" if o[3] else "falsy", "+eqnone" if o[4] else ""))
            else:
                res.count("obs:" + o[0] + (":wrongtype" if o[0] == "failed" and o[1] else ""))
        for sig, what in oracle(case, obs):
            res.violations.append({"signature": sig, "what": what, "case": case})
        if case.get("conc") == "line":
            res.count("line_level_schedules")       # one step per source line of _getInstance: judged by the oracle only,
            continue                                # the model's atomic steps are the lock-protected primitives
        lits.append(c_case(case, obs))
        kept.append((case, obs))
    if model_ok:
        for idx in vlib.run_cases(ctx, "c", IMPORTS, "case", "check_case", lits, shard=150):
            case, obs = kept[idx]
            res.mismatches.append({"component": "C09", "case": case, "impl": short(obs)})
    return res


def all_cases(ctx):
    rng = ctx.rng
    cases = vlib.load_corpus(PROP) + family_cases() + real_family() + line_family()
    for _ in range(min(ctx.n(100, 1500), 1500)):
        cases.append(gen_line_case(rng))
    for _ in range(min(ctx.n(28, 300), 300)):
        cases.append(gen_real_case(rng))
    for _ in range(min(ctx.n(900, 6000), 6000)):      # search (scale 10) is capped: ~30 ms per case
        cases.append(gen_case(rng))
    return cases


def probe_quirk(ctx, res):
    obs = run_impl(WITNESS_FALSY, ctx.tree)
    res.quirks["q_falsy_instance_recreated"] = any(s == KNOWN_SIG for s, _ in oracle(WITNESS_FALSY, obs))


def run(ctx, model_ok=True):
    res = vlib.Result()
    probe_quirk(ctx, res)
    cases = all_cases(ctx)
    execute(ctx, cases, model_ok, res)
    res.rule = ("1-4 classes (mode single/session/percall/unspecified; instances plain, falsy-capable via __len__ or __bool__, "
                "optionally with __eq__/__hash__ that can equal None and make all instances equal; creator none / f(clazz) / f(clazz=None) / f(*a) / callable object / bound classmethod); "
                "creator script per invocation (truthy/falsy/eq-None instance, of the class itself or of a proper subclass; raise one of 8 exception classes incl. TypeError; wrong type); register/unregister events (a class under several ids, unregistered, registered again, calls addressed to each id); history of calls/closes on up to 3 "
                "connections through real proxies (loopback), then 2-3 threads calling _getInstance on single classes under a schedule "
                "(families: all shapes x modes x creators; failing creators; every placement of two preemption points; then seeded random). "
                "non-trivial = at least two calls; distinct = case hash")
    res.samples = [cases[len(cases) // 2], cases[-1]]
    res.extra["gen_info"] = {k: v for k, v in gen_info(ctx.tree).items() if k in ("single_test", "session_test", "single_locked", "lock_attr", "lock_kind", "close_clears", "error")}
    return res


def search(ctx, broken):
    res = vlib.Result()
    cases = [b["case"] for b in broken if b.get("case")] + all_cases(ctx)
    execute(ctx, cases, False, res)
    return res


def replay(ctx, case):
    try:
        obs = run_impl(case, ctx.tree)
    finally:
        stop_real_servers()
    bad = oracle(case, obs)
    if bad:
        return True, {"oracle": bad, "impl": short(obs)}
    res = vlib.Result()
    try:
        execute(ctx, [case], True, res)
    except vlib.CoqRunError as x:
        return True, {"model": "did not evaluate: " + str(x)[-500:]}
    if res.mismatches:
        model = vlib.eval_model(ctx, IMPORTS, "model_case (%s)" % c_case(case, obs))
        return True, {"mismatch": True, "impl": short(obs), "model": model[-2500:]}
    return False, {"impl": short(obs)}
