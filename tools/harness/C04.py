"""C04 — deserialisation builds only data and a fixed set of known classes (DESIGN 6/C04).

Payload trees (plain data with class-tagged dicts at any depth, hostile tags and members) are encoded with
each serializer library, decoded with the real Pyro5 loads / loadsCall while an audit hook records
import / exec / compile / open / socket / subprocess / os events, and compared with Model/ClassTag.v run on
the literal the library produces (the decision chain, hook table and name tables the model interprets are
regenerated from Pyro5/serializers.py by tools/gen/gen_classtag.py on every run)."""
import builtins, json, logging, marshal, sqlite3, struct, sys, types
from tools.lib import vlib
from tools.lib.vlib import cN, cbool, clist, ctext, cZ

PROP = "C04"
GEN = ["GenClassTag"]
ASSUMPTIONS = [
    "register_x/unregister_x are exercised through SerializerBase, Pyro5.api and the four concrete classes; registries are restored after every case by deleting subclass attributes and resetting the base dicts",
    "the four serializer libraries are deterministic: decoding the same bytes without Pyro5's hooks yields the literal Pyro5's recreate_classes is given",
    "msgpack applies object_hook to every map after its members and ext_hook to every ext value, in document order",
    "constructors, __setstate__ and setattr of the closed-set classes may reject their arguments (external; cases generated as hostile accept such a failure where the model says a construction was attempted)",
    "OSError's errno-to-subclass mapping is avoided by the generator (first arguments are never mapped errnos)",
    "audit events are observed through sys.addaudithook; sqlite3 is imported before the run, so the branch's own `import sqlite3` is silent",
]
IMPORTS = "From V Require Import Model.ClassTagDefs Model.ClassTag Harness.Cmp Harness.H04."
SER_IDS = {"serpent": 1, "marshal": 2, "json": 3, "msgpack": 4}
WATCH = ("import", "exec", "compile", "open", "socket", "subprocess", "os", "ctypes", "pickle", "code", "function", "shutil",
         "tempfile", "sqlite3", "urllib", "ftplib", "smtplib", "http", "webbrowser", "mmap", "glob", "pty", "fcntl", "signal", "syslog")
LIB_PHASE_OK = {"serpent": {"compile"}, "marshal": {"marshal.loads"}, "json": set(), "msgpack": set()}
RECREATE_FUNCS = {"dict_to_class", "make_exception", "recreate_classes", "object_hook", "ext_hook"}


# ---------------------------------------------------------------- audit recorder (installed once per process)
class Recorder:
    def __init__(self):
        self.armed = False
        self.busy = False
        self.events = []
        self.srcfile = None

    def hook(self, event, args):
        if not self.armed or self.busy:
            return
        self.busy = True
        try:
            head = event.split(".")[0]
            if head not in WATCH and event not in ("marshal.loads",):
                return
            # phase: is a re-creation function of the tree's serializers.py on the stack?
            phase = "lib"
            f = sys._getframe(1)
            while f is not None:
                if f.f_code.co_filename == self.srcfile and f.f_code.co_name in RECREATE_FUNCS:
                    phase = "recreate"
                    break
                f = f.f_back
            detail = ""
            if event == "import" and args:
                detail = str(args[0])
            elif event.startswith("socket.") and len(args) > 1:
                detail = repr(args[1])[:60]
            elif event == "open" and args:
                detail = repr(args[0])[:60]
            self.events.append((phase, event, detail))
        finally:
            self.busy = False


def recorder():
    r = getattr(sys, "_verif_c04_recorder", None)
    if r is None:
        r = Recorder()
        sys._verif_c04_recorder = r
        sys.addaudithook(r.hook)
    return r


# ---------------------------------------------------------------- implementation access
class Impl:
    def __init__(self):
        import Pyro5.serializers as sz, Pyro5.errors as errors, Pyro5.core as core, Pyro5.client as client, Pyro5.server as server
        import serpent, msgpack
        logging.getLogger("Pyro5").setLevel(logging.CRITICAL + 10)
        logging.getLogger("Pyro5.serializers").setLevel(logging.CRITICAL + 10)
        self.sz, self.errors, self.core, self.client, self.server = sz, errors, core, client, server
        self.serpent, self.msgpack = serpent, msgpack
        self.sers = dict(sz.serializers)
        self.rec = recorder()
        self.rec.srcfile = sz.__file__
        import Pyro5.api as api
        self.api = api
        self.ser_classes = {"serpent": sz.SerpentSerializer, "marshal": sz.MarshalSerializer, "json": sz.JsonSerializer, "msgpack": sz.MsgpackSerializer}
        self.pristine = {k: (getattr(sz.SerializerBase, a), dict(getattr(sz.SerializerBase, a))) for k, a in REG_ATTRS.items()}
        closed = {core.URI, client.Proxy, server.Daemon, core._ExceptionWrapper, struct.error,
                  sz.SerpentSerializer, sz.MarshalSerializer, sz.JsonSerializer, sz.MsgpackSerializer}
        self.builtin_exc = {k: v for k, v in vars(builtins).items() if isinstance(v, type) and issubclass(v, BaseException)}
        self.pyro_exc = {k: v for k, v in vars(errors).items() if isinstance(v, type) and issubclass(v, errors.PyroError)}
        self.sqlite_exc = {k: v for k, v in vars(sqlite3).items() if isinstance(v, type) and issubclass(v, BaseException)}
        closed |= set(self.builtin_exc.values()) | set(self.pyro_exc.values()) | set(self.sqlite_exc.values())
        self.closed = closed
        self.fixed_tags = {"Pyro5.core.URI", "Pyro5.client.Proxy", "Pyro5.server.Daemon", "Pyro5.core._ExceptionWrapper", "struct.error",
                           "Pyro5.util.SerpentSerializer", "Pyro5.util.MarshalSerializer", "Pyro5.util.JsonSerializer", "Pyro5.util.MsgpackSerializer"}
        # constructors that reject the generator's benign argument shapes
        self.picky = set()
        for table in (self.builtin_exc, self.pyro_exc, self.sqlite_exc):
            for k, c in table.items():
                for a in ((), ("m",), ("m", 5)):
                    try:
                        c(*a)
                    except Exception:
                        self.picky.add(k)
        self.picky |= {"BaseExceptionGroup", "ExceptionGroup"}
        # per serializer: tags its own dict_to_class override turns into plain data BEFORE the base class (and so the
        # registry) is consulted -- read from the tree by the extractor (serpent: "float", its NaN encoding)
        self.special_tags = {"serpent": {"float"}}
        try:
            import os
            from tools.gen import gen_classtag
            _, info = gen_classtag.gen_classtag(os.path.dirname(os.path.dirname(os.path.abspath(sz.__file__))))
            names = {v: k for k, v in SER_IDS.items()}
            self.special_tags = {}
            for sid, tag, _key in info["specials"]:
                self.special_tags.setdefault(names[sid], set()).add(tag)
        except Exception:
            pass

    def is_special(self, ser, tag):
        return isinstance(tag, str) and tag in self.special_tags.get(ser, ())

    def entry(self, ep):
        return self.api if ep == "api" else self.sz.SerializerBase if ep == "base" else self.ser_classes[ep]

    def apply_history(self, history, converter):
        """a call that raises (e.g. a bytes tag that does not decode) simply did not happen"""
        for op, ep, kind, tag in history:
            target = self.entry(ep)
            if kind == "d2c":
                try:
                    if op == "reg":
                        target.register_dict_to_class(spelled(tag), converter)
                    else:
                        target.unregister_dict_to_class(spelled(tag))
                except (UnicodeDecodeError, TypeError, KeyError):
                    pass
            else:
                clazz = KCLASSES[tag]
                if op == "reg":
                    target.register_class_to_dict(clazz, (lambda name: (lambda obj: {"__class__": "conv:" + name}))(tag), serpent_too=False)
                else:
                    target.unregister_class_to_dict(clazz)

    def restore_registries(self):
        """back to the registries as they were when Pyro5 was imported, whatever the tree did with them"""
        for kind, attr in REG_ATTRS.items():
            for c in self.ser_classes.values():
                if attr in c.__dict__:
                    delattr(c, attr)
            obj, content = self.pristine[kind]
            obj.clear()
            obj.update(content)
            setattr(self.sz.SerializerBase, attr, obj)

    def c2d_observation(self, sername):
        """for each harness class: does this serializer's class_to_dict use a registered converter"""
        out = []
        for name, clazz in sorted(KCLASSES.items()):
            try:
                d = self.ser_classes[sername].class_to_dict(clazz())
                out.append([name, isinstance(d, dict) and str(d.get("__class__", "")).startswith("conv:")])
            except Exception as x:
                out.append([name, "error:" + type(x).__name__])
        return out

    def acceptable_tag(self, tag, ser):
        """the property's closed set, as tag names (independent of the model)"""
        if tag in self.fixed_tags:
            return True
        if self.is_special(ser, tag):
            return True      # the serializer turns it into a float: plain data
        if tag in self.builtin_exc or tag in self.pyro_exc:
            return True
        ns, _, short = tag.partition(".")
        if ns in ("builtins", "exceptions") and short in self.builtin_exc:
            return True
        if ns == "sqlite3" and short in self.sqlite_exc:
            return True
        if tag.startswith("Pyro5.errors.") and tag[len("Pyro5.errors."):] in self.pyro_exc:
            return True
        return False


_IMPL = None


def impl():
    global _IMPL
    if _IMPL is None:
        _IMPL = Impl()
    return _IMPL


class K0(object):
    pass


class K1(object):
    pass


class K2(object):
    pass


KCLASSES = {"K0": K0, "K1": K1, "K2": K2}
ENTRY_POINTS = ("base", "api", "serpent", "marshal", "json", "msgpack")
REG_ATTRS = {"d2c": "_SerializerBase__custom_dict_to_class_registry", "c2d": "_SerializerBase__custom_class_to_dict_registry"}


def history_of(case):
    """register / unregister calls made before decoding: [op, entry point, registry, tag]; the legacy field
    "registry" means: registered through SerializerBase"""
    return [["reg", "base", "d2c", t] for t in case.get("registry", [])] + [list(x) for x in case.get("history", [])]


def spelled(tag):
    """the tag argument of a register / unregister call: text, or bytes written as {"b": [ints]}"""
    return bytes(tag["b"]) if isinstance(tag, dict) else tag


def denoted(tag):
    """the text tag a spelling stands for (bytes: its UTF-8 decoding, if any)"""
    v = spelled(tag)
    if isinstance(v, bytes):
        try:
            return v.decode("utf-8")
        except UnicodeDecodeError:
            return None
    return v


def spec_registered(history, kind):
    """the specification (registry as a map): an argument is registered iff the last call made with that very argument
    (str or bytes, through whichever entry point) was a register; returns the text tags such live arguments stand for --
    only for these may decoding ever run a converter"""
    cur = {}
    for op, ep, k, tag in history:
        if k == kind:
            cur[repr(spelled(tag))] = (op == "reg", tag)
    return {denoted(tag) for live, tag in cur.values() if live} - {None}


def spec_must_convert(history):
    """text tags registered as text, last call a register, and never named through a bytes spelling (no aliasing):
    for these the converter has to be used"""
    cur, aliased = {}, set()
    for op, ep, k, tag in history:
        if k == "d2c":
            if isinstance(tag, dict):
                aliased.add(denoted(tag))
            else:
                cur[tag] = (op == "reg")
    return {t for t, v in cur.items() if v and t not in aliased}


class CustomObj:
    """what the harness's registered converter returns"""
    def __init__(self, tag):
        self.tag = tag


# ---------------------------------------------------------------- payload trees  (JSON-able description <-> python value)
def build(t, I, memo=None):
    """["share", id, subtree] builds the subtree once; ["ref", id] (and later "share"s of the same id) are that very object"""
    memo = {} if memo is None else memo
    k = t[0]
    if k == "share":
        if t[1] not in memo:
            memo[t[1]] = build(t[2], I, memo)
        return memo[t[1]]
    if k == "ref":
        return memo[t[1]]
    if k == "n":
        return None
    if k == "B":
        return bool(t[1])
    if k == "i":
        return int(t[1])
    if k == "f":
        return float(t[1])
    if k == "s":
        return t[1]
    if k == "b":
        return bytes(t[1])
    if k == "c":
        return complex(t[1], t[2])
    if k == "E":
        return I.msgpack.ExtType(t[1], bytes(t[2]))
    if k == "L":
        return [build(x, I, memo) for x in t[1]]
    if k == "T":
        return tuple(build(x, I, memo) for x in t[1])
    if k == "S":
        return set(build(x, I, memo) for x in t[1])
    if k == "D":
        return {build(kk, I, memo): build(v, I, memo) for kk, v in t[1]}
    raise ValueError(k)


def project(v, ser, I, memo=None):
    """what the serializer's own dumps would make of the value's container types (json/msgpack have no tuple, set, ...);
    an object that occurs twice stays one object (marshal transmits such sharing)"""
    memo = {} if memo is None else memo
    if isinstance(v, (list, dict)) and not isinstance(v, I.msgpack.ExtType):
        if id(v) in memo:
            return memo[id(v)][1]
        out = _project(v, ser, I, memo)
        memo[id(v)] = (v, out)
        return out
    return _project(v, ser, I, memo)


def _project(v, ser, I, memo):
    if isinstance(v, I.msgpack.ExtType):
        return v if ser == "msgpack" else [v.code, bytes(v.data)]
    if isinstance(v, dict):
        out = {}
        for k, x in v.items():
            if ser == "json" and not isinstance(k, str):
                k = repr(k)
            if ser == "msgpack" and not isinstance(k, (str, bytes)):
                k = repr(k)
            if ser == "serpent" and isinstance(k, bytes):
                k = repr(k)
            out[k] = project(x, ser, I, memo)
        return out
    if isinstance(v, (list, tuple, set, frozenset)):
        items = [project(x, ser, I, memo) for x in v]
        if ser in ("json", "msgpack"):
            return items
        if isinstance(v, (set, frozenset)):
            try:
                return set(items)
            except TypeError:
                return items
        return type(v)(items)
    if isinstance(v, bytes) and ser == "json":
        return v.decode("latin-1")
    if isinstance(v, complex) and ser in ("json", "msgpack"):
        return [v.real, v.imag]
    if isinstance(v, float) and ser == "json" and v != v:
        return v
    return v


def encode(ser, v, I):
    if ser == "serpent":
        from Pyro5 import config
        return I.serpent.dumps(v, module_in_classname=True, bytes_repr=config.SERPENT_BYTES_REPR)
    if ser == "marshal":
        return marshal.dumps(v)
    if ser == "json":
        return json.dumps(v, ensure_ascii=False).encode("utf-8")
    return I.msgpack.packb(v, use_bin_type=True)


def raw_decode(ser, data, I):
    if ser == "serpent":
        return I.serpent.loads(data)
    if ser == "marshal":
        return marshal.loads(data)
    if ser == "json":
        return json.loads(data.decode("utf-8"))
    return I.msgpack.unpackb(data, raw=False)


def message(case, I):
    """python value that is encoded: the tree itself (loads) or a call with the tree in one slot (loadsCall)"""
    v = project(build(case["tree"], I), case["ser"], I)
    if case["path"] == "loads":
        return v
    slot = case.get("slot", "vargs")
    obj, method, vargs, kwargs = "obj", "meth", [], {}
    if slot == "vargs":
        vargs = [v, 5]
    elif slot == "kwargs":
        kwargs = {"k": v}
    elif slot == "object":
        obj = v
    else:
        method = v
    if case["ser"] == "json":
        return {"object": obj, "method": method, "params": vargs, "kwargs": kwargs}
    if case["ser"] in ("serpent", "marshal"):
        return (obj, method, tuple(vargs), kwargs)
    return [obj, method, vargs, kwargs]


def parts_of(case, lit):
    if case["path"] == "loads":
        return [lit]
    if case["ser"] == "json":
        return [lit["object"], lit["method"], lit["params"], lit["kwargs"]]
    return list(lit)


# ---------------------------------------------------------------- running the implementation
PLAIN = (type(None), bool, int, float, str, bytes, bytearray, complex)


def census_of(v, I, acc, unknown, seen, depth=0):
    import datetime, decimal, uuid
    t = type(v)
    if t in PLAIN or t in (datetime.datetime, datetime.date, datetime.time, decimal.Decimal, uuid.UUID):
        return
    if id(v) in seen or depth > 60:
        return
    seen.add(id(v))
    if t in (list, tuple, set, frozenset):
        for x in v:
            census_of(x, I, acc, unknown, seen, depth + 1)
        return
    if t is dict:
        for k, x in v.items():
            census_of(k, I, acc, unknown, seen, depth + 1)
            census_of(x, I, acc, unknown, seen, depth + 1)
        return
    if t is I.msgpack.ExtType:
        return
    if t is CustomObj:
        acc.add("custom:" + v.tag)
        return
    if isinstance(v, (type, types.FunctionType, types.BuiltinFunctionType, types.ModuleType, types.CodeType, types.MethodType)):
        unknown.add("non-data:" + t.__name__ + ":" + getattr(v, "__name__", "?"))
        return
    name = t.__module__ + "." + t.__qualname__
    acc.add(name)
    if t not in I.closed:
        unknown.add(name)
    children = []
    try:
        d = object.__getattribute__(v, "__dict__")
        if isinstance(d, dict):
            children.extend(d.values())
    except AttributeError:
        pass
    for slot in getattr(t, "__slots__", ()) or ():
        try:
            children.append(object.__getattribute__(v, slot))
        except AttributeError:
            pass
    if isinstance(v, BaseException):
        children.append(v.args)
        for a in ("filename", "filename2", "name", "path", "obj", "value", "code", "msg", "text", "object", "reason",
                  "__cause__", "__context__", "exceptions", "__notes__"):
            try:
                children.append(object.__getattribute__(v, a))
            except Exception:
                pass
    for c in children:
        census_of(c, I, acc, unknown, seen, depth + 1)


ERRMAP = {"SecurityError": "ESecurity", "SerializeError": "ESerialize", "KeyError": "EKeyError", "AttributeError": "EAttributeError",
          "TypeError": "ETypeError", "ValueError": "EValueError", "IndexError": "EIndexError", "UnicodeDecodeError": "EUnicodeDecode",
          "CommunicationError": "ERemote"}


def run_impl(case):
    I = impl()
    ser = I.sers[case["ser"]]
    obs = {"kind": None, "census": [], "unknown": [], "exc": None, "ext": False, "convs": [], "audit": [], "skip": None}
    try:
        data = encode(case["ser"], message(case, I), I)
        lit = raw_decode(case["ser"], data, I)
        obs["parts"] = parts_of(case, lit)
    except Exception as x:
        obs["skip"] = "unencodable: %s" % type(x).__name__
        return obs
    convs = obs["convs"]

    def converter(classname, d):
        convs.append(classname)
        return CustomObj(classname)
    history = history_of(case)
    obs["c2d"] = []
    try:
        I.apply_history(history, converter)
        if any(h[2] == "c2d" for h in history):
            obs["c2d"] = I.c2d_observation(case["ser"])
    except Exception as x:
        I.restore_registries()
        obs["skip"] = "history failed: %s" % type(x).__name__
        return obs
    rec = I.rec
    rec.events = []
    result = None
    rec.armed = True
    try:
        try:
            result = ser.loads(data) if case["path"] == "loads" else ser.loadsCall(data)
            obs["kind"] = "ok"
        except BaseException as x:      # noqa
            rec.armed = False
            obs["kind"] = "err"
            obs["exc"] = type(x).__name__
            if type(x).__name__ == "SecurityError" and type(x) is not I.errors.SecurityError:
                obs["exc"] = "other:" + type(x).__module__
            tb = x.__traceback__
            while tb is not None:
                if tb.tb_frame.f_code.co_name in ("make_exception", "__setstate__"):
                    obs["ext"] = True
                tb = tb.tb_next
            del x
    finally:
        rec.armed = False
        I.restore_registries()
    obs["audit"] = [list(e) for e in rec.events]
    if obs["kind"] == "ok":
        acc, unknown = set(), set()
        census_of(result, I, acc, unknown, set())
        obs["census"] = sorted(acc)
        obs["unknown"] = sorted(unknown)
    result = None
    return obs


# ---------------------------------------------------------------- oracle: the property over the observation
def live_tags(v, out, reg=()):
    """class tags of the tagged dicts reachable in a decoded literal through lists/tuples/sets/dict values without crossing a tagged dict"""
    if isinstance(v, (list, tuple, set, frozenset)):
        for x in v:
            live_tags(x, out, reg)
    elif isinstance(v, dict):
        if "__class__" in v:
            out.append(v["__class__"])
            # the exception wrapper hands its "exception" member to dict_to_class as well: that tag is decided too
            # (unless a converter registered for the wrapper's own tag takes the whole dict)
            if v["__class__"] == "Pyro5.core._ExceptionWrapper" and v["__class__"] not in reg and isinstance(v.get("exception"), dict):
                live_tags(v["exception"], out, reg)
        else:
            for x in v.values():
                live_tags(x, out, reg)


def count_tagged(v):
    """number of tagged dicts anywhere in a literal (also inside members of tagged dicts)"""
    if isinstance(v, (list, tuple, set, frozenset)):
        return sum(count_tagged(x) for x in v)
    if isinstance(v, dict):
        return ("__class__" in v) + sum(count_tagged(x) for x in v.values())
    return 0


def tag_text(tg):
    if isinstance(tg, str):
        return tg
    if isinstance(tg, bytes):
        try:
            return tg.decode("utf-8")
        except UnicodeDecodeError:
            return None
    return None


def tree_tag_text(tg):
    return tag_text(tg[1] if tg[0] == "s" else bytes(tg[1]) if tg[0] == "b" else None)


def oracle(case, obs):
    I = impl()
    bad = []
    history = history_of(case)
    reg = spec_registered(history, "d2c")
    must = spec_must_convert(history)
    for name, used in obs.get("c2d", []):
        want = name in spec_registered(history, "c2d")
        if used != want:
            bad.append(("class-converter-registration-ignored", "after the register/unregister history %r, %s.class_to_dict %s the converter for %s although it is %s" % (
                history, case["ser"], "uses" if used is True else "does not use (%s)" % used, name, "registered" if want else "not registered any more")))
    recreated_slot = case["path"] == "loads" or case.get("slot", "vargs") in ("vargs", "kwargs")
    for phase, event, detail in obs["audit"]:
        head = event.split(".")[0]
        if phase == "recreate":
            if event == "import" and detail.split(".")[0] in ("sqlite3", "_sqlite3"):
                continue
            sig = "socket-opened-while-decoding" if head == "socket" else "audit:" + head
            bad.append((sig, "decoding raised the audit event %s %s inside the class re-creation code (serializer %s, %s)" % (event, detail, case["ser"], case["path"])))
        elif event not in LIB_PHASE_OK[case["ser"]] and head not in LIB_PHASE_OK[case["ser"]]:
            bad.append(("audit-lib:" + head, "the %s decoder raised the audit event %s %s" % (case["ser"], event, detail)))
    for c in obs["convs"]:
        if c not in reg:
            bad.append(("converter-without-registration", "the converter ran for tag %r with serializer %s although that tag is not registered (any more) after the history %r" % (c, case["ser"], history)))
    if obs["kind"] == "ok":
        for name in obs["unknown"]:
            if name.startswith("non-data:"):
                bad.append(("non-data-value", "the decoded value contains %s" % name))
            else:
                bad.append(("foreign-class-instance", "the decoded value contains an instance of %s, which is outside the closed set" % name))
        for name in obs["census"]:
            if name.startswith("custom:") and name[7:] not in reg:
                bad.append(("foreign-class-instance", "converter result for unregistered tag"))
    if recreated_slot:
        tags = []
        for part in (obs["parts"] if case["path"] == "loads" else obs["parts"][2:4]):
            live_tags(part, tags, reg)
        texts = [tag_text(t) for t in tags]
        if obs["kind"] == "ok":
            for tg, tx in zip(tags, texts):
                if tx is None:
                    bad.append(("non-string-tag-accepted", "a class tag that is not text was accepted: %r" % (tg,)))
                elif tx in reg:
                    continue
                elif "__" in tx:
                    bad.append(("dunder-tag-accepted", "the tag %r contains a double underscore and was not rejected" % tx))
                elif not I.acceptable_tag(tx, case["ser"]):
                    bad.append(("unknown-tag-accepted", "the tag %r names no class of the closed set and was not rejected" % tx))
        if len(tags) == 1 and sum(count_tagged(p) for p in obs["parts"]) == 1 and texts[0] is not None and texts[0] in must and obs["convs"] != [texts[0]] \
                and not I.is_special(case["ser"], tags[0]):      # a serializer's own special tag never reaches the registry
            bad.append(("registered-converter-not-used", "the tag %r is registered (history %r) but serializer %s did not hand it to the converter (%s)" % (
                texts[0], history, case["ser"], obs["exc"] or "decoded otherwise")))
        elif len(tags) == 1 and sum(count_tagged(p) for p in obs["parts"]) == 1 and texts[0] is not None and "__" in texts[0] and texts[0] not in reg and obs["exc"] != "SecurityError" \
                and not I.is_special(case["ser"], tags[0]):
            bad.append(("dunder-tag-not-refused", "the tag %r contains a double underscore but was not refused as such (raised %s instead of SecurityError)" % (texts[0], obs["exc"])))
    return bad


# ---------------------------------------------------------------- Gallina printers
def c_val(v, I):
    t = type(v)
    if v is None:
        return "VNone"
    if t is bool:
        return "(VBool %s)" % cbool(v)
    if t is int:
        return "(VInt %s)" % cZ(v)
    if t is float:
        return "(VFloat %s)" % cbool(bool(v))
    if t is str:
        return "(VStr %s)" % ctext(v)
    if t is bytes:
        return "(VBytes %s)" % vlib.cbytes(v)
    if t is I.msgpack.ExtType:
        return "(VExt %s %s)" % (cN(v.code), vlib.cbytes(v.data))
    if t is list:
        return "(VList %s)" % clist([c_val(x, I) for x in v])
    if t is tuple:
        return "(VTuple %s)" % clist([c_val(x, I) for x in v])
    if t is set:
        return "(VSet %s)" % clist([c_val(x, I) for x in v])
    if t is frozenset:
        return "(VFrozen %s)" % clist([c_val(x, I) for x in v])
    if t is dict:
        return "(VDict %s %s)" % (clist([c_val(k, I) for k in v.keys()]), clist([c_val(x, I) for x in v.values()]))
    return "(VOther %s)" % cbool(bool(v))


def c_obs(obs):
    if obs["kind"] == "ok":
        return "(IOk %s)" % clist([ctext(n) for n in obs["census"]])
    e = ERRMAP.get(obs["exc"])
    if e is None:
        return "(IErrOther %s)" % cbool(obs["ext"])
    return "(IErr %s %s)" % (e, cbool(obs["ext"]))


def c_op(h):
    op, ep, kind, tag = h
    v = spelled(tag)
    return "{| op_add := %s; op_ep := %s; op_kind := %s; op_bytes := %s; op_tag := %s |}" % (
        cbool(op == "reg"), "EpBase" if ep in ("base", "api") else "(EpSer %s)" % cN(SER_IDS[ep]), "KD2C" if kind == "d2c" else "KC2D",
        cbool(isinstance(v, bytes)), vlib.cbytes(v) if isinstance(v, bytes) else ctext(v))


def c_case(case, obs):
    I = impl()
    c2d = [(n, u) for n, u in obs.get("c2d", []) if isinstance(u, bool)]
    return "{| c_ser := %s; c_call := %s; c_hist := %s; c_c2d := %s; c_parts := %s; c_hostile := %s; c_obs := %s; c_convs := %s |}" % (
        cN(SER_IDS[case["ser"]]), cbool(case["path"] != "loads"), clist([c_op(h) for h in history_of(case)]),
        clist(["(%s, %s)" % (ctext(n), cbool(u)) for n, u in c2d]),
        clist([c_val(p, I) for p in obs["parts"]]), cbool(bool(case.get("hostile"))), c_obs(obs), clist([ctext(t) for t in obs["convs"]]))


# ---------------------------------------------------------------- generator
def S(x):
    return ["s", x]


def D(items):
    return ["D", [[S(k) if isinstance(k, str) else k, v] for k, v in items]]


def L(items):
    return ["L", list(items)]


URI_STATE = L([S("PYRO"), S("obj"), ["n"], S("host"), ["i", 55]])
PROXY_STATE = L([S("PYRO:obj@127.0.0.1:9"), L([]), L([S("m")]), L([]), S("hello"), ["n"]])
SAFE_INTS = [0, 5, 7, 42, -1, 2 ** 70, 1000]


class Gen:
    def __init__(self, rng, I):
        self.rng, self.I = rng, I
        self.tags = self.tag_pool()

    def tag_pool(self):
        I = self.I
        import os, subprocess
        pool = {"fixed": sorted(I.fixed_tags), "short_exc": sorted(set(I.builtin_exc) | set(I.pyro_exc))}
        dotted = []
        spaces = {"builtins": builtins, "exceptions": builtins, "os": os, "subprocess": subprocess, "sqlite3": sqlite3, "struct": struct,
                  "Pyro5.core": I.core, "Pyro5.client": I.client, "Pyro5.server": I.server, "Pyro5.errors": I.errors, "Pyro5.serializers": I.sz,
                  "Pyro5.util": I.sz, "sys": sys, "Pyro5.nameserver": I.core, "Pyro5.errors.PyroError": I.errors.PyroError}
        for ns, mod in spaces.items():
            for a in sorted(dir(mod)):
                dotted.append(ns + "." + a)
        pool["dotted"] = dotted
        pool["dunder"] = [t for t in dotted if "__" in t] + ["__main__.Foo", "a__b", "__", "____", "Pyro5.core.URI__", "__Pyro5.core.URI", "Pyro5.core.__URI",
                                                             "builtins.__import__", "Pyro5.errors.__builtins__", "ValueError__", "_ _", "x.__class__.__init__"]
        # names of the closed set under spellings that contain a double underscore (legacy / foreign namespace names,
        # decorated namespaces and class names): all of them must be refused
        deco = []
        shorts = ["ValueError", "OSError", "SystemExit", "KeyError", "PyroError", "Error", "URI", "error"]
        for ns in ("__builtin__", "__builtins__", "__exceptions__", "__main__", "__sqlite3__", "__struct__", "__pyro5__", "builtins__", "__builtins",
                   "exceptions__", "Pyro5.__errors__", "Pyro5.errors__", "__Pyro5__.errors", "__future__", "__builtin__.builtins", "builtins.__builtin__"):
            for sh in shorts:
                deco.append(ns + "." + sh)
        for tagx in sorted(I.fixed_tags) + ["ValueError", "builtins.ValueError", "exceptions.OSError", "sqlite3.Error", "Pyro5.errors.NamingError"]:
            deco += ["__" + tagx, tagx + "__", tagx.replace(".", ".__", 1), tagx.replace(".", "__.", 1), tagx.replace(".", "__", 1)]
        pool["decorated"] = sorted(set(t for t in deco if "__" in t))
        # bare names of every exception class the interpreter knows that is NOT in the closed set (stdlib, third-party, Pyro-internal)
        foreign, todo, seen = set(), [BaseException], set()
        while todo:
            c = todo.pop()
            if c in seen:
                continue
            seen.add(c)
            try:
                todo.extend(c.__subclasses__())
            except TypeError:
                pass
            if c not in I.closed and c.__name__ not in I.builtin_exc and c.__name__ not in I.pyro_exc:
                foreign.add(c.__name__)
        pool["foreign_short"] = sorted(foreign)
        pool["local"] = ["tests.test_serialize.Custom", "__main__.C", "testsupport.X", "test_serialize.SerializeTests", "mypackage.mymodule.MyClass",
                         "float", "int", "open", "eval", "os.system", "subprocess.Popen", "Pyro5.core.Daemon", "Pyro5.core.URI.x", "pyro5.core.uri",
                         "Pyro5.util.", "Pyro5.util.Serializer", "Pyro5.util.SerpentSerializer.x", "Pyro5.errors.", "Pyro5.errors", "Pyro5.errors.PyroError.x",
                         "Pyro5.errors..PyroError", "sqlite3.Error", "sqlite3.dbapi2.Error", "sqlite3.NotAnError", "sqlite3.connect", "sqlite3.XError",
                         "sqlite3.", "sqlite3", "builtins.", ".ValueError", "exceptions.KeyError", "exceptions.", "builtins.ValueError.x", "Pyro5.core.URI\u0000",
                         "<unknown>", "", ".", "..", "struct.error.x", "struct.Struct", "Struct.error", "Pyro5.errors.format_traceback", "Pyro5.errors.config",
                         "Pyro5.errors.sys", "Pyro5.core._ExceptionWrapper.x", "Pyro5.client._RemoteMethod", "Pyro5.server.DaemonObject", "héllo.Wörld", "\U0001f600.x",
                         "builtins.int", "builtins.object", "builtins.type", "builtins.BaseException", "builtins.open", "builtins.eval", "builtins.exit", "exceptions.IOError"]
        return pool

    def pick_tag(self):
        r = self.rng.random()
        p = self.tags
        if r < 0.22:
            return S(self.rng.choice(p["fixed"]))
        if r < 0.36:
            return S(self.rng.choice(p["short_exc"]))
        if r < 0.50:
            ns = self.rng.choice(["builtins", "exceptions", "Pyro5.errors", "sqlite3"])
            names = {"builtins": list(self.I.builtin_exc), "exceptions": list(self.I.builtin_exc), "Pyro5.errors": list(self.I.pyro_exc), "sqlite3": list(self.I.sqlite_exc)}[ns]
            return S(ns + "." + self.rng.choice(sorted(names)))
        if r < 0.68:
            return S(self.rng.choice(p["dotted"]))
        if r < 0.73:
            return S(self.rng.choice(p["dunder"]))
        if r < 0.76:
            return S(self.rng.choice(p["decorated"]))
        if r < 0.78 and p["foreign_short"]:
            return S(self.rng.choice(p["foreign_short"]))
        if r < 0.90:
            return S(self.rng.choice(p["local"]))
        if r < 0.95:   # bytes tags (marshal / msgpack keep them as bytes)
            base = self.rng.choice(p["fixed"] + p["dunder"][:40] + p["short_exc"][:10] + p["local"])
            b = list(base.encode("utf-8"))
            if self.rng.random() < 0.25:
                b = b + self.rng.choice([[0xff], [0xc3], [0xe2, 0x82], [0xed, 0xa0, 0x80], [0xc0, 0xaf], [0xf4, 0x90, 0x80, 0x80]])
            return ["b", b]
        return self.rng.choice([["n"], ["i", 5], ["f", 1.5], ["B", True], L([S("__")]), L([S("a")]), D([("a", ["i", 1])]), ["T", [S("__")]], ["T", [S("a"), ["i", 1]]],
                                ["T", [L([])]], ["T", []], L([])])

    def scalar(self):
        r = self.rng
        return r.choice([["n"], ["B", True], ["B", False], ["i", r.choice(SAFE_INTS)], ["f", r.choice([0.0, 1.5, -2.25, float("inf")])], S(r.choice(["", "m", "msg", "__class__", "x y"])),
                         ["b", [1, 2, 255]], S("text €")])

    def flag(self):
        r = self.rng.random()
        if r < 0.5:
            return ["B", True]
        if r < 0.6:
            return None
        return self.rng.choice([["B", False], ["i", 1], ["i", 0], S(""), S("x"), L([]), L([["i", 0]]), ["n"], ["f", 0.0], ["f", float("nan")], D([]), D([("a", ["n"])])])

    def tagged(self, depth, hostile):
        """a class-tagged dict; returns (tree, hostile_members_used)"""
        r = self.rng
        tag = self.pick_tag()
        items = [("__class__", tag)]
        used = False
        fl = self.flag()
        if fl is not None:
            items.append(("__exception__", fl))
        tx = tree_tag_text(tag) or ""
        # members
        if r.random() < 0.9:
            if hostile and r.random() < 0.5:
                used = True
                args = r.choice([["n"], ["i", 5], S("abc"), D([("a", ["i", 1])]), L([S("first")] + [self.scalar() for _ in range(r.randint(2, 6))]), ["b", [65, 66]],
                                 L([S("m"), L([S("f"), ["i", 1], ["i", 2], S("t")])]), ["f", 1.0], ["B", True], L([["i", 5], S("I/O error")])] +
                                ([self.tagged(depth + 1, hostile)[0]] if depth < 3 else []))
            else:
                args = L([[S("m")], [S("m"), ["i", r.choice(SAFE_INTS)]], []][r.randrange(3)])
            items.append(("args", args))
        if r.random() < 0.5:
            if hostile and r.random() < 0.5:
                used = True
                attrs = r.choice([["n"], L([]), S("x"), ["i", 1], D([("__class__", ["i", 5])]), D([("args", ["i", 5])]), D([("__dict__", ["i", 5])]), D([("__traceback__", S("x"))]),
                                  D([("__cause__", S("x"))]), D([("with_traceback", ["i", 1]), ("x", ["n"])]), D([("__setstate__", ["i", 1])]), D([("errno", S("x"))]),
                                  D([("a", self.tagged(depth + 1, hostile)[0])]) if depth < 3 else D([]), D([("__class__", S("builtins.int"))])])
            else:
                attrs = D([[("custom_attr", self.scalar())], [("_pyroTraceback", L([S("line1"), S("line2")]))], []][r.randrange(3)])
            items.append(("attributes", attrs))
        if r.random() < 0.75 or tx in ("Pyro5.core.URI", "Pyro5.client.Proxy", "Pyro5.server.Daemon"):
            if hostile and r.random() < 0.5:
                used = True
                st = r.choice([["n"], ["i", 5], S("abcde"), S("ab"), L([]), L([["i", 1]] * 6), D([(c, ["n"]) for c in "abcde"]), L([S("not a uri"), L([]), L([]), L([]), ["n"], ["n"]]),
                               L([S("PYRO:o@h:1"), ["i", 1], L([]), L([]), ["n"], ["n"]]), L([["n"]] * 5), L([S("PYRO:o@h:1")]), ["b", [1, 2, 3, 4, 5]], L([L([])] * 5)] +
                              ([self.tagged(depth + 1, hostile)[0]] if depth < 3 else []))
            else:
                st = {"Pyro5.core.URI": URI_STATE, "Pyro5.client.Proxy": PROXY_STATE, "Pyro5.server.Daemon": L([])}.get(tx, r.choice([URI_STATE, PROXY_STATE, L([])]))
                if st is not URI_STATE and st is not PROXY_STATE and tx not in ("Pyro5.server.Daemon",) and st[1] == []:
                    pass
                if tx not in ("Pyro5.core.URI", "Pyro5.client.Proxy", "Pyro5.server.Daemon") and hostile is False:
                    # a state that does not fit the class only matters for the three state classes
                    pass
            items.append(("state", st))
        if tx == "Pyro5.core._ExceptionWrapper" or r.random() < 0.15:
            c = r.random()
            if c < 0.55 and depth < 4:
                inner, u2 = self.tagged(depth + 1, hostile)
                used = used or u2
                items.append(("exception", inner))
            elif c < 0.85:
                items.append(("exception", self.scalar()))
        if tx == "float" or r.random() < 0.05:
            items.append(("value", r.choice([S("nan"), S("inf"), S("-inf"), S("1.5"), ["f", 2.5], ["i", 3], ["n"], L([]), D([])])))
        if r.random() < 0.3:
            items.append((r.choice(["extra", "object", "method", "__init__", "__reduce__"]), self.scalar()))
        if r.random() < 0.5:
            r.shuffle(items)
        # a state that does not fit its class makes __setstate__ fail: that is hostile to the constructor
        for k, v in items:
            if k == "state" and not ((tx == "Pyro5.core.URI" and v is URI_STATE) or (tx == "Pyro5.client.Proxy" and v is PROXY_STATE) or (tx == "Pyro5.server.Daemon" and v == L([]))):
                if tx in ("Pyro5.core.URI", "Pyro5.client.Proxy", "Pyro5.server.Daemon"):
                    used = True
        if tx.split(".")[-1] in self.I.picky:
            used = True
        return D(items), used

    def wrap(self, t, depth):
        """put a tree at some depth inside containers, possibly with siblings"""
        r = self.rng
        used = False
        for _ in range(depth):
            c = r.random()
            sib = []
            for _ in range(r.choice([0, 0, 1, 2])):
                if r.random() < 0.3:
                    s2, u2 = self.tagged(2, r.random() < 0.3)
                    used = used or u2
                    sib.append(s2)
                else:
                    sib.append(self.scalar())
            if c < 0.4:
                items = sib + [t]
                r.shuffle(items)
                t = L(items)
            elif c < 0.6:
                items = sib + [t]
                r.shuffle(items)
                t = ["T", items]
            else:
                items = [("k%d" % i, s) for i, s in enumerate(sib)] + [("key", t)]
                r.shuffle(items)
                t = D(items)
        return t, used

    def history(self, tree):
        """1-6 register / unregister calls over the payload's own tags and two other names, through random entry points"""
        r = self.rng
        tags = []
        live_tags(build(tree, self.I), tags)
        pool = [tx for tx in (tag_text(t) for t in tags) if tx is not None][:2] + ["app.Thing", "my.__Special__"]
        h = []
        for _ in range(r.choice([1, 2, 2, 3, 3, 4, 5, 6])):
            if r.random() < 0.75:
                tag = r.choice(pool[:3]) if r.random() < 0.8 else r.choice(pool)
                if r.random() < 0.3:      # the same tag, spelled as bytes (now and then not valid UTF-8)
                    tag = {"b": list(tag.encode("utf-8")) + ([0xff] if r.random() < 0.1 else [])}
                h.append([r.choice(["reg", "reg", "unreg"]), r.choice(ENTRY_POINTS), "d2c", tag])
            else:
                h.append([r.choice(["reg", "unreg"]), r.choice(ENTRY_POINTS), "c2d", r.choice(sorted(KCLASSES))])
        return h

    def shared_case(self):
        """a container that occurs twice in the payload (marshal keeps it ONE object): as an ordinary container whose
        members are re-created, and as the state / args / attributes member of a class dict"""
        r = self.rng
        nested = proxy_dict() if r.random() < 0.5 else self.tagged(2, False)[0]
        key = r.choice(["state", "state", "state", "args", "attributes"])
        if key == "attributes":
            member = D([("a", nested), ("b", self.scalar())])
            tag = r.choice(["ValueError", "Pyro5.errors.NamingError"])
        elif key == "args":
            member = L([S("m"), nested])
            tag = r.choice(["ValueError", "SyntaxError", "Pyro5.errors.NamingError", "KeyError"])
        else:
            pos = r.choice([1, 2, 3, 0, 4])
            items = [S("PYRO:obj@127.0.0.1:9"), L([]), L([S("m")]), L([]), S("hello"), ["n"]]
            items[pos] = nested if r.random() < 0.6 else L([nested])
            member = L(items[:5] if r.random() < 0.3 else items)
            tag = r.choice(["Pyro5.client.Proxy", "Pyro5.client.Proxy", "Pyro5.core.URI", "Pyro5.server.Daemon"])
        items = [("__class__", S(tag)), ("__exception__", ["B", True]), (key, ["ref", 1])]
        if key != "args":
            items.append(("args", L([S("m")])))
        tagged = D(items)
        first = ["share", 1, member]
        shape = r.randrange(4)
        if shape == 0:
            t = L([first, tagged])
        elif shape == 1:
            t = D([("a", first), ("b", tagged)])
        elif shape == 2:
            t = L([L([self.scalar(), first]), D([("k", tagged)])])
        else:
            t = L([D([("__class__", S(tag)), ("__exception__", ["B", True]), (key, ["share", 1, member]), ("args", L([S("m")]))]), ["ref", 1]])
        case = {"ser": r.choice(["marshal", "marshal", "marshal", "serpent", "json", "msgpack"]), "path": r.choice(["loads", "call"]), "tree": t,
                "hostile": True, "registry": []}
        if case["path"] == "call":
            case["slot"] = r.choice(["vargs", "kwargs"])
        return case

    def case(self):
        r = self.rng
        if r.random() < 0.05:
            return self.shared_case()
        ser = r.choice(["serpent", "marshal", "json", "msgpack"])
        path = r.choice(["loads", "loads", "call"])
        hostile = r.random() < 0.35
        t, used = self.tagged(0, hostile)
        t, u2 = self.wrap(t, r.choice([0, 0, 1, 1, 2, 3, 4]))
        case = {"ser": ser, "path": path, "tree": t, "hostile": bool(used or u2), "registry": []}
        if path == "call":
            case["slot"] = r.choice(["vargs", "vargs", "kwargs", "kwargs", "object", "method"])
        if r.random() < 0.22:
            case["history"] = self.history(t)
        elif r.random() < 0.12:
            tags = []
            live_tags(build(t, self.I), tags)
            reg = []
            for tg in tags[:2]:
                tx = tag_text(tg)
                if tx is not None and r.random() < 0.7:
                    reg.append(tx)
                elif tx:
                    # a near miss of the payload's tag is registered instead: only the exact tag may reach a converter
                    reg.append(r.choice(near_misses(tx)))
            reg.append(r.choice(["my.__Special__", "app.Thing", "Pyro5.core.URI", "ValueError"]))
            case["registry"] = sorted(set(reg))
        return case


def near_misses(tag):
    """tags that resemble the given one without being it (a converter registered for one must not serve the other)"""
    last = tag.rpartition(".")[2]
    first = tag.partition(".")[0]
    out = [last, first, "os." + tag, "__main__." + tag, tag + ".X", tag.lower(), tag.upper(), tag[:-1], tag + " ", " " + tag, "." + tag, tag + ".",
           tag.replace(".", "_"), tag.replace(".", ".."), last + "." + first]
    return [t for t in out if t and t != tag]


def near_miss_cases(I):
    """a converter is registered for N; payloads carry tags that merely contain / end in / start with N"""
    out = []
    for ser in ("serpent", "marshal", "json", "msgpack"):
        for registered, sent in (("Waypoint", "nav.Waypoint"), ("Waypoint", "__main__.Waypoint"), ("Waypoint", "os.__builtins__.Waypoint"),
                                 ("nav.Waypoint", "Waypoint"), ("nav.Waypoint", "x.nav.Waypoint"), ("nav.Waypoint", "nav.Waypoint.x"),
                                 ("nav.Waypoint", "nav.waypoint"), ("nav", "nav.Waypoint"), ("Waypoint", "Waypoint ")):
            for path, slot in (("loads", None), ("call", "vargs")):
                c = {"ser": ser, "path": path, "tree": L([D([("__class__", S(sent)), ("ident", ["i", 1])])]), "hostile": False, "registry": [registered]}
                if slot:
                    c["slot"] = slot
                out.append(c)
        for sent in (["b", list(b"evil.Waypoint")],):
            out.append({"ser": ser, "path": "loads", "tree": L([D([("__class__", sent), ("ident", ["i", 1])])]), "hostile": False, "registry": ["Waypoint"]})
    return out


def history_cases(I):
    """systematic two- and three-step histories mixing the entry points, for every serializer and both decode paths"""
    out = []
    T, U = "shop.Order", "shop.Other"
    TB = {"b": list(T.encode("utf-8"))}
    tree = L([D([("__class__", S(T)), ("ident", ["i", 42])])])
    for ser in ("serpent", "marshal", "json", "msgpack"):
        others = [x for x in ("serpent", "marshal", "json", "msgpack") if x != ser]
        for path, slot in (("loads", None), ("call", "vargs"), ("call", "kwargs")):
            for entry in ("api", "base"):
                hs = [
                    [["reg", entry, "d2c", T], ["reg", ser, "d2c", U], ["unreg", entry, "d2c", T]],
                    [["reg", ser, "d2c", T], ["unreg", entry, "d2c", T]],
                    [["reg", entry, "d2c", T], ["unreg", ser, "d2c", T]],
                    [["reg", ser, "d2c", U], ["reg", entry, "d2c", T]],
                    [["reg", others[0], "d2c", T]],
                    [["reg", others[0], "d2c", T], ["unreg", others[1], "d2c", T]],
                    [["reg", entry, "d2c", T], ["unreg", ser, "d2c", U], ["unreg", entry, "d2c", T]],
                    [["reg", ser, "d2c", T], ["unreg", ser, "d2c", T], ["reg", entry, "d2c", T], ["unreg", others[0], "d2c", T]],
                    [["reg", entry, "d2c", TB], ["unreg", entry, "d2c", TB]],
                    [["reg", entry, "d2c", TB]],
                    [["reg", entry, "d2c", T], ["unreg", ser, "d2c", TB]],
                    [["reg", ser, "d2c", TB], ["unreg", entry, "d2c", T]],
                    [["reg", entry, "d2c", TB], ["reg", entry, "d2c", T], ["unreg", entry, "d2c", TB]],
                    [["reg", entry, "c2d", "K0"], ["reg", ser, "c2d", "K1"], ["unreg", entry, "c2d", "K0"]],
                    [["reg", ser, "c2d", "K0"], ["unreg", entry, "c2d", "K0"], ["reg", entry, "c2d", "K2"]],
                ]
                for h in hs:
                    c = {"ser": ser, "path": path, "tree": tree, "hostile": False, "registry": [], "history": h}
                    if slot:
                        c["slot"] = slot
                    out.append(c)
    return out


def proxy_dict(addr="PYRO:o@127.0.0.1:9"):
    return D([("__class__", S("Pyro5.client.Proxy")), ("state", L([S(addr), L([]), L([]), L([]), S("hs"), ["n"]]))])


def targeted(I):
    """every fixed tag / every exception name in every naming scheme, the refusal order, and members that are themselves class dicts"""
    out = []
    benign = {"Pyro5.core.URI": URI_STATE, "Pyro5.client.Proxy": PROXY_STATE, "Pyro5.server.Daemon": L([])}
    for ser in ("serpent", "marshal", "json", "msgpack"):
        for path in ("loads", "call"):
            for tag in sorted(I.fixed_tags):
                items = [("__class__", S(tag)), ("args", L([S("m")])), ("state", benign.get(tag, L([]))), ("exception", S("x"))]
                out.append({"ser": ser, "path": path, "slot": "vargs", "tree": D(items), "hostile": False, "registry": []})
            # registry wins over the double-underscore refusal; unregistered dunder is refused
            out.append({"ser": ser, "path": path, "slot": "kwargs", "tree": D([("__class__", S("my.__Special__"))]), "hostile": False, "registry": ["my.__Special__"]})
            out.append({"ser": ser, "path": path, "slot": "kwargs", "tree": D([("__class__", S("my.__Special__"))]), "hostile": False, "registry": []})
            # members that are class dicts themselves (msgpack's object_hook would turn them into live objects first)
            P = proxy_dict()
            for tree in (D([("__class__", S("ValueError")), ("__exception__", ["B", True]), ("args", P)]),
                         D([("__class__", P)]),
                         D([("__class__", S("Pyro5.core.URI")), ("state", P)]),
                         D([("__class__", S("Pyro5.server.Daemon")), ("state", P)]),
                         D([("__class__", S("ValueError")), ("__exception__", ["B", True]), ("args", L([])), ("attributes", P)]),
                         D([("__class__", S("Pyro5.core._ExceptionWrapper")), ("exception", D([("__class__", S("KeyError")), ("__exception__", ["B", True]), ("args", L([S("k")]))]))])):
                out.append({"ser": ser, "path": path, "slot": "vargs", "tree": tree, "hostile": True, "registry": []})
    for ser in ("serpent", "json", "msgpack", "marshal"):
        for name in sorted(I.builtin_exc):
            for tag in (name, "builtins." + name, "exceptions." + name):
                out.append({"ser": ser, "path": "loads", "tree": D([("__class__", S(tag)), ("__exception__", ["B", True]), ("args", L([S("m")]))]),
                            "hostile": name in I.picky, "registry": []})
            if ser == "json":
                out.append({"ser": ser, "path": "loads", "tree": D([("__class__", S("builtins." + name)), ("args", L([S("m")]))]), "hostile": name in I.picky, "registry": []})
        for name in sorted(I.pyro_exc):
            for tag, fl in ((name, True), ("Pyro5.errors." + name, False), ("Pyro5.errors." + name, True)):
                out.append({"ser": ser, "path": "loads", "tree": D([("__class__", S(tag)), ("__exception__", ["B", fl]), ("args", L([S("m")]))]), "hostile": False, "registry": []})
        for name in sorted(k for k in vars(sqlite3) if k.endswith("Error") or k in ("Warning", "connect", "Connection", "Row")):
            out.append({"ser": ser, "path": "loads", "tree": D([("__class__", S("sqlite3." + name)), ("__exception__", ["B", True]), ("args", L([S("m")]))]), "hostile": False, "registry": []})
        # every name bound in builtins that is not an exception class, flagged as an exception
        if ser == "json":
            for name in sorted(k for k in vars(builtins) if k not in I.builtin_exc):
                for args in (L([]), L([S("m")])):
                    out.append({"ser": ser, "path": "loads", "tree": D([("__class__", S("builtins." + name)), ("__exception__", ["B", True]), ("args", args)]),
                                "hostile": False, "registry": []})
        # closed-set names under double-underscore spellings (legacy namespaces, decorations), flagged and with benign members
        if ser in ("json", "marshal"):
            g = Gen.__new__(Gen)
            g.I = I
            pools = Gen.tag_pool(g)
            if ser == "json":
                for tagx in pools["foreign_short"]:
                    for args in (L([S("m")]), L([S("m"), ["i", 5]])):
                        out.append({"ser": ser, "path": "loads", "tree": D([("__class__", S(tagx)), ("__exception__", ["B", True]), ("args", args)]),
                                    "hostile": True, "registry": []})
                for tagx in ("os.system", "subprocess.Popen", "tests.Custom", "Pyro5.core.Daemon"):
                    inner = D([("__class__", S(tagx)), ("__exception__", ["B", True]), ("args", L([S("m")]))])
                    w = D([("__class__", S("Pyro5.core._ExceptionWrapper")), ("exception", inner)])
                    for tree in (w, L([w, ["i", 1]]), D([("__class__", S("Pyro5.core._ExceptionWrapper")), ("exception", w)])):
                        out.append({"ser": ser, "path": "loads", "tree": tree, "hostile": False, "registry": []})
            for tagx in pools["decorated"]:
                out.append({"ser": ser, "path": "loads", "tree": D([("__class__", S(tagx)), ("__exception__", ["B", True]), ("args", L([S("m")])),
                                                                   ("state", URI_STATE)]), "hostile": False, "registry": []})
        # every name bound in Pyro5.errors, with and without arguments a function would accept
        for name in sorted(k for k in vars(I.errors)):
            for args in (L([]), L([S("m")])):
                out.append({"ser": ser, "path": "loads", "tree": D([("__class__", S("Pyro5.errors." + name)), ("args", args)]), "hostile": False, "registry": []})
    return out


def nontrivial(case, obs):
    return obs["kind"] == "ok" and bool(obs["census"]) or obs["exc"] in ("SecurityError", "SerializeError")


def execute(ctx, cases, model_ok, res):
    lits, kept = [], []
    for case in cases:
        obs = run_impl(case)
        if obs["skip"]:
            res.count("skipped:" + obs["skip"])
            continue
        res.seen(case, nontrivial(case, obs))
        res.count("ser:" + case["ser"])
        res.count("path:" + case["path"] + (":" + case.get("slot", "") if case["path"] != "loads" else ""))
        res.count("outcome:" + (obs["exc"] or ("ok:" + ("+".join(n.split(".")[-1] for n in obs["census"][:2]) if obs["census"] else "data"))))
        if case.get("registry") or case.get("history"):
            res.count("with_registry")
        if case.get("history"):
            res.count("history_len_%d" % len(case["history"]))
            if len({h[1] if h[1] != "api" else "base" for h in case["history"]}) > 1:
                res.count("history_mixed_entry_points")
            if any(isinstance(h[3], dict) for h in case["history"]):
                res.count("history_bytes_spelling")
        if '"share"' in json.dumps(case["tree"]):
            res.count("shared_container")
        if case.get("hostile"):
            res.count("hostile_members")
        for sig, what in oracle(case, obs):
            res.violations.append({"signature": sig, "what": what, "case": case})
        try:
            lits.append(c_case(case, obs))
            kept.append((case, obs))
        except Exception as x:        # a literal the printers cannot express (surrogates ...)
            res.count("unprintable:" + type(x).__name__)
    if model_ok and lits:
        for idx in vlib.run_cases(ctx, "c", IMPORTS, "case", "check_case", lits, shard=150):
            case, obs = kept[idx]
            res.mismatches.append({"component": "C04", "case": case, "impl": short_obs(obs)})
    return res


def short_obs(obs):
    return {k: obs.get(k) for k in ("kind", "census", "unknown", "exc", "ext", "convs", "audit", "c2d")}


def all_cases(ctx):
    I = impl()
    g = Gen(ctx.rng, I)
    cases = vlib.load_corpus(PROP) + targeted(I) + history_cases(I) + near_miss_cases(I)
    n = ctx.n(2600, 12000)
    cases += [g.case() for _ in range(n)]
    return cases


def run(ctx, model_ok=True):
    res = vlib.Result()
    cases = all_cases(ctx)
    execute(ctx, cases, model_ok, res)
    res.rule = ("payload trees = a class-tagged dict (tags: the fixed names, every exception name in every naming scheme, every dotted attribute of builtins/os/"
                "subprocess/sqlite3/struct/sys/Pyro5.*, dunder names, test-local classes, bytes and non-string tags; exception flag of any truthiness; benign or hostile "
                "args/attributes/state/exception members incl. nested class dicts) wrapped 0-4 levels deep in lists/tuples/dicts with siblings; x 4 serializers x loads/"
                "loadsCall (vargs, kwargs, object, method slots) x optional history of 1-6 register/unregister calls (both registries; through Pyro5.api, SerializerBase or any concrete serializer class) executed on the real classes before decoding and undone afterwards; targeted: every closed-set name per scheme; non-trivial = an object was built or the "
                "tag was refused/unsupported; distinct = case hash")
    res.samples = cases[-3:] + cases[:2]
    return res


def search(ctx, broken):
    res = vlib.Result()
    cases = [b["case"] for b in broken if b.get("case")] + all_cases(ctx)
    for case in cases:
        obs = run_impl(case)
        if obs["skip"]:
            continue
        res.seen(case)
        for sig, what in oracle(case, obs):
            res.violations.append({"signature": sig, "what": what, "case": case})
    return res


def replay(ctx, case):
    obs = run_impl(case)
    if obs["skip"]:
        return False, {"skipped": obs["skip"]}
    bad = oracle(case, obs)
    if bad:
        return True, {"oracle": bad, "impl": short_obs(obs)}
    res = vlib.Result()
    execute(ctx, [case], True, res)
    if res.mismatches:
        model = vlib.eval_model(ctx, IMPORTS, "model_view (%s)" % c_case(case, obs))
        return True, {"mismatch": True, "impl": short_obs(obs), "model": model[-1500:]}
    return False, {"impl": short_obs(obs)}
