"""C20 — HTTP gateway: pyro_app behind recording name-server / proxy stubs vs Model/Gateway.v (DESIGN 6/C20)."""
import contextlib, importlib, io, json, os, re, urllib.parse, uuid
from tools.lib import vlib
from tools.lib.vlib import cN, cbool, clist, copt


def ctext(s):
    """text literal: (t "...") for printable ASCII, a list of code points otherwise"""
    if s and all(32 <= ord(ch) < 127 and ch != '"' for ch in s):
        return '(t "%s")' % s
    return vlib.ctext(s)

PROP = "C20"
GEN = ["GenGateway"]
ASSUMPTIONS = [
    "re.match(pattern, name) is an oracle: its answers travel in the case as a table",
    "urllib.parse.parse_qs is an oracle: the model starts from the parsed query string",
    "the backend is scripted: get_nameserver and client.Proxy are replaced by recording stubs; the proxy stub is a subclass "
    "of the real Proxy (so attribute resolution is the real one) whose network primitives record instead of sending",
    "object metadata never contains names that are attributes of the local Proxy class (the daemon refuses to expose them, C02)",
    "config.MAX_RETRIES = 0 (default): a failed call is not retried by the proxy",
]
IMPORTS = "From V Require Import Model.Gateway Harness.Cmp Harness.H20."

EXC_CLASSES = ["Pyro5.errors.CommunicationError", "Pyro5.errors.ConnectionClosedError", "Pyro5.errors.TimeoutError",
               "Pyro5.errors.SerializeError", "builtins.RuntimeError"]
GW_EXC = {"Pyro5.errors.NamingError": "ENaming", "builtins.ValueError": "EValue", "builtins.AssertionError": "EAssertion",
          "builtins.AttributeError": "EAttribute", "builtins.TypeError": "ETypeError"}
# names that resolve on the local Proxy object (not remote members); the ones the gateway reads itself are left out
LOCAL_VOID = ["_pyroRelease", "_pyroClaimOwnership"]
LOCAL_OTHER = ["_pyroBind", "_pyroInvoke", "_pyroBatch", "__class__", "__copy__", "__dict__", "__len__",
               "_pyroTimeout", "__repr__", "_pyroValidateHandshake", "_pyroSeq", "__init__", "__eq__"]


# ---------------------------------------------------------------- stubs + runner
class Msg:
    def __init__(self, flags, data):
        self.flags, self.data = flags, data
        self.seq, self.annotations = 0, {}


def make_exc(idx, errors):
    name = EXC_CLASSES[idx]
    cls = RuntimeError if name.startswith("builtins.") else getattr(errors, name.rsplit(".", 1)[1])
    return cls("scripted failure")


def run_impl(case, tree_mod=None):
    """Call the real pyro_app on a synthetic WSGI environ; return {"outcome":..., "log":[...], ...}."""
    gw = importlib.import_module("Pyro5.utils.httpgateway")
    from Pyro5 import client, core, errors, protocol, config, callcontext
    be, rq, cfg = case["be"], case["rq"], case["cfg"]
    log = []
    registry = {n: u for n, u in be["registry"]}
    RealProxy = client.Proxy
    member_box = {"name": None}

    def set_meta(p):
        if be["meta"] is None:
            raise make_exc(be["meta_exc"], errors)
        p._pyroMethods = set(be["meta"]["methods"])
        p._pyroAttrs = set(be["meta"]["attrs"])
        p._pyroOneway = set(be["meta"]["oneway"])
        if not p._pyroMethods and not p._pyroAttrs:
            raise errors.PyroError("remote object doesn't expose any methods or attributes")

    # The real Proxy class is instrumented in place (a subclass would break `super(Proxy, self)` inside client.py):
    # attribute resolution stays the real one, the network primitives record instead of sending.
    real_init, real_exit = RealProxy.__init__, RealProxy.__exit__

    def p_init(self, uri, connected_socket=None):
        real_init(self, uri)
        log.append(["newproxy", str(self._pyroUri)])

    def p_del(self):
        pass

    def p_getattribute(self, name):
        v = object.__getattribute__(self, name)
        if name == member_box["name"]:
            log.append(["localattr", str(object.__getattribute__(self, "_pyroUri")), name])
        return v

    def p_exit(self, *a):
        member_box["name"] = None          # the release below is the gateway's own, not the member's
        log.append(["release", str(self._pyroUri)])
        return real_exit(self, *a)

    def p_connect(self, replaceUri=False, connected_socket=None):
        log.append(["connect", str(self._pyroUri)])
        set_meta(self)
        return True

    def p_bind(self):
        log.append(["bind", str(self._pyroUri)])
        set_meta(self)
        return True

    def p_getmeta(self, objectId=None, known_metadata=None):
        log.append(["getmeta", str(self._pyroUri)])
        set_meta(self)

    def p_invoke(self, methodname, vargs, kwargs, flags=0, objectId=None):
        oneway = methodname in self._pyroOneway or bool(flags & protocol.FLAGS_ONEWAY)
        log.append(["invoke", str(self._pyroUri), objectId, methodname, list(vargs) if vargs is not None else None,
                    dict(kwargs) if kwargs is not None else None, oneway, bool(self._pyroRawWireResponse)])
        if oneway:
            return None
        kind, payload = be["reply"]
        if kind == "raise":
            raise make_exc(payload, errors)
        if not self._pyroRawWireResponse:
            return {"deserialized": True}
        return Msg(protocol.FLAGS_EXCEPTION if kind == "exc" else 0, bytes(payload))

    patches = {"__init__": p_init, "__del__": p_del, "__getattribute__": p_getattribute, "__exit__": p_exit,
               "_Proxy__pyroCreateConnection": p_connect, "_pyroBind": p_bind, "_pyroGetMetadata": p_getmeta,
               "_pyroInvoke": p_invoke}
    missing = object()
    originals = {k: RealProxy.__dict__.get(k, missing) for k in patches}

    class FakeNS:
        _pyroUri = core.URI("PYRO:Pyro.NameServer@127.0.0.1:9090")

        def lookup(self, name):
            log.append(["lookup", name])
            if name not in registry:
                raise errors.NamingError("unknown name: " + name)
            return core.URI(registry[name])

        def list(self, prefix=None, regex=None, return_metadata=False):
            log.append(["nslist", regex])
            return {n: u for n, u in be["registry"] if not regex or re.match(regex, n)}

        def _pyroInvokeBatch(self, calls, oneway=False):
            out = []
            for m, args, kwargs in calls:
                if m != "lookup":
                    log.append(["nsother", m])
                    continue
                log.append(["lookup", args[0]])
                out.append(core.URI(registry[args[0]]) if args[0] in registry else None)
            return out

        def _pyroClaimOwnership(self):
            pass

        def __enter__(self):
            return self

        def __exit__(self, *a):
            pass

    def fake_get_ns():
        log.append(["getns"])
        if not be["ns_ok"]:
            raise errors.NamingError("Failed to locate the nameserver")
        return FakeNS()

    environ = {"PATH_INFO": rq["path"], "QUERY_STRING": rq["qs"], "wsgi.errors": io.StringIO(),
               "wsgi.input": io.BytesIO(b""), "SERVER_NAME": "localhost", "SERVER_PORT": "8080"}
    if rq["method"] is not None:
        environ["REQUEST_METHOD"] = rq["method"]
    if rq["keyhdr"]:
        environ["HTTP_X_PYRO_GATEWAY_KEY"] = rq["keyhdr"]
    if rq["options"]:
        environ["HTTP_X_PYRO_OPTIONS"] = rq["options"]
    if rq["corr"]:
        environ["HTTP_X_PYRO_CORRELATION_ID"] = rq["corr"]
    tgt = spec_target(rq["path"])
    member_box["name"] = tgt[1] if tgt else None
    app = gw.pyro_app
    saved = (gw.get_nameserver, app.ns_regex, app.gateway_key, app.cors, config.SERIALIZER, config.COMMTIMEOUT,
             callcontext.current_context.correlation_id)
    started = []
    obs = {}
    try:
        gw.get_nameserver = fake_get_ns
        for k, v in patches.items():
            setattr(RealProxy, k, v)
        app.ns_regex = cfg["pattern"]
        app.gateway_key = None if cfg["key"] is None else bytes(cfg["key"])
        app.cors = "*"
        with contextlib.redirect_stdout(io.StringIO()):
            try:
                chunks = app(environ, lambda status, headers: started.append((status, headers)))
                body = b"".join(chunks)
                obs["crash"] = None
            except Exception as x:   # an exception leaving the WSGI app: the server would answer 500
                obs["crash"] = type(x).__name__
                body = b""
    finally:
        for k, v in originals.items():
            if v is missing:
                if k in RealProxy.__dict__:
                    delattr(RealProxy, k)
            else:
                setattr(RealProxy, k, v)
        (gw.get_nameserver, app.ns_regex, app.gateway_key, app.cors, config.SERIALIZER, config.COMMTIMEOUT,
         callcontext.current_context.correlation_id) = saved
    obs["log"] = log
    if obs["crash"] is None:
        if len(started) != 1:
            obs["crash"] = "start_response called %d times" % len(started)
        else:
            status, headers = started[0]
            obs["status"] = int(status.split()[0])
            obs["headers"] = [list(h) for h in headers]
            obs["body"] = body
    return obs


# ---------------------------------------------------------------- the property's own vocabulary (Python)
def spec_target(path):
    """/pyro/<object>/<member>: object = everything up to the last slash that still leaves a member"""
    p = path.lstrip("/")
    if not p.startswith("pyro/") or p == "pyro/":
        return None
    m = re.match(r"(.+)/(.+)", p[5:])
    return (m.group(1), m.group(2)) if m else None


def spec_params(case):
    """query parameters as the property reads them: every key with its single value, or its list of values"""
    d = urllib.parse.parse_qs(case["rq"]["qs"])
    return {k: (v[0] if len(v) == 1 else v) for k, v in d.items()}


def key_configured(cfg):
    return bool(cfg["key"])


def key_ok(case):
    cfg, rq = case["cfg"], case["rq"]
    if not key_configured(cfg):
        return True
    presented = rq["keyhdr"] or spec_params(case).get("$key", "")
    return isinstance(presented, str) and presented.encode("utf-8", "surrogatepass") == bytes(cfg["key"])


def exposed(cfg, name):
    return (not cfg["pattern"]) or bool(re.match(cfg["pattern"], name))


def header(obs, name):
    for k, v in obs.get("headers", []):
        if k.lower() == name.lower():
            return v
    return None


def oracle(case, obs):
    """The property over what the implementation did. Returns [(signature, what)]."""
    bad = []
    cfg, rq, be = case["cfg"], case["rq"], case["be"]
    log = obs["log"]
    p = rq["path"].lstrip("/")
    tgt = spec_target(rq["path"])
    is_index = (p == "pyro/")
    call_method = rq["method"] in ("GET", "POST")
    traffic = [e for e in log]
    if obs["crash"] is not None:
        if tgt and key_configured(cfg) and isinstance(spec_params(case).get("$key"), list) and not rq["keyhdr"]:
            bad.append(("key-check-raises", "a request with a repeated $key parameter made pyro_app raise %s instead of answering 403" % obs["crash"]))
        else:
            bad.append(("unhandled-exception", "pyro_app raised %s" % obs["crash"]))
        if traffic and tgt and not (key_ok(case) and exposed(cfg, tgt[0])):
            bad.append(("traffic-on-denied-request", "backend traffic %r for a request that is not authorised" % (traffic[:3],)))
        return bad
    st = obs["status"]
    if is_index and call_method:
        # the keyless exception: may list, look up and bind objects matching the pattern — nothing else
        for e in log:
            if e[0] == "nslist" and (e[1] or "") != cfg["pattern"]:
                bad.append(("index-lists-other-pattern", "index page listed the name server with pattern %r, configured %r" % (e[1], cfg["pattern"])))
            if e[0] == "lookup" and not exposed(cfg, e[1]):
                bad.append(("index-touches-unexposed", "index page looked up %r which does not match the expose pattern" % e[1]))
            if e[0] in ("newproxy", "bind", "connect", "getmeta") and e[1] not in [u for n, u in be["registry"] if exposed(cfg, n)]:
                bad.append(("index-touches-unexposed", "index page contacted %r which is not an exposed object" % e[1]))
            if e[0] in ("invoke", "localattr", "nsother"):
                bad.append(("index-invokes", "index page invoked %r" % (e,)))
        return bad
    if not (tgt and call_method):
        if traffic:
            bad.append(("traffic-on-non-call-request", "backend traffic %r for %s %r" % (traffic[:3], rq["method"], rq["path"])))
        if st not in (302, 404, 405) and not (st == 200 and rq["method"] == "OPTIONS"):
            bad.append(("wrong-refusal-status", "status %d for %s %r" % (st, rq["method"], rq["path"])))
        return bad
    obj, member = tgt
    authorised = key_ok(case) and exposed(cfg, obj)
    if not authorised:
        if traffic:
            why = "without the gateway key" if not key_ok(case) else "for an object outside the expose pattern"
            bad.append(("traffic-on-denied-request", "backend traffic %r %s" % (traffic[:3], why)))
        if st not in (403, 404, 405):
            bad.append(("denied-request-not-refused", "status %d for a request that is not authorised" % st))
        return bad
    # ---- authorised call request: forwarded faithfully
    uri = dict(be["registry"]).get(obj)
    lookups = [e[1] for e in log if e[0] == "lookup"]
    if lookups not in ([], [obj]):
        bad.append(("wrong-object-lookup", "looked up %r for object %r" % (lookups, obj)))
    for e in log:
        if e[0] in ("newproxy", "bind", "connect", "getmeta", "invoke", "localattr") and e[1] != uri:
            bad.append(("proxy-to-other-uri", "%s on %r, the named object is at %r" % (e[0], e[1], uri)))
        if e[0] in ("nslist", "nsother"):
            bad.append(("unexpected-nameserver-call", "%r during a call request" % (e,)))
    local = [e for e in log if e[0] == "localattr"]
    connects = [e for e in log if e[0] == "connect"]
    if local or connects:
        bad.append(("proxy-local-member", "member %r resolved to an attribute of the gateway's own proxy object (%d local access, %d connects) "
                    "instead of a remote member" % (member, len(local), len(connects))))
    calls = [e for e in log if e[0] == "invoke"]
    if len(calls) > 1:
        bad.append(("invoked-more-than-once", "%d remote invocations for one request" % len(calls)))
    want = spec_params(case)
    if key_configured(cfg):
        want.pop("$key", None)
    ow_opt = "oneway" in rq["options"].split(",")
    in_meta = be["meta"] is not None and (member in be["meta"]["methods"] or member in be["meta"]["attrs"])
    for e in calls:
        _, _, object_id, mname, vargs, kwargs, oneway, raw = e
        if object_id is not None:
            bad.append(("invoke-foreign-object-id", "invocation carries object id %r" % (object_id,)))
        if mname == "__getattr__" and member != "__getattr__":
            if vargs != [member] or kwargs:
                bad.append(("wrong-member", "attribute read of %r for member %r" % (vargs, member)))
            if want:
                bad.append(("wrong-parameters", "attribute read although the request has parameters %r" % (want,)))
        else:
            if mname != member:
                bad.append(("wrong-member", "invoked %r for member %r" % (mname, member)))
            if vargs:
                bad.append(("wrong-parameters", "positional arguments %r" % (vargs,)))
            if (kwargs or {}) != want:
                bad.append(("wrong-parameters", "invoked with %r, the query parameters are %r" % (kwargs, want)))
            exp_ow = ow_opt or (be["meta"] is not None and member in be["meta"]["oneway"])
            if oneway != exp_ow:
                bad.append(("wrong-oneway", "oneway=%r, requested %r" % (oneway, exp_ow)))
    if member == "$meta":
        if calls:
            bad.append(("meta-invokes", "$meta caused a remote invocation"))
        if st == 200:
            try:
                j = json.loads(obs["body"].decode("utf-8"))
                ok = be["meta"] is not None and sorted(j["methods"]) == sorted(be["meta"]["methods"]) and sorted(j["attributes"]) == sorted(be["meta"]["attrs"])
            except Exception:
                ok = False
            if not ok:
                bad.append(("wrong-metadata", "$meta answered %r" % (obs["body"][:80],)))
        elif st != 500:
            bad.append(("wrong-status", "$meta answered %d" % st))
    elif len(calls) == 1 and not bad:
        e = calls[0]
        kind, payload = be["reply"]
        if e[6]:                                   # oneway at the proxy: nothing comes back
            exp = (200, b"")
        elif kind == "raise":
            exp = (500, None)
        elif ow_opt:
            exp = (200, b"")
        elif kind == "ok":
            exp = (200, bytes(payload))
        else:
            exp = (500, bytes(payload))
        if st != exp[0] or (exp[1] is not None and obs["body"] != exp[1]):
            bad.append(("wrong-response", "call answered %s; HTTP client got %d %r, expected %d %r" % (kind, st, obs["body"][:40], exp[0], exp[1])))
        if exp[1] is None:
            try:
                j = json.loads(obs["body"].decode("utf-8"))
                if j.get("__class__") != EXC_CLASSES[payload]:
                    bad.append(("wrong-response", "error %s reported as %r" % (EXC_CLASSES[payload], j.get("__class__"))))
            except Exception:
                bad.append(("wrong-response", "error body is not the JSON form of the exception"))
    elif not calls and not bad:
        if st != 500:
            bad.append(("success-without-call", "status %d although nothing was invoked (member %r)" % (st, member)))
        if "self" in want and in_meta and member in be["meta"]["methods"]:
            bad.append(("parameter-named-self-rejected", "a query parameter named 'self' makes the proxy call raise TypeError: the method is not invoked"))
        elif in_meta and be["ns_ok"] and uri is not None and _corr_class(rq["corr"]) != "CorrInvalid" and not (member in be["meta"]["attrs"] and want):
            bad.append(("call-not-forwarded", "member %r of %r exists but was not invoked" % (member, obj)))
    if st == 200 and rq["corr"] and _corr_class(rq["corr"]) == "CorrValid":
        if header(obs, "X-Pyro-Correlation-Id") != str(uuid.UUID(rq["corr"])):
            bad.append(("correlation-id-not-echoed", "response correlation id %r" % header(obs, "X-Pyro-Correlation-Id")))
    # de-duplicate by signature, keep the first sentence
    out, seen = [], set()
    for s, w in bad:
        if s not in seen:
            seen.add(s)
            out.append((s, w))
    return out


def _corr_class(c):
    if not c:
        return "CorrNone"
    try:
        uuid.UUID(c)
        return "CorrValid"
    except Exception:
        return "CorrInvalid"


# ---------------------------------------------------------------- canonical observation + Gallina encodings
class NotInVocabulary(Exception):
    pass


def canon(case, obs):
    """-> (outcome literal, [action literal]) or raises NotInVocabulary"""
    acts = []
    for e in obs["log"]:
        k = e[0]
        if k == "getns":
            acts.append("AGetNS")
        elif k == "nslist":
            acts.append("ANsList %s" % ctext(e[1] or ""))
        elif k == "lookup":
            acts.append("ALookup %s" % ctext(e[1]))
        elif k in ("newproxy", "bind", "getmeta", "release"):
            acts.append("%s %s" % ({"newproxy": "ANewProxy", "bind": "ABind", "getmeta": "AGetMeta", "release": "ARelease"}[k], ctext(e[1])))
        elif k == "localattr":
            acts.append("ALocal %s %s" % (ctext(e[1]), ctext(e[2])))
        elif k == "invoke":
            _, u, object_id, mname, vargs, kwargs, oneway, raw = e
            if object_id is not None or not raw:
                raise NotInVocabulary("invoke with object id %r raw=%r" % (object_id, raw))
            if mname == "__getattr__" and kwargs is None and vargs is not None and len(vargs) == 1 and isinstance(vargs[0], str):
                acts.append("AGetAttr %s %s" % (ctext(u), ctext(vargs[0])))
            else:
                if vargs:
                    raise NotInVocabulary("positional arguments")
                acts.append("AInvoke %s %s %s %s" % (ctext(u), ctext(mname), c_kwargs(case, kwargs or {}), cbool(oneway)))
        else:
            raise NotInVocabulary("backend event %r" % (e,))
    if obs["crash"] is not None:
        return "Crash", acts
    st, body = obs["status"], obs["body"]
    ctype = header(obs, "Content-Type") or ""
    corr = header(obs, "X-Pyro-Correlation-Id") is not None
    if st == 302 and header(obs, "Location") == "/pyro/" and body == b"":
        b = "BRedirect"
    elif ctype.startswith("text/plain"):
        # the wording of a refusal is incidental: the class of a plain-text answer is its status
        b = {200: "BPreflight", 405: "BNotAllowed", 404: "BNotFound", 403: "BForbiddenKey", 500: "BNsDown"}.get(st)
        if b is None:
            raise NotInVocabulary("plain text answer with status %d" % st)
    elif ctype.startswith("text/html"):
        # the index page: what matters is which names it details (= looks up), not its markup
        b = "(BIndex %s)" % clist([ctext(e[1]) for e in obs["log"] if e[0] == "lookup"])
    elif ctype.startswith("application/json"):
        if body == b"":
            b = "BEmpty"
        else:
            j = None
            try:
                j = json.loads(body.decode("utf-8"))
            except Exception:
                pass
            if isinstance(j, dict) and set(j) == {"methods", "attributes"}:
                b = "(BMeta %s %s)" % (clist([ctext(x) for x in sorted(j["methods"])]), clist([ctext(x) for x in sorted(j["attributes"])]))
            elif isinstance(j, dict) and j.get("__exception__") is True and "__class__" in j:
                cn = j["__class__"]
                if cn in GW_EXC:
                    b = "(BError %s)" % GW_EXC[cn]
                elif cn in EXC_CLASSES:
                    b = "(BError (EBackend %s))" % cN(EXC_CLASSES.index(cn))
                else:
                    # some other exception raised by the gateway itself while handling the forwarded request: the
                    # property only says "error (500)"; the class is incidental (H20.exc_eqb identifies the local ones)
                    b = "(BError ETypeError)"
            else:
                b = "(BRaw %s)" % vlib.cbytes(body)
    else:
        raise NotInVocabulary("content type %r" % ctype)
    return "(Resp %s %s %s)" % (cN(st), b, cbool(corr)), acts


def c_pval(v):
    if isinstance(v, str):
        return "(One %s)" % ctext(v)
    return "(Many %s)" % clist([ctext(x) for x in v])


def c_kwargs(case, kwargs):
    order = list(urllib.parse.parse_qs(case["rq"]["qs"]).keys())
    keys = sorted(kwargs.keys(), key=lambda k: (order.index(k) if k in order else len(order), k))
    for k in keys:
        if not isinstance(k, str) or not (isinstance(kwargs[k], str) or (isinstance(kwargs[k], list) and all(isinstance(x, str) for x in kwargs[k]))):
            raise NotInVocabulary("kwargs %r" % (kwargs,))
    return clist(["(%s, %s)" % (ctext(k), c_pval(kwargs[k])) for k in keys])


def match_table(case):
    """regex oracle answers for every name the model may ask about"""
    names = [n for n, _ in case["be"]["registry"]]
    rest = case["rq"]["path"].lstrip("/")
    rest = rest[5:] if rest.startswith("pyro/") else ""
    for i, ch in enumerate(rest):
        if ch == "/":
            names.append(rest[:i])
    out, seen = [], set()
    for n in names:
        if n not in seen:
            seen.add(n)
            out.append((n, bool(re.match(case["cfg"]["pattern"], n)) if case["cfg"]["pattern"] else True))
    return out


def c_case(case, quirks, out_lit, acts):
    cfg, rq, be = case["cfg"], case["rq"], case["be"]
    params = urllib.parse.parse_qs(rq["qs"])
    c_params = clist(["(%s, %s)" % (ctext(k), clist([ctext(x) for x in v])) for k, v in params.items()])
    meta = None
    if be["meta"] is not None:
        meta = "{| md_methods := %s; md_attrs := %s; md_oneway := %s |}" % tuple(
            clist([ctext(x) for x in sorted(be["meta"][k])]) for k in ("methods", "attrs", "oneway"))
    kind, payload = be["reply"]
    reply = {"ok": "ROk %s", "exc": "RExc %s", "raise": "RRaise %s"}[kind] % (cN(payload) if kind == "raise" else vlib.cbytes(bytes(payload)))
    return ("{| c_quirks := {| q_multi_key_crash := %s; q_proxy_local := %s |};\n"
            "   c_cfg := {| cfg_key := %s; cfg_pattern := %s |};\n"
            "   c_be := {| be_ns_ok := %s; be_registry := %s; be_meta := %s; be_meta_exc := %s; be_reply := %s; be_local_void := %s |};\n"
            "   c_rq := {| rq_method := %s; rq_path := %s; rq_params := %s; rq_keyhdr := %s; rq_options := %s; rq_corr := %s |};\n"
            "   c_match := %s;\n   c_out := %s; c_acts := %s |}") % (
        cbool(quirks["multi_key_crash"]), cbool(quirks["proxy_local"]),
        copt(cfg["key"], lambda k: vlib.cbytes(bytes(k))), ctext(cfg["pattern"]),
        cbool(be["ns_ok"]), clist(["(%s, %s)" % (ctext(n), ctext(u)) for n, u in be["registry"]]),
        "None" if meta is None else "(Some %s)" % meta, cN(be["meta_exc"]), "(%s)" % reply,
        clist([ctext(x) for x in LOCAL_VOID]),
        copt(rq["method"], ctext), ctext(rq["path"]), c_params, ctext(rq["keyhdr"]), ctext(rq["options"]), _corr_class(rq["corr"]),
        clist(["(%s, %s)" % (ctext(n), cbool(b)) for n, b in match_table(case)]),
        out_lit, clist(acts))


# ---------------------------------------------------------------- generator
NAMES = ["http.obj", "http.obj2", "http.o/b", "Http.obj", "xhttp.obj", "http", "http.", "test.echo", "Pyro.NameServer",
         "pub.a", "http.objé", "http.a/b/c", "http.obj%2Fx", "HTTP.OBJ", "http.objX"] + ["http.n%02d" % i for i in range(14)]
PATTERNS = [r"http\.", r"http\.", r"http\.", "", r"test\.", r"http\.obj$", r"(?i)http", "^pub", r"http\..*[0-9]$", r"http\.o", r".*\.obj"]
KEYS = [None, None, None, [], list(b"secret"), list(b"secret"), list("sécret".encode()), [255, 254], list(b"k")]
METHODS_POOL = ["echo", "add", "list", "ping", "fire"]
ATTRS_POOL = ["value", "count"]


def uri_for(i):
    return "PYRO:o%d@h:%d" % (i, 400 + i)


def gen_backend(rng, want_obj=None, want_member=None, friendly=False):
    names = rng.sample(NAMES, rng.choice([0, 1, 2, 3, 3, 5, 5, 8, 12, 16, len(NAMES)]))
    if want_obj is not None and want_obj not in names and rng.random() < (0.97 if friendly else 0.8):
        names.append(want_obj)
    rng.shuffle(names)
    registry = [[n, uri_for(NAMES.index(n) if n in NAMES else 90 + len(n))] for n in names]
    methods = rng.sample(METHODS_POOL, rng.randint(0, len(METHODS_POOL)))
    attrs = rng.sample(ATTRS_POOL, rng.randint(0, 2))
    if want_member and rng.random() < (0.9 if friendly else 0.5) and want_member not in LOCAL_VOID + LOCAL_OTHER and not want_member.startswith("_") \
            and want_member != "$meta" and "\n" not in want_member:
        (methods if rng.random() < 0.75 else attrs).append(want_member)
    if not methods and not attrs:
        methods = ["echo"]
    methods = sorted(set(methods) - set(attrs))
    if not methods and not attrs:
        methods = ["echo"]
    oneway = sorted(m for m in methods if rng.random() < 0.2)
    meta = {"methods": methods, "attrs": sorted(set(attrs)), "oneway": oneway} if rng.random() < 0.94 else None
    r = rng.random()
    data = rng.choice([b'{"r": 17}', b"[1, 2]", b'"txt"', b"null", bytes(rng.randrange(256) for _ in range(rng.randint(1, 6)))])
    reply = ["ok", list(data)] if r < 0.6 else ["exc", list(data)] if r < 0.85 else ["raise", rng.randrange(len(EXC_CLASSES))]
    return {"ns_ok": rng.random() < 0.96, "registry": registry, "meta": meta, "meta_exc": rng.randrange(4), "reply": reply}   # metadata retrieval fails with a PyroError class


def gen_qs(rng, key, force=None):
    """-> query string; mixes ordinary parameters with $key absent / wrong / right / repeated"""
    items = []
    for _ in range(rng.choice([0, 0, 1, 1, 2, 3, 5])):
        k = rng.choice(["a", "b", "msg", "x y", "é", "n", "a", "$meta", "kwargs", "args", "name", "self" if rng.random() < 0.15 else "m"])
        v = rng.choice(["1", "hello", "", "a b", "ü", "x&y", "=", "42", "%"])
        items.append((k, v))
    right = right_key_text(key)
    mode = force or rng.choice(["none", "none", "none", "none", "none", "right", "right", "wrong", "twice", "twice-right", "blank", "prefix"])
    if mode == "right":
        items.append(("$key", right if right is not None else "secret"))
    elif mode == "wrong":
        items.append(("$key", rng.choice(["nope", "Secret", "secret ", "secre", "s"])))
    elif mode == "twice":
        items.append(("$key", right if right is not None else "secret"))
        items.append(("$key", rng.choice(["x", right if right is not None else "secret"])))
    elif mode == "twice-right":
        items.append(("$key", right if right is not None else "secret"))
        items.insert(0, ("$key", right if right is not None else "secret"))
    elif mode == "blank":
        items.append(("$key", ""))
    elif mode == "prefix":
        items.append(("$key", (right or "secret")[:-1]))
    rng.shuffle(items)
    qs = urllib.parse.urlencode(items)
    if rng.random() < 0.06 and not force:
        qs = rng.choice(["&&", "a", "a=1;b=2", "=x", "a=1&&b=2", "$key", "a=%zz", qs + "&", "&" + qs])
    return qs, mode


def right_key_text(key):
    if not key:
        return None
    try:
        return bytes(key).decode("utf-8")
    except UnicodeDecodeError:
        return None


def gen_case(rng):
    pattern = rng.choice(PATTERNS)
    key = rng.choice(KEYS)
    friendly = rng.random() < 0.45          # mostly-valid stream: right key, exposed registered object, existing member
    if friendly:
        good = [n for n in NAMES if "\n" not in n and ((not pattern) or re.match(pattern, n))]
        obj = rng.choice(good) if good else rng.choice(NAMES)
        member = rng.choice(METHODS_POOL + METHODS_POOL + ATTRS_POOL + ["$meta", "nosuch"] + LOCAL_VOID)
    else:
        obj = rng.choice(NAMES + ["nosuch.obj", "http.missing", "http.OBJ", "ttp.obj", "http.ob", "x", "http.obj/", "a\nb", "http.x\ny"])
        member = rng.choice(METHODS_POOL + ATTRS_POOL + ["$meta", "$meta", "nosuch", "Echo", "ech", "echo2", "$key", "a.b", "echo\nx", "$META", "fire"]
                            + LOCAL_VOID + LOCAL_VOID + LOCAL_OTHER)
    shape = rng.random()
    lead = rng.choice(["/", "/", "/", "", "//"])
    if friendly or shape < 0.70:
        path = lead + "pyro/" + obj + "/" + member + ("" if friendly else rng.choice(["", "", "", "", "/", "\nzz", "/" + rng.choice(METHODS_POOL)]))
    elif shape < 0.78:
        path = lead + "pyro/" + rng.choice(["", "", obj, obj + "/", "/" + member, "/", "//", member])
    elif shape < 0.85:
        path = lead + rng.choice(["", "pyro", "Pyro/" + obj + "/" + member, "pyrox/" + obj + "/" + member, "other/x/y", "favicon.ico",
                                  "pyro\n/" + obj + "/" + member, " pyro/" + obj + "/" + member])
    else:
        segs = [rng.choice([obj, member, "", "http.obj", "x", "%2F", "http.o", "b"]) for _ in range(rng.randint(0, 4))]
        path = lead + "pyro/" + "/".join(segs)
    if friendly or rng.random() < 0.6:
        method = rng.choice(["GET", "GET", "POST"])
    else:
        method = rng.choice(["OPTIONS", "HEAD", "PUT", "DELETE", "get", None, "", "OPTION", "GETX", "GET", "POST"])
    right = right_key_text(key)
    qs, kmode = gen_qs(rng, key, force=("right" if (friendly and rng.random() < 0.5) else None))
    if friendly and kmode != "right":
        hmode = rng.choice(["right", "right", "right", "right", "none", "wrong"])
    else:
        hmode = rng.choice(["none", "none", "none", "none", "right", "wrong", "prefix", "case", "space"])
    keyhdr = {"none": "", "right": right if right is not None else "secret", "wrong": "nope",
              "prefix": (right or "secret")[:-1], "case": (right or "secret").upper(), "space": (right or "secret") + " "}[hmode]
    options = rng.choice(["", "", "", "", "", "", "oneway", "oneway", "oneway,x", "x,oneway", " oneway", "Oneway", "onewayx", "one,way", ",", "x"])
    corr = rng.choice([None, None, None, None, None, None, "11112222-1111-2222-3333-222244449999", "{11112222-1111-2222-3333-222244449999}",
                       "zzz", "1111", "11112222111122223333222244449999"])
    tgt = spec_target(path)
    be = gen_backend(rng, tgt[0] if tgt else None, tgt[1] if tgt else None, friendly)
    return {"cfg": {"key": key, "pattern": pattern},
            "rq": {"method": method, "path": path, "qs": qs, "keyhdr": keyhdr, "options": options, "corr": corr},
            "be": be}


def base_case(**over):
    c = {"cfg": {"key": list(b"secret"), "pattern": r"http\."},
         "rq": {"method": "GET", "path": "/pyro/http.obj/echo", "qs": "msg=hi", "keyhdr": "", "options": "", "corr": None},
         "be": {"ns_ok": True, "registry": [["http.obj", uri_for(0)], ["Pyro.NameServer", uri_for(8)], ["http.obj2", uri_for(1)]],
                "meta": {"methods": ["echo", "fire"], "attrs": ["value"], "oneway": ["fire"]}, "meta_exc": 0,
                "reply": ["ok", list(b'{"r": 17}')]}}
    for k, v in over.items():
        a, b = k.split("__")
        c[a][b] = v
    return c


WITNESS_MULTI_KEY = base_case(rq__qs="$key=secret&$key=secret&msg=hi")
WITNESS_PROXY_LOCAL = base_case(rq__path="/pyro/http.obj/_pyroRelease", rq__qs="", rq__keyhdr="secret")


def targeted():
    out = [WITNESS_MULTI_KEY, WITNESS_PROXY_LOCAL, base_case(cfg__key=None, rq__qs="self=1"), base_case(cfg__key=None, rq__qs="self=1&self=2&a=b", rq__method="POST")]
    for hdr, qs in [("", "msg=hi"), ("secret", "msg=hi"), ("", "$key=secret&msg=hi"), ("nope", "$key=secret&msg=hi"),
                    ("secret", "$key=nope&msg=hi"), ("", "$key=&msg=hi"), ("", "$key=secre"), ("secret", "$key=a&$key=b"),
                    ("", "$key=secret&$key=x"), ("", "$key=x&$key=secret")]:
        for path in ["/pyro/http.obj/echo", "/pyro/Pyro.NameServer/list", "/pyro/http.obj/$meta", "/pyro/", "/pyro/http.obj/value"]:
            out.append(base_case(rq__keyhdr=hdr, rq__qs=qs, rq__path=path))
    for key in [None, [], list(b"k")]:
        for path in ["/pyro/http.obj/echo", "/pyro/xhttp.obj/echo", "/pyro/Http.obj/echo", "/pyro/http/echo", "/pyro/http.obj2/echo",
                     "/pyro/http.obj/echo/", "/pyro/http.obj", "/pyro/http.obj/", "/pyro//echo", "/pyro/http.obj/fire", "/pyro/http.obj/__class__"]:
            for m in ["GET", "POST", "OPTIONS", "PUT"]:
                out.append(base_case(cfg__key=key, rq__path=path, rq__method=m, rq__qs="a=1&a=2&b=3&$key=zz"))
    for name in LOCAL_VOID + LOCAL_OTHER:
        out.append(base_case(cfg__key=None, rq__path="/pyro/http.obj/" + name, rq__qs=""))
    out.append(base_case(cfg__key=None, rq__path="/pyro/http.obj/__class__", rq__qs="uri=PYRO:other@127.0.0.1:1"))
    out.append(base_case(cfg__key=None, rq__path="/pyro/http.obj/_pyroInvoke", rq__qs="methodname=shutdown&vargs=x&kwargs=y&objectId=Pyro.Daemon"))
    return out


def probe_quirks(res=None):
    """replay the two recorded witnesses to learn which variant of the model the tree matches"""
    q = {"multi_key_crash": False, "proxy_local": False}
    o1 = run_impl(WITNESS_MULTI_KEY)
    q["multi_key_crash"] = o1["crash"] is not None
    o2 = run_impl(WITNESS_PROXY_LOCAL)
    q["proxy_local"] = any(e[0] == "localattr" for e in o2["log"])
    return q


def nontrivial(case, obs):
    return bool(obs["log"]) or obs.get("status") == 403


def short_obs(obs):
    o = dict(obs)
    if isinstance(o.get("body"), (bytes, bytearray)):
        o["body"] = o["body"][:120].decode("latin-1")
    o.pop("headers", None)
    return o


def execute(ctx, cases, model_ok, res, quirks):
    lits, kept = [], []
    for case in cases:
        obs = run_impl(case)
        res.seen(case, nontrivial(case, obs))
        tgt = spec_target(case["rq"]["path"])
        kindk = "index" if case["rq"]["path"].lstrip("/") == "pyro/" else ("call" if tgt else "other")
        res.count("%s:%s" % (kindk, obs.get("status", "crash")))
        res.count("key_%s" % ("configured" if key_configured(case["cfg"]) else "off"))
        if any(e[0] in ("invoke",) for e in obs["log"]):
            res.count("forwarded_calls")
        for sig, what in oracle(case, obs):
            res.violations.append({"signature": sig, "what": what, "case": case})
        try:
            out_lit, acts = canon(case, obs)
        except NotInVocabulary as x:
            res.mismatches.append({"component": "C20", "case": case, "impl": short_obs(obs), "model": "outside the model's vocabulary: %s" % x})
            continue
        lits.append(c_case(case, quirks, out_lit, acts))
        kept.append((case, obs))
    if model_ok:
        for idx in vlib.run_cases(ctx, "c", IMPORTS, "case", "check_case", lits, timeout=3000):
            case, obs = kept[idx]
            res.mismatches.append({"component": "C20", "case": case, "impl": short_obs(obs)})
    return res


def all_cases(ctx):
    n = ctx.n(3000, 30000)
    return vlib.load_corpus(PROP) + targeted() + [gen_case(ctx.rng) for _ in range(n)]


def run(ctx, model_ok=True):
    res = vlib.Result()
    quirks = probe_quirks()
    res.quirks = dict(quirks)
    cases = all_cases(ctx)
    execute(ctx, cases, model_ok, res, quirks)
    res.rule = ("seeded random WSGI requests: methods GET/POST/OPTIONS/other/absent, paths with 0-4 segments, slashes inside object names, "
                "newlines, names differing from exposed names by prefix/suffix/case, members from the metadata / $meta / unknown / proxy-local, "
                "query strings with repeated keys, blanks, $key absent/right/wrong/repeated, key header right/wrong/near-miss, 11 patterns x 9 key "
                "settings, oneway option spellings, correlation ids; scripted backend (name server down, unknown name, metadata failure, "
                "ok/exception/raising reply); plus a targeted grid around the key check. non-trivial = backend traffic happened or 403 answered")
    res.samples = cases[-3:] + cases[:2]
    return res


def search(ctx, broken):
    res = vlib.Result()
    cases = [b["case"] for b in broken if b.get("case")] + all_cases(ctx)
    for case in cases:
        obs = run_impl(case)
        res.seen(case)
        for sig, what in oracle(case, obs):
            res.violations.append({"signature": sig, "what": what, "case": case})
    return res


def replay(ctx, case):
    obs = run_impl(case)
    bad = oracle(case, obs)
    if bad:
        return True, {"oracle": bad, "impl": short_obs(obs)}
    res = vlib.Result()
    execute(ctx, [case], True, res, probe_quirks())
    if res.mismatches:
        model = ""
        try:
            out_lit, acts = canon(case, obs)
            model = vlib.eval_model(ctx, IMPORTS, "model_run (%s)" % c_case(case, probe_quirks(), out_lit, acts))[-1500:]
        except NotInVocabulary as x:
            model = str(x)
        return True, {"mismatch": True, "impl": short_obs(obs), "model": model}
    return False, {"impl": short_obs(obs)}
