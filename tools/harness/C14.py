"""C14 — the name server is a faithful map, identical on both storage back-ends.

Histories of register / remove / set_metadata / lookup / list / yplookup / count are run on a real
NameServer(MemoryStorage) and a real NameServer(SqlStorage(file)) in lock-step with a reference map
(the property stated directly in python = the oracle) and with Model/NameServer.v (run inside Coq).
`sqlite3.connect` as seen by Pyro5.nameserver is wrapped so that the k-th statement of an operation
raises sqlite3.OperationalError (failure injection), statements are counted, and every connection is
closed after each operation (so each operation sees only what is in the database file)."""
import os, re, shutil, sqlite3, tempfile, types
from tools.lib import vlib
from tools.lib.vlib import cN, cnat, cbool, clist, copt, ctext

PROP = "C14"
GEN = ["GenNameServer"]
ASSUMPTIONS = [
    "python's re is an oracle: a regex argument carries the list of names it matches (computed with the real re.match)",
    "sqlite transactions are atomic and durable (a failed transaction is rolled back); =, substr/length, LIKE, IN, GROUP BY/HAVING COUNT have their documented semantics; names contain no NUL",
    "dict / set iteration order and row order are not observations: answers are compared as sorted lists",
    "empty prefix / regex / tag-list arguments mean 'not given' (the API's convention); URIs are valid and print as registered (C19's concern)",
]
IMPORTS = "From V Require Import Model.Bytes Model.NameServer Harness.Cmp Harness.H14."
NSNAME = "Pyro.NameServer"


# ---------------------------------------------------------------- sqlite wrapper (failure injection)
class Injector:
    def __init__(self):
        self.count = 0
        self.fail_at = None
        self.fired = False
        self.conns = []
        self.log = []

    def arm(self, k):
        self.count, self.fail_at, self.fired, self.log = 0, k, False, []

    def tick(self, what):
        if self.fail_at is not None and not self.fired and self.count == self.fail_at:
            self.fired = True
            raise sqlite3.OperationalError("injected failure at statement %d (%s)" % (self.count, what[:30]))
        self.count += 1
        self.log.append(what[:40])

    def close_all(self):
        for c in self.conns:
            try:
                c.close()
            except Exception:
                pass
        self.conns = []


class CurProxy:
    def __init__(self, real, inj):
        self._real, self._inj = real, inj

    def execute(self, sql, params=()):
        self._inj.tick(sql)
        self._real.execute(sql, params)
        return self

    def __getattr__(self, name):
        return getattr(self._real, name)


class ConnProxy:
    def __init__(self, real, inj):
        self._real, self._inj = real, inj

    def execute(self, sql, params=()):
        self._inj.tick(sql)
        return self._real.execute(sql, params)

    def cursor(self):
        return CurProxy(self._real.cursor(), self._inj)

    def commit(self):
        self._inj.tick("COMMIT")
        self._real.commit()

    def __enter__(self):
        self._real.__enter__()
        return self

    def __exit__(self, *a):
        return self._real.__exit__(*a)

    def __getattr__(self, name):
        return getattr(self._real, name)


def make_shim(inj):
    shim = types.SimpleNamespace(**{k: getattr(sqlite3, k) for k in dir(sqlite3) if not k.startswith("__")})

    def connect(*a, **kw):
        real = sqlite3.connect(*a, **kw)
        try:
            real.execute("PRAGMA synchronous=OFF")      # speed only; not a counted statement
        except sqlite3.Error:
            pass
        inj.conns.append(real)
        return ConnProxy(real, inj)
    shim.connect = connect
    return shim


class Backends:
    """one memory and one sqlite name server, the latter on a fresh file"""
    def __init__(self, workdir, tag):
        from Pyro5 import nameserver as N
        self.N = N
        self.inj = Injector()
        self.old = N.sqlite3
        N.sqlite3 = make_shim(self.inj)
        self.dbfile = os.path.join(workdir, "ns_%s.db" % tag)
        for p in (self.dbfile, self.dbfile + "-journal"):
            if os.path.exists(p):
                os.remove(p)
        self.mem = N.NameServer(N.MemoryStorage())
        self.sql = N.NameServer(N.SqlStorage(self.dbfile))
        self.inj.close_all()

    def reopen(self):
        self.inj.close_all()
        self.inj.arm(None)
        self.sql = self.N.NameServer(self.N.SqlStorage(self.dbfile))
        self.inj.close_all()

    def close(self):
        self.inj.close_all()
        self.N.sqlite3 = self.old
        for p in (self.dbfile, self.dbfile + "-journal"):
            try:
                os.remove(p)
            except OSError:
                pass


# ---------------------------------------------------------------- running one operation
def canon_tags(m):
    return None if m is None else sorted(m)


def canon_dict(d, wm):
    out = []
    for name, v in d.items():
        if wm:
            uri, meta = v
            out.append([name, str(uri), sorted(meta or [])])
        else:
            out.append([name, str(v), None])
    out.sort(key=lambda e: e[0])
    return ["dict", out]


def call(ns, op):
    """run op on a real NameServer; canonical observation"""
    from Pyro5 import errors
    k = op["k"]
    try:
        if k == "register":
            r = ns.register(op["name"], op["uri"], safe=op["safe"], metadata=op["meta"])
            return ["ok"] if r is None else ["internal", "returned %r" % (r,)]
        if k == "set_metadata":
            r = ns.set_metadata(op["name"], op["meta"])
            return ["ok"] if r is None else ["internal", "returned %r" % (r,)]
        if k == "remove":
            r = ns.remove(name=op["name"], prefix=op["prefix"], regex=op["regex"])
            return ["count", r] if isinstance(r, int) and r >= 0 else ["internal", "returned %r" % (r,)]
        if k == "lookup":
            r = ns.lookup(op["name"], return_metadata=op["wm"])
            if op["wm"]:
                return ["uri", str(r[0]), sorted(r[1])]
            return ["uri", str(r), None]
        if k == "list":
            return canon_dict(ns.list(prefix=op["prefix"], regex=op["regex"], return_metadata=op["wm"]), op["wm"])
        if k == "yplookup":
            return canon_dict(ns.yplookup(meta_all=op["all"], meta_any=op["any"], return_metadata=op["wm"]), op["wm"])
        if k == "count":
            r = ns.count()
            return ["count", r] if isinstance(r, int) and r >= 0 else ["internal", "returned %r" % (r,)]
        raise AssertionError(k)
    except errors.NamingError as x:
        # the wording of the message is incidental.  A storage failure is a NamingError raised while handling a
        # sqlite3 error; every other NamingError is the operation's own refusal (which one follows from the
        # operation: register -> already registered, lookup/set_metadata -> unknown name, list/remove -> bad regex)
        seen, e = set(), x
        while e is not None and id(e) not in seen:
            seen.add(id(e))
            if isinstance(e, sqlite3.Error):
                return ["storage"]
            e = e.__cause__ or e.__context__
        return ["naming"]
    except ValueError:
        return ["value"]
    except Exception as x:
        return ["internal", "%s: %s" % (type(x).__name__, str(x)[:60])]


def probe(ns):
    """full listing with metadata (not an operation of the history: no injection, not counted)"""
    try:
        return canon_dict(ns.list(return_metadata=True), True)
    except Exception as x:
        return ["internal", "listing failed: %s: %s" % (type(x).__name__, str(x)[:60])]


# ---------------------------------------------------------------- the reference map (oracle)
def truthy(x):
    return x if x else None


def universe(history):
    names = {NSNAME}
    for st in history["steps"]:
        if st["op"]["k"] == "register":
            names.add(st["op"]["name"])
    return sorted(names)


def rx_matches(rx, uni):
    """None if the regex does not compile, else the names of the universe it matches (re.match)"""
    try:
        c = re.compile(rx)
    except re.error:
        return None
    return [n for n in uni if c.match(n)]


def ref_view(ref, names, wm):
    return ["dict", [[n, ref[n][0], sorted(ref[n][1]) if wm else None] for n in sorted(names)]]


def ref_step(ref, op, uni):
    """the property: a simple map name -> (uri, set of tags). returns (new map, answer)"""
    k = op["k"]
    if k == "register":
        if op["safe"] and op["name"] in ref:
            return ref, ["naming"]
        new = dict(ref)
        new[op["name"]] = (op["uri"], frozenset(op["meta"] or ()))
        return new, ["ok"]
    if k == "set_metadata":
        if op["name"] not in ref:
            return ref, ["naming"]
        new = dict(ref)
        new[op["name"]] = (ref[op["name"]][0], frozenset(op["meta"] or ()))
        return new, ["ok"]
    if k == "lookup":
        if op["name"] not in ref:
            return ref, ["naming"]
        u, m = ref[op["name"]]
        return ref, ["uri", u, sorted(m) if op["wm"] else None]
    if k == "count":
        return ref, ["count", len(ref)]
    if k == "remove":
        n = op["name"]
        if n is not None and n in ref and n != NSNAME:
            new = dict(ref)
            del new[n]
            return new, ["count", 1]
        if truthy(op["prefix"]):
            victims = [x for x in ref if x.startswith(op["prefix"]) and x != NSNAME]
        elif truthy(op["regex"]):
            m = rx_matches(op["regex"], uni)
            if m is None:
                return ref, ["naming"]
            victims = [x for x in ref if x in m and x != NSNAME]
        else:
            return ref, ["count", 0]
        new = {x: v for x, v in ref.items() if x not in victims}
        return new, ["count", len(victims)]
    if k == "list":
        if truthy(op["prefix"]) and truthy(op["regex"]):
            return ref, ["value"]
        if truthy(op["prefix"]):
            return ref, ref_view(ref, [x for x in ref if x.startswith(op["prefix"])], op["wm"])
        if truthy(op["regex"]):
            m = rx_matches(op["regex"], uni)
            if m is None:
                return ref, ["naming"]
            return ref, ref_view(ref, [x for x in ref if x in m], op["wm"])
        return ref, ref_view(ref, list(ref), op["wm"])
    if k == "yplookup":
        if truthy(op["all"]) and truthy(op["any"]):
            return ref, ["value"]
        if truthy(op["all"]):
            want = frozenset(op["all"])
            return ref, ref_view(ref, [x for x in ref if want <= ref[x][1]], op["wm"])
        if truthy(op["any"]):
            want = frozenset(op["any"])
            return ref, ref_view(ref, [x for x in ref if want & ref[x][1]], op["wm"])
        return ref, ["dict", []]
    raise AssertionError(k)


def ref_state(ref):
    return ref_view(ref, list(ref), True)


# ---------------------------------------------------------------- running a history on the implementation
def run_impl(history, workdir, tag="c"):
    """returns (observations per step, first violation or None)"""
    uni = universe(history)
    be = Backends(workdir, tag)
    obs, violation = [], None
    ref = {}
    try:
        for idx, st in enumerate(history["steps"]):
            op = st["op"]
            o = {"reopened": False}
            if st.get("reopen"):
                be.reopen()
                o["reopened"] = True
                after_reopen = probe(be.sql)
                be.inj.close_all()
                if violation is None and after_reopen != ref_state(ref):
                    violation = (idx, "reopen-differs", "after reopening the database file the sqlite back-end lists %s, the map is %s" % (short(after_reopen), short(ref_state(ref))))
            before_n = len(ref)
            be.inj.arm(st.get("fail"))
            o["sql"] = call(be.sql, op)
            o["nst"] = be.inj.count
            o["fired"] = be.inj.fired
            be.inj.arm(None)
            be.inj.close_all()
            o["sql_state"] = probe(be.sql)
            be.inj.close_all()
            extra = None
            if op["k"] in ("register", "remove", "set_metadata"):
                extra = side_probes(be, op, ref, o["sql_state"], fresh=(op["k"] != "register" or idx % 2 == 0))
            failed = o["sql"] == ["storage"]
            if failed:
                o["mem"] = None
            else:
                o["mem"] = call(be.mem, op)
            o["mem_state"] = probe(be.mem)
            obs.append(o)
            if violation is None:
                new_ref, exp = ref_step(ref, op, uni)
                v = judge(op, st.get("fail"), o, ref, new_ref, exp, before_n)
                if v is None and extra:
                    v = extra
                if v:
                    violation = (idx,) + v
                if not failed:
                    ref = new_ref
    finally:
        be.close()
    return obs, violation


def side_probes(be, op, ref, listing, fresh=True):
    """per-storage-object caches: (a) a freshly opened SqlStorage on the same file must list what the long-lived
    object lists; (b) lookup() on the long-lived object must agree with its own listing for the names the
    operation could have touched.  Not operations of the history (no injection, not counted)."""
    if listing[0] != "dict":
        return None
    fl = listing
    if fresh:
        try:
            fl = probe(be.N.NameServer(be.N.SqlStorage(be.dbfile)))
        finally:
            be.inj.close_all()
    if fl != listing:
        return ("fresh-storage-differs:" + op["k"], "after %s the long-lived SqlStorage lists %s but a freshly opened one on the same file lists %s" % (short(op), short(listing), short(fl)))
    have = {e[0]: e for e in listing[1]}
    names = []
    if op.get("name") is not None:
        names.append(op["name"])
    names += [n for n in sorted(ref) if n not in have][:2]        # entries that just disappeared
    for n in names[:3]:
        got = call(be.sql, {"k": "lookup", "name": n, "wm": True})
        be.inj.close_all()
        want = ["uri", have[n][1], have[n][2]] if n in have else ["naming"]
        if got != want:
            return ("lookup-differs-from-listing:" + op["k"], "after %s lookup(%r) on the sqlite back-end answers %s but its listing says %s" % (short(op), n, short(got), short(want)))
    return None


def short(o):
    s = repr(o)
    return s if len(s) < 300 else s[:300] + "..."


def judge(op, fail, o, ref, new_ref, exp, before_n):
    """the property over one step's observations. returns (signature, sentence) or None"""
    k = op["k"]
    old_state, new_state = ref_state(ref), ref_state(new_ref)
    if o["fired"] or o["sql"] == ["storage"]:
        if not o["fired"]:
            return ("unexpected-storage-error", "%s raised a storage error although no failure was injected" % k)
        if o["sql"] != ["storage"]:
            return ("failure-swallowed:" + k, "statement %s of %s failed but the operation answered %s instead of raising NamingError" % (fail, k, short(o["sql"])))
        if o["sql_state"] != old_state:
            return ("failure-not-atomic:" + k, "statement %s of %s failed, the operation raised, but the database changed: %s instead of %s" % (fail, k, short(o["sql_state"]), short(old_state)))
        return None
    for be in ("mem", "sql"):
        ans, state = o[be], o[be + "_state"]
        if NSNAME in ref and k == "remove" and (state[0] != "dict" or all(e[0] != NSNAME for e in state[1])):
            return ("ns-entry-removed", "remove(%s) on the %s back-end removed the name server's own entry" % (short(op), be))
    for be in ("mem", "sql"):
        ans, state = o[be], o[be + "_state"]
        if ans == exp and state == new_state:
            continue
        # classes of the defects already known (DESIGN section 7 row 5)
        other = "sql" if be == "mem" else "mem"
        other_ok = o[other] == exp and o[other + "_state"] == new_state
        if k == "remove" and op["name"] == "" and "" in ref:
            return ("remove-empty-name", "remove(%s) with '' registered: the %s back-end answers %s and leaves %s; a map removes '' and answers 1" % (short(op), be, short(ans), short(state)))
        by_name = k == "remove" and op["name"] is not None and op["name"] in ref and op["name"] != NSNAME
        if be == "sql" and other_ok and k in ("list", "remove") and truthy(op.get("prefix")) and not by_name:
            return ("sql-prefix-not-literal", "sqlite back-end, %s with prefix %r: answered %s, the map says %s (state %s)" % (k, op["prefix"], short(ans), short(exp), short(state)))
        if be == "sql" and other_ok and k == "yplookup" and truthy(op.get("all")) and len(set(op["all"])) != len(op["all"]):
            return ("sql-meta-all-duplicates", "sqlite back-end, yplookup(meta_all=%r) answered %s, the map says %s" % (op["all"], short(ans), short(exp)))
        if k == "remove" and ans[0] == "count" and state[0] == "dict" and ans[1] != before_n - len(state[1]):
            return ("removal-count-wrong:" + be, "remove(%s) on %s answered %d but %d entries disappeared" % (short(op), be, ans[1], before_n - len(state[1])))
        if ans != exp:
            return ("answer-differs:%s:%s" % (be, k), "%s on the %s back-end answered %s, a map answers %s" % (short(op), be, short(ans), short(exp)))
        return ("state-differs:%s:%s" % (be, k), "after %s the %s back-end holds %s, a map holds %s" % (short(op), be, short(state), short(new_state)))
    return None


# ---------------------------------------------------------------- serialisation (same as Harness/H14.v) and Gallina printers
def ck_ints(xs):
    acc = 0
    for x in xs:
        acc = ((acc << 8) + acc + x + 1) & 1099511627775
    return (len(xs), acc)


def ser_text(s):
    return [len(s)] + [ord(c) for c in s]


def ser_tags(m):
    if m is None:
        return [0]
    out = [1, len(m)]
    for t in sorted(m):
        out += ser_text(t)
    return out


def ser_obs(o):
    k = o[0]
    if k == "ok":
        return [1]
    if k == "count":
        return [2, o[1]]
    if k == "uri":
        return [3] + ser_text(o[1]) + ser_tags(o[2])
    if k == "dict":
        out = [4, len(o[1])]
        for name, uri, tags in sorted(o[1], key=lambda e: e[0]):
            out += ser_text(name) + ser_text(uri) + ser_tags(tags)
        return out
    if k == "naming":
        return [5]
    if k == "value":
        return [6]
    if k == "storage":
        return [7]
    return [8]


def c_ck(o):
    ln, h = ck_ints(ser_obs(o))
    return "(%s, %s)" % (cN(ln), cN(h))


def c_otext(s):
    return copt(s, ctext)


def c_tags(m):
    return copt(m, lambda l: clist([ctext(t) for t in l]))


def c_rx(rx, uni):
    if rx is None:
        return "None"
    m = rx_matches(rx, uni)
    return "(Some (Rx %s %s))" % (ctext(rx), copt(m, lambda l: clist([ctext(n) for n in l])))


def c_op(op, uni):
    k = op["k"]
    if k == "register":
        return "OpRegister %s %s %s %s" % (ctext(op["name"]), ctext(op["uri"]), cbool(op["safe"]), c_tags(op["meta"]))
    if k == "set_metadata":
        return "OpSetMeta %s %s" % (ctext(op["name"]), c_tags(op["meta"]))
    if k == "remove":
        return "OpRemove %s %s %s" % (c_otext(op["name"]), c_otext(op["prefix"]), c_rx(op["regex"], uni))
    if k == "lookup":
        return "OpLookup %s %s" % (ctext(op["name"]), cbool(op["wm"]))
    if k == "list":
        return "OpList %s %s %s" % (c_otext(op["prefix"]), c_rx(op["regex"], uni), cbool(op["wm"]))
    if k == "yplookup":
        return "OpYp %s %s %s" % (c_tags(op["all"]), c_tags(op["any"]), cbool(op["wm"]))
    return "OpCount"


def c_quirks(q):
    return "{| q_sql_like_prefix := %s; q_sql_meta_all_dups := %s; q_remove_empty_name := %s |}" % (
        cbool(q["like"]), cbool(q["dups"]), cbool(q["empty"]))


def c_case(history, obs, q):
    uni = universe(history)
    steps = []
    for st, o in zip(history["steps"], obs):
        steps.append("{| s_op := %s; s_fired := %s; s_sql := %s; s_sql_state := %s; s_mem := %s; s_mem_state := %s |}" % (
            c_op(st["op"], uni), cbool(o["fired"]), c_ck(o["sql"]), c_ck(o["sql_state"]),
            copt(o["mem"], c_ck), c_ck(o["mem_state"])))
    return "{| c_q := %s; c_steps := %s |}" % (c_quirks(q), clist(steps))


# ---------------------------------------------------------------- quirk probes (which variant of the model is the code?)
def probe_quirks(workdir):
    h_like = {"steps": [{"op": reg("abc")}, {"op": {"k": "list", "prefix": "A", "regex": None, "wm": False}}]}
    h_dups = {"steps": [{"op": reg("x", meta=["t"])}, {"op": {"k": "yplookup", "all": ["t", "t"], "any": None, "wm": False}}]}
    h_empty = {"steps": [{"op": reg("")}, {"op": {"k": "remove", "name": "", "prefix": None, "regex": None}}]}
    q = {}
    obs, _ = run_impl(h_like, workdir, "q")
    q["like"] = obs[1]["sql"] == ["dict", [["abc", URIS[0], None]]]
    obs, _ = run_impl(h_dups, workdir, "q")
    q["dups"] = obs[1]["sql"] == ["dict", []]
    obs, _ = run_impl(h_empty, workdir, "q")
    q["empty"] = obs[1]["mem"] == ["count", 0]
    return q


# ---------------------------------------------------------------- generator
URIS = ["PYRO:o1@h:1", "PYRO:o2@h:2", "PYRO:Obj@host.x:9090", "PYRO:o1@H:1"]
NAME_POOL = ["abc", "Abc", "ABC", "abd", "ab", "a", "A", "a%c", "a_c", "axc", "a%", "a_", "%", "_", "%%", "", "a.c", "a*c", "a+c", "(a",
             "[a]", "a\\c", "a|b", "^a", "a$", "ä", "Ä", "äb", "Äb", "éa", "日本", "日", "abc.def", "abc.DEF", "ABC.def", "abc_def",
             "abc%def", NSNAME, "pyro.nameserver", "PYRO.NAMESERVER", "Pyro.", "Pyro.NameServer2", "Pyro_NameServer", "Pyro%",
             "P", "p", " ", "a b", "'", "a'b", '"', "a;b", "--", "\t", "ß", "ǅ", "İ", "ı", "K", "K", "\U0001F600"]
TAG_POOL = ["t", "T", "t1", "t2", "t%", "t_", "", "ü", "Ü", "class:a", "class:b", "%", "_", "'", "日"]
REGEX_POOL = ["a", "A", "a.c", "a.*", ".*", "", "abc$", "[aA]bc", "a\\.c", "(a", "[a", "a|b", "Pyro\\..*", "Pyro.*", ".", "..", "%", "_", "a%",
              "\\w+$", "(?i)abc", "ä", ".*c$", "a+", "*a", "x"]


def rx_piece(rng, names):
    """one alternative built from the names of the history: literal run, anchored, quantified head,
    optional group, character class"""
    n = rng.choice(names) or "a"
    cut = rng.randint(1, len(n))
    p = n[:cut]
    r = rng.random()
    if r < 0.28:
        return re.escape(p)
    if r < 0.42:
        return re.escape(n) + "$"
    if r < 0.52:
        return re.escape(p) + "?"                       # last character of the head optional
    if r < 0.58:
        return re.escape(p) + "*"
    if r < 0.66:
        return "(?:" + re.escape(p) + ")?" + re.escape(n[cut:cut + 1] or "x")   # optional group
    if r < 0.76:
        c = p[0]
        return "[" + re.escape(c.lower()) + re.escape(c.upper()) + "]" + re.escape(p[1:])   # character class
    if r < 0.82:
        return "^" + re.escape(p)
    if r < 0.88:
        return re.escape(p[:-1]) + "."
    if r < 0.94:
        return "(" + re.escape(p) + "|" + re.escape(rng.choice(names) or "x") + ")"
    return re.escape(p) + "{0}" + re.escape(rng.choice(names))


def gen_regex(rng, names):
    """a pattern whose set of matching names is in general NOT a prefix class: top-level alternation of 1..3 pieces"""
    k = rng.choice([1, 2, 2, 2, 3])
    return "|".join(rx_piece(rng, names) for _ in range(k))


def pick_regex(rng, names, base):
    r = rng.random()
    if r < 0.5:
        return gen_regex(rng, names)
    return rng.choice(REGEX_POOL + [re.escape(base)])


def reg(name, uri=None, safe=False, meta=None):
    return {"k": "register", "name": name, "uri": uri or URIS[0], "safe": safe, "meta": meta}


def variant(rng, s):
    """a string related to s: prefix, case flip, wildcard substitution"""
    if not s:
        return rng.choice(["", "a", "%", "_"])
    r = rng.random()
    cut = rng.randint(0, len(s))
    p = s[:cut]
    if r < 0.35:
        return p
    if r < 0.55:
        return p.swapcase()
    if r < 0.70 and p:
        i = rng.randrange(len(p))
        return p[:i] + rng.choice("_%") + p[i + 1:]
    if r < 0.8:
        return p + rng.choice(["%", "_", "a", "A"])
    if r < 0.9:
        return s
    return s.swapcase()


def gen_tags(rng, pool):
    r = rng.random()
    if r < 0.2:
        return None
    if r < 0.27:
        return []
    n = rng.choice([1, 1, 2, 2, 3, 4])
    tags = [rng.choice(pool) for _ in range(n)]
    if rng.random() < 0.15 and tags:
        tags.append(tags[0])      # duplicate
    return tags


def gen_history(rng, nops, fail_rate):
    names = rng.sample(NAME_POOL, rng.randint(3, 9))
    if rng.random() < 0.8 and NSNAME not in names:
        names.append(NSNAME)
    tags = rng.sample(TAG_POOL, rng.randint(2, 6))
    steps = []
    if NSNAME in names and rng.random() < 0.85:
        steps.append({"op": reg(NSNAME, URIS[2], False, ["class:ns"] if rng.random() < 0.5 else None)})
    registered = []
    for _ in range(nops):
        r = rng.random()
        name = rng.choice(names)
        if r < 0.30:
            op = reg(name, rng.choice(URIS), rng.random() < 0.3, gen_tags(rng, tags))
            registered.append(name)
        elif r < 0.48:
            mode = rng.random()
            base = rng.choice(registered or names)
            op = {"k": "remove", "name": None, "prefix": None, "regex": None}
            if mode < 0.4:
                op["name"] = rng.choice([base, base, name, variant(rng, base)])
            elif mode < 0.75:
                op["prefix"] = variant(rng, base)
            elif mode < 0.9:
                op["regex"] = pick_regex(rng, registered or names, base)
            else:   # combinations
                op["name"] = rng.choice([None, name, ""])
                op["prefix"] = rng.choice([None, "", variant(rng, base)])
                op["regex"] = rng.choice([None, "", pick_regex(rng, registered or names, base)])
        elif r < 0.56:
            op = {"k": "set_metadata", "name": rng.choice([name, rng.choice(registered or names)]), "meta": gen_tags(rng, tags)}
        elif r < 0.66:
            base = rng.choice(registered or names)
            op = {"k": "lookup", "name": rng.choice([base, base, name, base.swapcase()]), "wm": rng.random() < 0.6}
        elif r < 0.82:
            mode = rng.random()
            base = rng.choice(registered or names)
            op = {"k": "list", "prefix": None, "regex": None, "wm": rng.random() < 0.5}
            if mode < 0.55:
                op["prefix"] = variant(rng, base)
            elif mode < 0.8:
                op["regex"] = pick_regex(rng, registered or names, base)
            elif mode < 0.88:
                op["prefix"] = rng.choice(["", "a"])
                op["regex"] = rng.choice(["", "a"])
        elif r < 0.96:
            op = {"k": "yplookup", "all": None, "any": None, "wm": rng.random() < 0.5}
            t = gen_tags(rng, tags)
            mode = rng.random()
            if mode < 0.5:
                op["all"] = t
            elif mode < 0.92:
                op["any"] = t
            else:
                op["all"], op["any"] = t, gen_tags(rng, tags)
        else:
            op = {"k": "count"}
        st = {"op": op}
        if rng.random() < fail_rate:
            st["fail"] = rng.choice([0, 0, 1, 1, 2, 3, 4, 5, 6, 7, 8, 10, 13])
        if rng.random() < 0.12:
            st["reopen"] = True
        steps.append(st)
    return {"steps": steps}


def targeted():
    """every statement of every mutating operation as a failure point, on a small populated database;
    plus the witnesses of the known deviations"""
    setup = [{"op": reg(NSNAME, URIS[2], False, ["class:ns"])}, {"op": reg("abc", URIS[0], False, ["t1", "t2"])},
             {"op": reg("Abd", URIS[1], False, ["t1"])}, {"op": reg("a_c", URIS[1], False, None)}]
    muts = [reg("abc", URIS[1], False, ["t3", "t4", "t1"]), reg("new", URIS[1], True, ["t1", "t2"]), reg("abc", URIS[1], True, None),
            reg("new", URIS[1], False, None),
            {"k": "set_metadata", "name": "abc", "meta": ["x", "y"]}, {"k": "set_metadata", "name": "abc", "meta": None},
            {"k": "remove", "name": "abc", "prefix": None, "regex": None},
            {"k": "remove", "name": None, "prefix": "a", "regex": None},
            {"k": "remove", "name": None, "prefix": None, "regex": "[aA]b"},
            {"k": "remove", "name": NSNAME, "prefix": "Pyro", "regex": None},
            {"k": "remove", "name": None, "prefix": None, "regex": ".*"}]
    out = []
    for m in muts:
        for k in range(0, 16):
            out.append({"steps": setup + [{"op": m, "fail": k}, {"op": {"k": "list", "prefix": None, "regex": None, "wm": True}, "reopen": True}]})
    reads = [{"k": "lookup", "name": "abc", "wm": True}, {"k": "list", "prefix": "a", "regex": None, "wm": True},
             {"k": "list", "prefix": None, "regex": "a", "wm": True}, {"k": "yplookup", "all": ["t1"], "any": None, "wm": True},
             {"k": "yplookup", "all": None, "any": ["t1", "t2"], "wm": False}, {"k": "count"},
             {"k": "list", "prefix": None, "regex": None, "wm": True}]
    for m in reads:
        for k in range(0, 5):
            out.append({"steps": setup + [{"op": m, "fail": k}]})
    # regexes whose matching names are not a prefix class (alternation, optional pieces, classes, anchors)
    for rx in ["ab|A", "ab|Pyro", "a_|Abd$", "zzz|A|a_*c", "abc?|Ab", "ab*c|a_", "(?:ab)?A", "[aA]b", "a|", "abc$|^Abd|a_c", "x|ab|Pyro\\.Name"]:
        for wm in (False, True):
            out.append({"steps": setup + [{"op": {"k": "list", "prefix": None, "regex": rx, "wm": wm}}]})
        out.append({"steps": setup + [{"op": {"k": "remove", "name": None, "prefix": None, "regex": rx}},
                                      {"op": {"k": "list", "prefix": None, "regex": None, "wm": True}, "reopen": True}]})
    # known deviations
    out.append({"steps": setup + [{"op": {"k": "list", "prefix": "A", "regex": None, "wm": False}}]})
    out.append({"steps": setup + [{"op": {"k": "list", "prefix": "a_", "regex": None, "wm": True}}]})
    out.append({"steps": setup + [{"op": {"k": "remove", "name": None, "prefix": "A", "regex": None}}]})
    out.append({"steps": setup + [{"op": {"k": "remove", "name": None, "prefix": "%", "regex": None}}]})
    out.append({"steps": setup + [{"op": {"k": "yplookup", "all": ["t1", "t1"], "any": None, "wm": True}}]})
    out.append({"steps": [{"op": reg("")}, {"op": {"k": "remove", "name": "", "prefix": None, "regex": None}}, {"op": {"k": "count"}}]})
    return out


def gen_cases(ctx):
    rng = ctx.rng
    cases = []
    for _ in range(ctx.n(1250, 10000)):
        nops = rng.choice([1, 2, 3, 5, 8, 8, 12, 12, 20, 30, 40] if not ctx.quick else [1, 2, 3, 5, 8, 8, 12, 12, 16, 20, 30])
        cases.append(gen_history(rng, nops, rng.choice([0.0, 0.0, 0.1, 0.3])))
    if not ctx.quick:
        for _ in range(ctx.n(0, 100)):
            cases.append(gen_history(rng, rng.choice([100, 200]), 0.1))
    return cases


# ---------------------------------------------------------------- shrinking a violating history
def shrink(history, idx, sig, what, workdir):
    steps = list(history["steps"][:idx + 1])
    j = len(steps) - 2
    while j >= 0:
        cand = steps[:j] + steps[j + 1:]
        try:
            _, v = run_impl({"steps": cand}, workdir, "s")
        except Exception:
            v = None
        if v is not None and v[1] == sig:
            steps, what = cand, v[2]
        j -= 1
    # drop failure points / reopen marks that do not matter
    for j in range(len(steps)):
        for key in ("fail", "reopen"):
            if key in steps[j]:
                cand = [dict(st) for st in steps]
                del cand[j][key]
                try:
                    _, v = run_impl({"steps": cand}, workdir, "s")
                except Exception:
                    v = None
                if v is not None and v[1] == sig:
                    steps, what = cand, v[2]
    return {"steps": steps}, what


# ---------------------------------------------------------------- entry points
def execute(ctx, cases, model_ok, res, workdir, q, oracle_only=False):
    lits, kept = [], []
    sigs = set()
    for case in cases:
        obs, v = run_impl(case, workdir)
        nontrivial = len(case["steps"]) >= 3
        res.seen(case, nontrivial)
        res.count("ops_%s" % min(len(case["steps"]) // 5 * 5, 40))
        for st, o in zip(case["steps"], obs):
            res.count("op:" + st["op"]["k"])
            res.count("sql:" + o["sql"][0] + (":" + st["op"]["k"] if o["sql"][0] == "naming" else ""))
            if st.get("fail") is not None:
                res.count("fail_fired" if o["fired"] else "fail_beyond_end")
            if o["reopened"]:
                res.count("reopen")
        if v is not None:
            idx, sig, what = v
            if sig not in sigs:
                sigs.add(sig)
                small, what = shrink(case, idx, sig, what, workdir)
                res.violations.append({"signature": sig, "what": what, "case": small})
            else:
                res.count("violations_more:" + sig)
        if not oracle_only:
            lits.append(c_case(case, obs, q))
            kept.append((case, obs))
    if model_ok and not oracle_only:
        for i in vlib.run_cases(ctx, "c", IMPORTS, "case", "check_case", lits, shard=100):
            case, obs = kept[i]
            res.mismatches.append({"component": "C14", "case": case, "impl": [[o["sql"], o["nst"], o["mem"]] for o in obs][:12]})
    return res


def run(ctx, model_ok=True):
    res = vlib.Result()
    workdir = tempfile.mkdtemp(prefix="C14_")
    try:
        q = probe_quirks(workdir)
        res.quirks = {"q_sql_like_prefix": q["like"], "q_sql_meta_all_dups": q["dups"], "q_remove_empty_name": q["empty"]}
        from tools.gen import gen
        st = gen.regenerate(ctx.tree, only=["GenNameServer"])["GenNameServer"]
        if st["ok"]:
            info = st["info"]
            # informational only: the probes decide which variant of the model applies; the syntactic reading is a hint
            src = {"like": info["prefix_exact"], "dups": info["meta_all_dedup"], "empty": info["remove_name_is_not_none"]}
            diff = {k: (q[k], src[k]) for k in q if src[k] is not None and (not src[k]) != q[k]}
            if diff:
                ctx.notes.append("quirk probes and the extractor's syntactic reading differ (probe, source-says-fixed): %r" % (diff,))
        cases = vlib.load_corpus(PROP) + targeted() + gen_cases(ctx)
        execute(ctx, cases, model_ok, res, workdir, q)
        res.rule = ("seeded random histories of 1..40 operations (thorough: up to 200) over 3..9 names drawn from a pool with case pairs, "
                    "% and _, regex metacharacters, quotes, non-ASCII and the empty string; prefixes/regexes derived from the names; tags likewise; "
                    "10-30% of the steps of some histories carry a sqlite failure point (statement index 0..13), 12% a reopen; targeted: every "
                    "statement index 0..15 of 11 mutating operations and 0..4 of 7 reading operations; both back-ends, reference map and Coq model in lock-step; "
                    "non-trivial = at least three steps")
        res.samples = cases[-2:] + cases[:1]
    finally:
        shutil.rmtree(workdir, ignore_errors=True)
    return res


def search(ctx, broken):
    res = vlib.Result()
    workdir = tempfile.mkdtemp(prefix="C14_")
    try:
        cases = [b["case"] for b in broken if b.get("case")] + targeted() + gen_cases(ctx)
        execute(ctx, cases, False, res, workdir, None, oracle_only=True)
    finally:
        shutil.rmtree(workdir, ignore_errors=True)
    return res


def replay(ctx, case):
    workdir = tempfile.mkdtemp(prefix="C14_")
    try:
        obs, v = run_impl(case, workdir)
        impl = [[o["sql"], o["nst"], o["mem"]] for o in obs][-6:]
        if v is not None:
            return True, {"oracle": [v[1], v[2]], "step": v[0], "impl": impl}
        q = probe_quirks(workdir)
        res = vlib.Result()
        lit = c_case(case, obs, q)
        bad = vlib.run_cases(ctx, "r", IMPORTS, "case", "check_case", [lit])
        if bad:
            model = vlib.eval_model(ctx, IMPORTS, "model_diag (%s)" % lit)
            return True, {"mismatch": True, "impl": impl, "model": model[-1500:]}
        return False, {"impl": impl}
    finally:
        shutil.rmtree(workdir, ignore_errors=True)
