"""C10 — remote iterators: real Proxy/_StreamResultIterator <-> real Daemon over the in-process
loopback transport with a virtual clock, versus Model/Streams.v (DESIGN 6/C10).

A case is a configuration (ITER_STREAMING / ITER_STREAM_LIFETIME / ITER_STREAM_LINGER, or the
library defaults) and a list of client-level operations on a few proxies:

  ["open", p, how, items]   proxy p calls a remote method that returns an iterator over `items`
                            (how = gen | itr | lst | prop: generator, iterator class, list iterator,
                            exposed property); items = [["y", v] | ["r", e]]  (yield v / raise error e)
  ["next", h]               next() on the h-th client-side stream object
  ["nextf", h, kind]        next() while the transport fails in the middle of the call: kind = drop_request |
                            reset_before (the request never reaches the daemon) | drop_reply | reset_after |
                            cut_reply (the daemon handles it, the answer is lost)
  ["close", h]              .close() on it
  ["release", p]            p._pyroRelease()          (connection ends)
  ["relrace", p, k, inner]  p._pyroRelease() while another daemon thread acts in the middle of the daemon's disconnect
                            handling: at the k-th preemption point inside Daemon._clientDisconnect (every read of the
                            stream table and every time.time() call there) `inner` runs to completion:
                            ["close", s] = close_stream of the s-th stream (what the oneway thread does), ["hk"] = housekeeping
  ["reconnect", p]          p._pyroReconnect()        (connection ends, new connection)
  ["rawnext", p, s]         proxy p asks the daemon for the next item of the s-th opened stream by id
                            (a client that "comes back" over another connection); s = -1: unknown id
  ["rawclose", p, s]        likewise close_stream
  ["hk"]                    one Daemon._housekeeping() step
  ["tick", dt]              the virtual clock advances by dt (whole seconds)

After every operation the daemon's stream table is read (ordinal of the stream, owning connection,
creation and linger timestamps) and compared with the model's table; the responses are compared as
well.  The oracle states the property directly over the responses and the table contents.
"""
import json, threading, uuid
from tools.lib import vlib
from tools.lib.vlib import cN, cbool, clist

PROP = "C10"
GEN = ["GenStreams"]
ASSUMPTIONS = [
    "stream ids (uuid4) are unique and unguessable: the model numbers streams by order of creation, and histories only name ids that exist (or one id that never exists)",
    "each daemon operation (get_next_stream_item, close_stream, _clientDisconnect, _housekeeping) is an atomic step; races of the housekeeper thread inside a running get_next_stream_item are not modelled",
    "oneway close_stream calls are joined before the next step (the daemon runs them in a thread of their own), except in `relrace` steps, where a close_stream / housekeeping run is interleaved into Daemon._clientDisconnect at a chosen preemption point",
    "preemption points inside _clientDisconnect are the reads of the stream table and the time.time() calls, all schedulable, including the one between an entry's re-read and its write-back; where the other thread got in (which entry's window was open) is observed and given to the model",
    "proxies run with _pyroMaxRetries 0, 1 or 2: stream item fetches are not idempotent and must not be retried",
    "time is whole seconds on a virtual clock (time.time as seen by Pyro5.server); the clock never reads 0",
    "transport failures are injected in the middle of next() only (request lost / reply lost, then the proxy releases its connection); an item whose reply is lost in transit is gone (at-most-once), and the model says so; stale/delayed replies belong to C03",
    "fewer than 65535 calls per proxy in one history (the client's 16-bit sequence wrap is not modelled)",
]
IMPORTS = "From V Require Import Model.Streams Gen.GenStreams Harness.Cmp Harness.H10."
T0 = 1000
ERR_CLASSES = ["ValueError", "KeyError", "ZeroDivisionError", "RuntimeError"]
BOGUS = 999999
KNOWN_RACE = "closed-stream-relingered-in-reread-window"
REQ_LOST = ("drop_request", "reset_before")
REPLY_LOST = ("drop_reply", "reset_after", "cut_reply")


# ---------------------------------------------------------------- implementation runner
def _server_class():
    import Pyro5.api as api

    class StepIter(object):
        def __init__(self, items):
            self.items = list(items)
            self.pos = 0

        def __iter__(self):
            return self

        def __next__(self):
            if self.pos >= len(self.items):
                raise StopIteration
            kind, v = self.items[self.pos]
            self.pos += 1
            if kind == "r":
                raise make_exc(v)
            return code_value(v)

    def generator(items):
        for kind, v in items:
            if kind == "r":
                raise make_exc(v)
            yield code_value(v)

    @api.expose
    class Source(object):
        def __init__(self):
            self.pending = []

        def gen(self, items):
            return generator(items)

        def itr(self, items):
            return StepIter(items)

        def lst(self, items):
            return iter([code_value(v) for k, v in items if k == "y"])

        @property
        def prop(self):
            return generator(self.pending)

        def plain(self):
            return 42
    return Source


# Item values are opaque to the model (codes); on the wire they are Python values of every shape, in particular
# falsy values and values an implementation might plausibly (mis)use as an end-of-stream or error sentinel.
# (Ellipsis, NotImplemented and exception *classes* cannot be serialised by serpent and are left out.)
SPECIAL_BASE = 5000


def _specials():
    return [None, False, True, "", [], (), {}, 0.0, StopIteration(), StopIteration("x"), "StopIteration", GeneratorExit(),
            [None], -1, (None,), "None", {"a": None}, 1.5]


def value_key(v):
    return (type(v).__name__, repr(v))


SPECIAL_KEYS = {value_key(v): SPECIAL_BASE + i for i, v in enumerate(_specials())}
N_SPECIAL = len(SPECIAL_KEYS)


def code_value(code):
    """the Python value an item code stands for (a fresh object each time)"""
    return code if code < SPECIAL_BASE else _specials()[code - SPECIAL_BASE]


def value_code(v):
    """inverse of code_value on what the client received; None if it is not a value of the alphabet"""
    if isinstance(v, int) and not isinstance(v, bool) and 0 <= v < SPECIAL_BASE:
        return v
    return SPECIAL_KEYS.get(value_key(v))


def item_resp(v):
    c = value_code(v)
    return ["item", c] if c is not None else ["other:value:" + value_key(v)[0], 0]


def make_exc(e):
    import builtins
    return getattr(builtins, ERR_CLASSES[e % len(ERR_CLASSES)])(e)


def exc_code(x):
    """inverse of make_exc on the client side; None if it is not one of ours"""
    name = type(x).__name__
    if name in ERR_CLASSES and len(x.args) == 1 and isinstance(x.args[0], int) and not isinstance(x.args[0], bool):
        e = x.args[0]
        if e >= 0 and ERR_CLASSES[e % len(ERR_CLASSES)] == name:
            return e
    return None


def join_oneways():
    for t in threading.enumerate():
        if t.name == "oneway-call" and t is not threading.current_thread():
            t.join(5)


RACE = {"in_disc": 0, "armed": None, "count": 0, "k": 0, "open_key": None, "win": None}


def _race_point():
    """a preemption point inside Daemon._clientDisconnect: the pending inner action runs at the k-th one.  Where it
    ran is recorded: RACE["win"] = the entry whose window is open (re-read done, write-back not yet) at that moment."""
    if not RACE["in_disc"] or RACE["armed"] is None:
        return
    RACE["count"] += 1
    if RACE["count"] >= RACE["k"]:
        fn, RACE["armed"] = RACE["armed"], None
        RACE["win"] = RACE["open_key"]
        fn()


def _opened(k):
    if RACE["in_disc"]:
        RACE["open_key"] = k


class HookDict(dict):
    """the daemon's stream table with a preemption point before every read access; after a keyed read that entry's
    window is open until the next write to the table"""
    def get(self, k, *a):
        _race_point()
        v = dict.get(self, k, *a)
        _opened(k)
        return v

    def __getitem__(self, k):
        _race_point()
        v = dict.__getitem__(self, k)
        _opened(k)
        return v

    def __contains__(self, k):
        _race_point()
        v = dict.__contains__(self, k)
        _opened(k)
        return v

    def __iter__(self):
        _race_point()
        return dict.__iter__(self)

    def items(self):
        _race_point()
        return dict.items(self)

    def keys(self):
        _race_point()
        return dict.keys(self)

    def values(self):
        _race_point()
        return dict.values(self)

    def __setitem__(self, k, v):
        RACE["open_key"] = None
        dict.__setitem__(self, k, v)

    def __delitem__(self, k):
        RACE["open_key"] = None
        dict.__delitem__(self, k)

    def pop(self, k, *a):
        RACE["open_key"] = None
        return dict.pop(self, k, *a)


def _hook_clock():
    from tools.lib import loopback

    class HookClock(loopback.VirtualClock):
        def time(self):
            _race_point()
            return self.now
    return HookClock


def run_impl(case):
    """Run the real client and daemon. Returns {"cfg":…, "steps": [{"resp": [tag, val], "table": [[ord, owner, created, linger]…]}], "final_table": n}"""
    from tools.lib import loopback
    import Pyro5.api as api, Pyro5.errors as errors, Pyro5.core as core, Pyro5.client as client
    from Pyro5 import config
    saved = (config.ITER_STREAMING, config.ITER_STREAM_LIFETIME, config.ITER_STREAM_LINGER, config.MAX_RETRIES,
             config.SERIALIZER)
    cfg = case["cfg"]
    if cfg != "default":
        config.ITER_STREAMING = bool(cfg["streaming"])
        config.ITER_STREAM_LIFETIME = float(cfg["lifetime"])
        config.ITER_STREAM_LINGER = float(cfg["linger"])
    config.MAX_RETRIES = 0
    eff = {"streaming": bool(config.ITER_STREAMING), "lifetime": config.ITER_STREAM_LIFETIME, "linger": config.ITER_STREAM_LINGER}
    d, src, uri = _daemon()
    d.streaming_responses = HookDict()
    RACE.update(in_disc=0, armed=None, count=0, k=0, open_key=None, win=None)
    out = {"cfg": eff, "steps": [], "error": None}
    proxies, iters, sids = [], [], []      # sids[ordinal] = uuid string or None
    try:
        with _hook_clock()(float(T0)) as clock, loopback.Loopback(d) as net:
            for _ in range(case["nprox"]):
                px = api.Proxy(uri)
                px._pyroTimeout = 1
                px._pyroMaxRetries = int(case.get("retries", 0))
                proxies.append(px)
            bogus_id = str(uuid.UUID(int=0))

            def conn_id(sconn):
                if sconn is None:
                    return -1
                for c in net.conns.values():
                    if c.sconn is sconn:
                        return c.cid
                return -2

            def table():
                rows = []
                for sid, info in d.streaming_responses.items():
                    o = sids.index(sid) if sid in sids else -2
                    rows.append([o, conn_id(info[0]), info[1], info[2]])
                rows.sort()
                return rows

            def classify(x, local_ok=False):
                if isinstance(x, StopIteration):
                    return ["stop", 0]
                e = exc_code(x)
                if e is not None:
                    return ["raised", e]
                if isinstance(x, errors.ConnectionClosedError):
                    return ["closed", 0]
                if type(x) is errors.PyroError:
                    return ["error", 0]
                if isinstance(x, errors.ProtocolError):
                    return ["protocol", 0]
                return ["other:" + type(x).__name__, 0]

            for op in case["ops"]:
                k = op[0]
                nconn = net._next
                race_win = None
                try:
                    if k == "open":
                        _, p, how, items = op
                        sids.append(None)
                        before = set(d.streaming_responses)
                        try:
                            if how == "prop":
                                src.pending = [list(i) for i in items]
                                it = proxies[p].prop
                            else:
                                it = getattr(proxies[p], how)([list(i) for i in items])
                        except Exception as x:
                            resp = classify(x)
                            if resp[0] == "protocol":
                                resp = ["nostream", 0]
                        else:
                            if isinstance(it, client._StreamResultIterator):
                                iters.append(it)
                                sids[-1] = it.streamId
                                resp = ["opened", len(sids) - 1]
                            else:
                                resp = ["other:notiter", 0]
                        new = set(d.streaming_responses) - before
                        if sids[-1] is None and len(new) == 1:
                            sids[-1] = new.pop()       # registered although the client got no iterator
                    elif k == "next":
                        try:
                            v = next(iters[op[1]])
                            resp = item_resp(v)
                        except Exception as x:
                            resp = classify(x)
                    elif k == "nextf":
                        nreq = sum(1 for e in net.events if e[1] == "request")
                        net.script([{"kind": op[2]}], skip_handshake=True)
                        try:
                            v = next(iters[op[1]])
                            resp = item_resp(v)
                        except Exception as x:
                            sent = sum(1 for e in net.events if e[1] == "request") > nreq
                            if sent and isinstance(x, errors.CommunicationError):
                                resp = ["commerr", 0]
                            else:
                                resp = classify(x)
                        finally:
                            net.script([])
                    elif k == "close":
                        try:
                            iters[op[1]].close()
                            resp = ["none", 0]
                        except Exception as x:
                            resp = classify(x)
                        join_oneways()
                    elif k == "release":
                        proxies[op[1]]._pyroRelease()
                        resp = ["none", 0]
                    elif k == "relrace":
                        _, p, kk, inner = op
                        if proxies[p]._pyroConnection is not None:
                            if inner[0] == "close":
                                o = inner[1]
                                sid = bogus_id if (o < 0 or o >= len(sids) or sids[o] is None) else sids[o]
                                fn = lambda sid=sid: d.objectsById[core.DAEMON_NAME].close_stream(sid)
                            else:
                                fn = d._housekeeping
                            RACE.update(armed=fn, count=0, k=kk, open_key=None, win=None)
                            try:
                                proxies[p]._pyroRelease()
                            finally:
                                fn2, RACE["armed"] = RACE["armed"], None
                            if fn2 is not None:
                                RACE["win"] = None
                                fn2()        # the handler had fewer preemption points: the other thread runs right after it
                            w = RACE["win"]
                            race_win = sids.index(w) if w in sids else None
                        resp = ["none", 0]
                    elif k == "reconnect":
                        proxies[op[1]]._pyroReconnect(tries=1)
                        resp = ["none", 0]
                    elif k in ("rawnext", "rawclose"):
                        _, p, s = op
                        sid = bogus_id if (s < 0 or s >= len(sids) or sids[s] is None) else sids[s]
                        try:
                            if k == "rawnext":
                                v = proxies[p]._pyroInvoke("get_next_stream_item", [sid], {}, objectId=core.DAEMON_NAME)
                                resp = item_resp(v)
                            else:
                                import Pyro5.protocol as protocol
                                proxies[p]._pyroInvoke("close_stream", [sid], {}, flags=protocol.FLAGS_ONEWAY, objectId=core.DAEMON_NAME)
                                resp = ["none", 0]
                        except Exception as x:
                            resp = classify(x)
                        join_oneways()
                    elif k == "hk":
                        net.housekeeping()
                        resp = ["none", 0]
                    elif k == "tick":
                        clock.advance(float(op[1]))
                        resp = ["none", 0]
                    else:
                        raise ValueError("unknown op %r" % (op,))
                except Exception as x:       # the driver itself failed: outside the model's vocabulary
                    resp = ["other:driver:" + type(x).__name__, 0]
                out["steps"].append({"resp": resp, "table": table(), "conns": net._next - nconn, "win": race_win})
            # quiescence: every connection ends, the linger period passes, one housekeeping step
            for it in iters:
                it.proxy = None           # no close traffic from __del__ after the transport is gone
            for px in proxies:
                px._pyroRelease()
            clock.advance(float(max(0, int(eff["linger"]) + 1)))
            net.housekeeping()
            out["final_table"] = len(d.streaming_responses)
            out["final_rows"] = table()
    except Exception as x:
        out["error"] = "%s: %s" % (type(x).__name__, x)
    finally:
        for it in iters:
            it.proxy = None
        (config.ITER_STREAMING, config.ITER_STREAM_LIFETIME, config.ITER_STREAM_LINGER, config.MAX_RETRIES,
         config.SERIALIZER) = saved
    return out


_DAEMON = []


def _daemon():
    """one real Daemon per process (its request loop never runs; closing a thread-pool daemon sleeps 0.1 s)"""
    if not _DAEMON:
        from tools.lib import loopback
        src = _server_class()()
        d = loopback.make_daemon()
        # the thread-pool server starts a housekeeper thread that calls _housekeeping() every few (real)
        # seconds; here housekeeping is an explicit step of the history, so that thread is stopped
        hk = getattr(d.transportServer, "housekeeper", None)
        if hk is not None:
            hk.stop.set()
            hk.join(10)
            d.transportServer.housekeeper = None
        orig_disc = d._clientDisconnect

        def disc(conn):
            RACE["in_disc"] += 1
            try:
                return orig_disc(conn)
            finally:
                RACE["in_disc"] -= 1
        d._clientDisconnect = disc
        _DAEMON.append((d, src, d.register(src, "src")))
    return _DAEMON[0]


# ---------------------------------------------------------------- oracle: the property, stated over observations
def as_int(x):
    if isinstance(x, bool):
        return None
    if isinstance(x, int):
        return x
    if isinstance(x, float) and x == int(x):
        return int(x)
    return None


def oracle(case, obs):
    """Returns [] or [(signature, what)].  Independent bookkeeping of which streams the server must still
    remember (alive), must have forgotten (dead) or may have either way (expiry exactly at the limit)."""
    bad = []

    def flag(sig, what):
        if not any(s == sig for s, _ in bad):
            bad.append((sig, what))
    if obs.get("error"):
        flag("internal-error", "the run itself failed: %s" % obs["error"])
        return bad
    cfg = obs["cfg"]
    lifetime, linger = cfg["lifetime"], cfg["linger"]
    now = T0
    streams = []        # per ordinal: dict(src, given, state alive|dead|maybe, created, owner(conn), linger_since)
    pconn = [None] * case["nprox"]     # proxy -> connection number
    iters = []          # handle -> dict(stream ordinal, proxy, done)
    nconn = 0

    def ensure_conn(p):
        nonlocal nconn
        if pconn[p] is None:
            pconn[p] = nconn
            nconn += 1
        return pconn[p]

    def disconnect(c):
        for s in streams:
            if s is not None and s["state"] != "dead" and s["owner"] == c:
                if linger > 0:
                    s["owner"], s["linger_since"] = None, now
                else:
                    s["state"], s["why"] = "dead", "its connection ended and ITER_STREAM_LINGER is 0"

    def housekeep():
        for s in streams:
            if s is None or s["state"] == "dead":
                continue
            if lifetime > 0:
                age = now - s["created"]
                if age > lifetime:
                    s["state"], s["why"] = "dead", "lifetime exceeded"
                    continue
                if age == lifetime:
                    s["state"] = "maybe"
            if linger > 0 and s["linger_since"] is not None:
                gone = now - s["linger_since"]
                if gone > linger:
                    s["state"], s["why"] = "dead", "linger period passed"
                elif gone == linger:
                    s["state"] = "maybe"

    def serve(o, conn, resp, what):
        """a request for the next item of stream o arrived over connection conn and was answered resp"""
        tag, val = resp
        if o is None or o < 0 or o >= len(streams) or streams[o] is None:
            if tag != "error":
                flag("unknown-id-served", "%s on an unknown stream id answered %s" % (what, tag))
            return
        s = streams[o]
        src, n = s["src"], len(s["given"])
        if tag in ("item", "stop", "raised") and s["state"] == "dead":
            flag("item-after-forget" if tag == "item" else "answer-after-forget",
                 "%s on stream %d answered %s although the server should have forgotten it (%s)" % (what, o, tag, s["why"]))
        if s.get("uncertain"):
            if tag == "item" and ["y", val] not in src:
                flag("wrong-item", "%s on stream %d returned %r which is not in its source at all" % (what, o, val))
            if tag in ("stop", "raised", "error"):
                s["state"], s["why"] = "dead", "ended"
            if tag == "item" and s["state"] != "dead":
                s["state"] = "alive"                     # the daemon evidently still had it
                if s["owner"] is None:                   # ... and this fetch adopted it
                    s["owner"], s["linger_since"] = conn, None
            return
        if tag == "item":
            if n >= len(src) or src[n][0] != "y" or src[n][1] != val:
                other = [j for j, t in enumerate(streams) if t and j != o and len(t["given"]) < len(t["src"]) and t["src"][len(t["given"])] == ["y", val]]
                flag("wrong-item", "%s on stream %d returned %r but the source's item %d is %r%s" % (
                    what, o, val, n, src[n] if n < len(src) else "<end>", " (it is the next item of stream %d)" % other[0] if other else ""))
            s["given"].append(val)
            if s["state"] != "dead" and s["owner"] is None:
                s["owner"], s["linger_since"] = conn, None
        elif tag == "stop":
            if n != len(src) or any(k != "y" for k, _ in src):
                flag("stop-early", "%s on stream %d raised StopIteration after %d of %d items" % (what, o, n, len(src)))
            s["state"], s["why"] = "dead", "exhausted"
        elif tag == "raised":
            if n >= len(src) or src[n] != ["r", val]:
                flag("wrong-exception", "%s on stream %d raised error %r; the source at position %d is %r" % (what, o, val, n, src[n] if n < len(src) else "<end>"))
            s["state"], s["why"] = "dead", "failed"
        elif tag == "error":
            if s["state"] == "alive":
                flag("forgotten-early", "%s on stream %d answered 'item stream terminated' although the stream is not exhausted, failed, closed or expired (given %d of %d)" % (what, o, n, len(src)))
            s["state"], s["why"] = "dead", "reported terminated"
        else:
            flag("unexpected-answer", "%s on stream %d answered %s" % (what, o, tag))

    for i, (op, st) in enumerate(zip(case["ops"], obs["steps"])):
        k, resp = op[0], st["resp"]
        tag = resp[0]
        if tag.startswith("other:"):
            flag("unexpected-exception", "step %d %r: %s" % (i, op, tag))
        if k == "open":
            _, p, how, items = op
            c = ensure_conn(p)
            items = [list(x) for x in items]
            if how == "lst":
                items = [x for x in items if x[0] == "y"]
            if tag == "opened":
                if not cfg["streaming"]:
                    flag("stream-while-disabled", "a stream was handed out although ITER_STREAMING is off")
                streams.append({"src": items, "given": [], "state": "alive", "why": "", "created": now, "owner": c, "linger_since": None})
                iters.append({"o": len(streams) - 1, "p": p, "done": False})
            else:
                streams.append(None)
                if cfg["streaming"] or tag != "nostream":
                    flag("open-failed", "returning an iterator answered %s (streaming=%s)" % (tag, cfg["streaming"]))
        elif k == "next":
            h = iters[op[1]]
            if h["done"]:
                if tag != "stop":
                    flag("ended-iterator-answers", "next() on a finished/closed client iterator gave %s" % tag)
            elif pconn[h["p"]] is None:
                if tag != "closed":
                    flag("disconnected-iterator-answers", "next() on an iterator whose proxy is disconnected gave %s" % tag)
            else:
                serve(h["o"], pconn[h["p"]], resp, "next()")
                if tag == "stop":
                    h["done"] = True
        elif k == "nextf":
            h = iters[op[1]]
            if h["done"]:
                if tag != "stop":
                    flag("ended-iterator-answers", "next() on a finished/closed client iterator gave %s" % tag)
            elif pconn[h["p"]] is None:
                if tag != "closed":
                    flag("disconnected-iterator-answers", "next() on an iterator whose proxy is disconnected gave %s" % tag)
            else:
                s = streams[h["o"]]
                lost = False
                if op[2] in REPLY_LOST and s["state"] != "dead":
                    # the daemon handled the request; its answer was lost on the way
                    if s["state"] == "maybe":
                        # expiry exactly at the limit: the daemon may or may not still have had it; if it had, it
                        # served this request and thereby re-associated the stream with this connection
                        s["uncertain"] = True
                        if s["owner"] is None:
                            s["owner"], s["linger_since"] = pconn[h["p"]], None
                    else:
                        n = len(s["given"])
                        if n < len(s["src"]) and s["src"][n][0] == "y":
                            s["given"].append(s["src"][n][1])
                            lost = True
                            if s["owner"] is None:
                                s["owner"], s["linger_since"] = pconn[h["p"]], None
                        else:
                            s["state"], s["why"] = "dead", "exhausted or failed (answer lost in transit)"
                disconnect(pconn[h["p"]])
                pconn[h["p"]] = None
                if tag != "commerr":
                    # the client did not report the failure: whatever it answered instead came over a new connection
                    if lost:
                        flag("item-lost-silently", "next() during a transport failure (%s) answered %s without an error although the item the daemon had handed out was lost" % (op[2], tag))
                    elif tag in ("stop", "closed") :
                        flag("fault-not-reported", "next() during a transport failure (%s) gave %s instead of a communication error" % (op[2], tag))
                    if st["conns"]:
                        serve(h["o"], ensure_conn(h["p"]), resp, "next() (retried)")
                    if tag == "stop":
                        h["done"] = True
        elif k == "close":
            h = iters[op[1]]
            if not h["done"] and pconn[h["p"]] is not None:
                s = streams[h["o"]]
                s["state"], s["why"] = "dead", "closed"
            nconn += st["conns"]
            h["done"] = True
        elif k == "release":
            if pconn[op[1]] is not None:
                disconnect(pconn[op[1]])
                pconn[op[1]] = None
        elif k == "reconnect":
            if pconn[op[1]] is not None:
                disconnect(pconn[op[1]])
                pconn[op[1]] = None
            ensure_conn(op[1])
        elif k == "rawnext":
            c = ensure_conn(op[1])
            serve(op[2], c, resp, "get_next_stream_item")
        elif k == "rawclose":
            ensure_conn(op[1])
            o = op[2]
            if 0 <= o < len(streams) and streams[o] is not None:
                streams[o]["state"], streams[o]["why"] = "dead", "closed"
        elif k == "tick":
            now += op[1]
        elif k == "relrace":
            _, p, kk, inner = op
            if pconn[p] is not None:
                # whatever the interleaving, the outcome must be that of the other thread's action and the disconnect, in
                # either order: a stream closed / reaped meanwhile stays forgotten, the others linger or go
                w = st.get("win")
                wstream = streams[w] if (w is not None and 0 <= w < len(streams)) else None
                in_window = (wstream is not None and wstream["state"] != "dead" and wstream["owner"] == pconn[p])
                if inner[0] == "close":
                    o = inner[1]
                    if 0 <= o < len(streams) and streams[o] is not None:
                        streams[o]["state"], streams[o]["why"] = "dead", "closed (while its connection was being disconnected)"
                else:
                    housekeep()
                disconnect(pconn[p])
                pconn[p] = None
                if in_window and wstream["state"] == "dead" and w in {row[0] for row in st["table"]}:
                    # the other thread removed exactly the entry that the disconnect loop had re-read and not yet written
                    # back; the write-back resurrected it (known open finding).  Go on from the state the daemon is in.
                    flag(KNOWN_RACE, "after step %d %r the server again holds stream %d as lingering: it was removed (%s) by another daemon thread "
                         "between _clientDisconnect's re-read of that entry and its write-back" % (i, op, w, wstream["why"]))
                    wstream["state"], wstream["why"], wstream["owner"], wstream["linger_since"] = "alive", "", None, now
        elif k == "hk":
            housekeep()
        if False:
            for s in streams:
                if s is None or s["state"] == "dead":
                    continue
                if lifetime > 0:
                    age = now - s["created"]
                    if age > lifetime:
                        s["state"], s["why"] = "dead", "lifetime exceeded"
                        continue
                    if age == lifetime:
                        s["state"] = "maybe"
                if linger > 0 and s["linger_since"] is not None:
                    gone = now - s["linger_since"]
                    if gone > linger:
                        s["state"], s["why"] = "dead", "linger period passed"
                    elif gone == linger:
                        s["state"] = "maybe"
        # the table against the bookkeeping
        present = {row[0] for row in st["table"]}
        for o, s in enumerate(streams):
            if s is None:
                continue
            if s["state"] == "maybe":
                # expiry exactly at the limit is either way by the property: go on from what the daemon did
                if o in present:
                    s["state"] = "alive"
                else:
                    s["state"], s["why"] = "dead", "expired exactly at the limit"
            if s["state"] == "dead" and o in present:
                flag("stale-entry", "after step %d %r the server still holds stream %d (%s)" % (i, op, o, s["why"]))
            if s["state"] == "alive" and o not in present:
                flag("forgotten-early", "after step %d %r the server no longer holds stream %d although it is not exhausted, failed, closed or expired" % (i, op, o))
                s["state"], s["why"] = "dead", "dropped by the server"
        if any(o < 0 for o in present):
            flag("phantom-entry", "after step %d the stream table holds an id no client was given" % i)
    if obs.get("final_table", 0) != 0:
        flag("table-not-empty", "at quiescence (all connections ended, linger period passed, housekeeping ran) the stream table still has %d entries" % obs["final_table"])
    return bad


# ---------------------------------------------------------------- Gallina encodings
def c_item(it):
    return ("Yield %s" if it[0] == "y" else "Raise %s") % cN(it[1])


def c_hop(op, st=None):
    if op[0] == "relrace":
        inner = op[3]
        ev = "Housekeep" if inner[0] == "hk" else "CloseStream 0%%N %s" % cN(inner[1] if inner[1] >= 0 else BOGUS)
        w = st.get("win") if st else None
        return "HRace %s (%s) %s" % (cN(op[1]), ev, "None" if w is None else "(Some %s)" % cN(w))
    return "HOp (%s)" % c_op(op)


def c_op(op):
    k = op[0]
    if k == "open":
        items = [list(x) for x in op[3]]
        if op[2] == "lst":
            items = [x for x in items if x[0] == "y"]
        return "COpen %s %s" % (cN(op[1]), clist([c_item(i) for i in items]))
    if k in ("next", "close"):
        return "%s %s" % ({"next": "CNext", "close": "CClose"}[k], cN(op[1]))
    if k == "nextf":
        return "CNextFault %s %s" % (cN(op[1]), "ReqLost" if op[2] in REQ_LOST else "ReplyLost")
    if k in ("release", "reconnect"):
        return "%s %s" % ({"release": "CRelease", "reconnect": "CReconnect"}[k], cN(op[1]))
    if k in ("rawnext", "rawclose"):
        return "%s %s %s" % ({"rawnext": "CRawNext", "rawclose": "CRawClose"}[k], cN(op[1]), cN(op[2] if op[2] >= 0 else BOGUS))
    if k == "hk":
        return "CHousekeep"
    if k == "tick":
        return "CTick %s" % cN(op[1])
    raise ValueError(op)


RESP = {"opened": "COpened %s", "nostream": "CNoStreaming", "item": "CItem %s", "stop": "CStop", "raised": "CRaised %s",
        "error": "CError", "closed": "CClosedLocal", "none": "CNone", "commerr": "CCommErr None"}


def c_resp(r):
    t = RESP[r[0]]
    return t % cN(r[1]) if "%s" in t else t


def c_row(row):
    o, owner, created, lg = row
    return "(%s, (%s, (%s, %s)))" % (cN(o), "None" if owner < 0 else "(Some %s)" % cN(owner), cN(created), cN(lg))


def encodable(case, obs):
    """can the observation be written in the model's vocabulary at all?"""
    if obs.get("error"):
        return False
    for v in (obs["cfg"]["lifetime"], obs["cfg"]["linger"]):
        if as_int(v) is None or as_int(v) < 0:
            return False
    for st in obs["steps"]:
        if st["resp"][0] not in RESP:
            return False
        for row in st["table"]:
            if row[0] < 0 or row[1] < -1 or as_int(row[2]) is None or as_int(row[3]) is None or as_int(row[2]) < 0 or as_int(row[3]) < 0:
                return False
    return True


def c_case(case, obs):
    cfg = obs["cfg"]
    if case["cfg"] == "default":
        ccfg = "default_config"
    else:
        ccfg = "{| streaming := %s; lifetime := %s; linger := %s; lifetime_strict := gen_lifetime_strict; linger_strict := gen_linger_strict |}" % (
            cbool(cfg["streaming"]), cN(as_int(cfg["lifetime"])), cN(as_int(cfg["linger"])))
    steps = clist(["(%s, %s)" % (c_resp(st["resp"]), clist([c_row([r[0], r[1], as_int(r[2]), as_int(r[3])]) for r in st["table"]]))
                   for st in obs["steps"]])
    return "{| k_cfg := %s; k_nprox := %s; k_ops := %s; k_obs := %s; k_final := %s |}" % (
        ccfg, cN(case["nprox"]), clist([c_hop(o, st) for o, st in zip(case["ops"], obs["steps"])]), steps, cN(obs["final_table"]))


# ---------------------------------------------------------------- generator
CONFIGS = [(True, 0, 30), (True, 0, 0), (True, 0, 2), (True, 0, 5), (True, 3, 0), (True, 3, 2), (True, 10, 5), (True, 5, 30),
           (True, 50, 1), (True, 2, 2), (False, 0, 30), (False, 3, 2)]


def gen_items(rng):
    n = rng.choice([0, 0, 1, 1, 2, 3, 4, 6, 9, rng.randint(0, 14)])
    items = [["y", rng.randrange(0, 1000)] for _ in range(n)]
    if rng.random() < 0.45:
        # values of every shape: falsy ones and plausible sentinels (None, StopIteration instances, (), ...) in any position
        for it in items:
            if rng.random() < 0.4:
                it[1] = rng.choice([0, 0] + [SPECIAL_BASE + i for i in range(N_SPECIAL)])
    r = rng.random()
    if r < 0.3 and True:
        pos = rng.randint(0, len(items))
        items.insert(pos, ["r", rng.randrange(0, 200)])
    elif r < 0.36:
        for _ in range(2):
            items.insert(rng.randint(0, len(items)), ["r", rng.randrange(0, 200)])
    if rng.random() < 0.2 and items:
        # repeated values: a repeated delivery and a skipped item look alike unless values collide
        v = rng.choice([rng.randrange(0, 5), SPECIAL_BASE + rng.randrange(N_SPECIAL)])
        items = [[k, (v if k == "y" else x)] for k, x in items]
    return items


def gen_case(rng, long=False):
    if rng.random() < 0.12:
        cfg = "default"
        streaming, lifetime, linger = True, 0, 30
    else:
        streaming, lifetime, linger = rng.choice(CONFIGS)
        if rng.random() < 0.15:
            lifetime, linger = rng.choice([0, 1, 4, 7]), rng.choice([0, 1, 3, 8])
        cfg = {"streaming": streaming, "lifetime": lifetime, "linger": linger}
    nprox = rng.choice([1, 2, 2, 3, 4])
    nops = rng.randint(4, 60 if long else 28)
    ops, nh, ns, hprox = [], 0, 0, []
    style = rng.choice(["mixed", "mixed", "interleave", "linger", "lifetime", "churn"])
    dts = [0, 1, 1, 2, 3, 5, 10, 31]
    if linger:
        dts += [linger, linger + 1, max(0, linger - 1)]
    if lifetime:
        dts += [lifetime, lifetime + 1, max(0, lifetime - 1)]
    for _ in range(nops):
        r = rng.random()
        w_open = 0.16 if ns < 6 else 0.04
        if ns == 0 or r < w_open:
            how = rng.choice(["gen", "gen", "itr", "itr", "lst", "prop"])
            px = rng.randrange(nprox)
            ops.append(["open", px, how, gen_items(rng)])
            ns += 1
            if streaming:
                nh += 1
                hprox.append(px)
            continue
        r = rng.random()
        if style == "interleave":
            weights = [("next", 60), ("nextf", 4), ("rawnext", 8), ("close", 6), ("release", 4), ("relrace", 3), ("reconnect", 6), ("hk", 6), ("tick", 8), ("rawclose", 2)]
        elif style == "linger":
            weights = [("next", 30), ("nextf", 9), ("rawnext", 10), ("close", 3), ("release", 14), ("relrace", 8), ("reconnect", 14), ("hk", 12), ("tick", 16), ("rawclose", 1)]
        elif style == "lifetime":
            weights = [("next", 40), ("nextf", 4), ("rawnext", 5), ("close", 3), ("release", 4), ("relrace", 4), ("reconnect", 6), ("hk", 20), ("tick", 21), ("rawclose", 1)]
        elif style == "churn":
            weights = [("next", 25), ("nextf", 5), ("rawnext", 10), ("close", 20), ("release", 10), ("relrace", 8), ("reconnect", 10), ("hk", 8), ("tick", 10), ("rawclose", 7)]
        else:
            weights = [("next", 40), ("nextf", 6), ("rawnext", 8), ("close", 8), ("release", 8), ("relrace", 5), ("reconnect", 9), ("hk", 10), ("tick", 14), ("rawclose", 3)]
        tot = sum(w for _, w in weights)
        x = rng.random() * tot
        for k, w in weights:
            if x < w:
                break
            x -= w
        if k in ("next", "close", "nextf") and nh == 0:
            k = "rawnext"
        if k == "next":
            # favour the most recent handles so that streams get drained; sometimes hammer one
            h = rng.randrange(nh) if rng.random() < 0.5 else max(0, nh - 1 - rng.randrange(min(nh, 2)))
            ops.append(["next", h])
            if rng.random() < 0.25:
                ops.append(["next", h])
        elif k == "nextf":
            h = rng.randrange(nh) if rng.random() < 0.5 else nh - 1
            ops.append(["nextf", h, rng.choice(REQ_LOST + REPLY_LOST)])
            if rng.random() < 0.7:      # the usual continuation: come back (sooner or later) and go on
                if rng.random() < 0.6:
                    ops.append(["tick", rng.choice(dts)])
                    if rng.random() < 0.6:
                        ops.append(["hk"])
                ops.append(["reconnect", hprox[h] if rng.random() < 0.9 else rng.randrange(nprox)])
                ops.append(["next", h])
        elif k == "close":
            ops.append(["close", rng.randrange(nh)])
        elif k == "relrace":
            inner = ["close", rng.randrange(ns)] if rng.random() < 0.8 else ["hk"]
            ops.append(["relrace", rng.randrange(nprox), rng.randint(1, 8), inner])
        elif k in ("release", "reconnect"):
            ops.append([k, rng.randrange(nprox)])
        elif k in ("rawnext", "rawclose"):
            s = rng.randrange(ns) if rng.random() < 0.9 else -1
            ops.append([k, rng.randrange(nprox), s])
        elif k == "hk":
            ops.append(["hk"])
        else:
            ops.append(["tick", rng.choice(dts)])
    case = {"cfg": cfg, "nprox": nprox, "ops": ops}
    if rng.random() < 0.35:
        case["retries"] = rng.choice([1, 2])
    return case


def targeted():
    """the situations the property text names, one by one, for several configurations"""
    out = []
    three = [["y", 7], ["y", 8], ["y", 9]]
    for (streaming, lifetime, linger) in [(True, 0, 30), (True, 0, 0), (True, 0, 2), (True, 3, 2), (True, 4, 0), (False, 0, 30)]:
        cfg = {"streaming": streaming, "lifetime": lifetime, "linger": linger}
        for how in ("gen", "itr", "lst", "prop"):
            out.append({"cfg": cfg, "nprox": 1, "ops": [["open", 0, how, three]] + [["next", 0]] * 5})
        out.append({"cfg": cfg, "nprox": 1, "ops": [["open", 0, "gen", []], ["next", 0], ["next", 0]]})
        out.append({"cfg": cfg, "nprox": 1, "ops": [["open", 0, "gen", [["y", 1], ["r", 5], ["y", 2]]]] + [["next", 0]] * 4})
        out.append({"cfg": cfg, "nprox": 1, "ops": [["open", 0, "itr", [["y", 1], ["r", 6], ["y", 2]]]] + [["next", 0]] * 4 + [["rawnext", 0, 0]]})
        out.append({"cfg": cfg, "nprox": 2, "ops": [["open", 0, "gen", three], ["open", 1, "gen", [["y", 1], ["y", 2]]], ["open", 0, "itr", [["y", 5]]],
                                                    ["next", 0], ["next", 1], ["next", 2], ["next", 0], ["next", 1], ["next", 2], ["next", 1], ["next", 0], ["next", 0]]})
        out.append({"cfg": cfg, "nprox": 1, "ops": [["open", 0, "gen", three], ["next", 0], ["close", 0], ["next", 0], ["rawnext", 0, 0]]})
        out.append({"cfg": cfg, "nprox": 1, "ops": [["open", 0, "gen", three], ["open", 0, "gen", three], ["next", 0], ["next", 1], ["close", 0], ["rawnext", 0, 0], ["next", 1]]})
        for gap in (0, 1, linger, linger + 1, lifetime, lifetime + 1):
            out.append({"cfg": cfg, "nprox": 1, "ops": [["open", 0, "gen", three], ["next", 0], ["release", 0], ["next", 0], ["tick", gap], ["hk"],
                                                        ["reconnect", 0], ["next", 0], ["next", 0], ["next", 0]]})
            out.append({"cfg": cfg, "nprox": 2, "ops": [["open", 0, "gen", three], ["next", 0], ["tick", gap], ["hk"], ["next", 0], ["rawnext", 1, 0],
                                                        ["release", 0], ["tick", gap], ["hk"], ["rawnext", 1, 0], ["release", 1], ["tick", gap], ["hk"], ["rawnext", 1, 0]]})
            out.append({"cfg": cfg, "nprox": 2, "ops": [["open", 0, "itr", three], ["release", 0], ["tick", gap], ["rawnext", 1, 0], ["hk"], ["tick", gap], ["hk"], ["rawnext", 1, 0]]})
        for kind in REQ_LOST + REPLY_LOST:
            for gap in (0, linger, linger + 1):
                out.append({"cfg": cfg, "nprox": 1, "retries": (gap + len(kind)) % 3, "ops": [["open", 0, "gen", [["y", 1], ["y", 2], ["y", 3], ["y", 4]]], ["next", 0], ["nextf", 0, kind], ["next", 0],
                                                            ["tick", gap], ["hk"], ["reconnect", 0], ["next", 0], ["next", 0], ["next", 0], ["next", 0]]})
            out.append({"cfg": cfg, "nprox": 1, "ops": [["open", 0, "itr", [["y", 1], ["r", 9]]], ["next", 0], ["nextf", 0, kind], ["reconnect", 0], ["next", 0], ["next", 0]]})
            out.append({"cfg": cfg, "nprox": 1, "ops": [["open", 0, "gen", [["y", 1]]], ["next", 0], ["nextf", 0, kind], ["reconnect", 0], ["next", 0], ["next", 0], ["nextf", 0, kind]]})
        for kk in range(1, 8):
            # the client closes one of several streams of a connection and releases the proxy right away
            for victim in (0, 1, 2):
                out.append({"cfg": cfg, "nprox": 2, "retries": kk % 3,
                            "ops": [["open", 0, "gen", three], ["open", 0, "itr", three], ["open", 0, "gen", three], ["next", 1],
                                    ["relrace", 0, kk, ["close", victim]], ["rawnext", 1, victim], ["reconnect", 0], ["next", victim], ["next", (victim + 1) % 3]]})
            out.append({"cfg": cfg, "nprox": 2, "ops": [["open", 0, "gen", three], ["open", 1, "gen", three], ["release", 1], ["tick", linger + 1], ["open", 0, "itr", three],
                                                        ["relrace", 0, kk, ["hk"]], ["rawnext", 1, 1], ["rawnext", 1, 0]]})
        out.append({"cfg": cfg, "nprox": 2, "ops": [["rawnext", 0, -1], ["rawclose", 1, -1], ["open", 0, "gen", three], ["rawclose", 1, 0], ["next", 0]]})
    for c in out:
        if not c["cfg"]["streaming"]:      # no client iterators exist: ask by (non-existent) id instead
            c["ops"] = [o for o in c["ops"] if o[0] != "relrace" or True]
            c["ops"] = [(["rawnext", 0, o[1]] if o[0] in ("next", "nextf") else ["rawclose", 0, o[1]] if o[0] == "close" else o) for o in c["ops"]]
    cfg = {"streaming": True, "lifetime": 0, "linger": 30}
    for sv in [0] + [SPECIAL_BASE + i for i in range(N_SPECIAL)]:
        for j, how in enumerate(("gen", "itr", "lst", "prop")):
            lists = [[sv], [sv, 1, 2], [1, sv, 2], [1, 2, sv], [sv, sv, 3]]
            if how == "prop":
                lists = lists[2:3]
            for vals in lists:
                items = [["y", v] for v in vals]
                out.append({"cfg": cfg, "nprox": 1, "ops": [["open", 0, how, items]] + [["next", 0]] * (len(items) + 2)})
        out.append({"cfg": cfg, "nprox": 2, "ops": [["open", 0, "itr", [["y", sv], ["r", 7], ["y", sv]]], ["open", 1, "gen", [["y", 1], ["y", sv], ["y", 2]]],
                                                    ["next", 0], ["next", 1], ["next", 1], ["release", 1], ["next", 0], ["reconnect", 1], ["next", 1], ["next", 1], ["next", 0]]})
    out.append({"cfg": "default", "nprox": 1, "ops": [["open", 0, "gen", three], ["next", 0], ["release", 0], ["tick", 30], ["hk"], ["reconnect", 0], ["next", 0],
                                                      ["release", 0], ["tick", 31], ["hk"], ["reconnect", 0], ["next", 0]]})
    out.append({"cfg": "default", "nprox": 1, "ops": [["open", 0, "gen", three], ["tick", 100000], ["hk"], ["next", 0]]})
    return out


def gen_cases(ctx):
    rng = ctx.rng
    cases = [gen_case(rng) for _ in range(ctx.n(1150, 15000))]
    cases += [gen_case(rng, long=True) for _ in range(ctx.n(80, 1000))]
    return cases


def nontrivial(case, obs):
    tags = {st["resp"][0] for st in obs.get("steps", [])}
    return "item" in tags and len(tags) >= 3


def execute(ctx, cases, model_ok, res):
    lits, kept = [], []
    for case in cases:
        obs = run_impl(case)
        res.seen(case, nontrivial(case, obs))
        res.count("cfg:%s" % ("default" if case["cfg"] == "default" else "%(streaming)s/%(lifetime)s/%(linger)s" % case["cfg"]))
        for op, st in zip(case["ops"], obs.get("steps", [])):
            res.count("%s:%s" % (op[0], st["resp"][0]))
        res.count("table_max_%d" % min(6, max([len(st["table"]) for st in obs.get("steps", [])] or [0])))
        for sig, what in oracle(case, obs):
            first = not any(v["signature"] == sig for v in res.violations)
            res.violations.append({"signature": sig, "what": what, "case": shrink(case, sig) if first else case})
        if not encodable(case, obs):
            res.mismatches.append({"component": "C10", "case": case, "impl": short_obs(obs), "model": "outcome outside the model's vocabulary"})
            continue
        lits.append(c_case(case, obs))
        kept.append((case, obs))
    if model_ok:
        for idx in vlib.run_cases(ctx, "c", IMPORTS, "case", "check_case", lits, shard=120):
            case, obs = kept[idx]
            res.mismatches.append({"component": "C10", "case": case, "impl": short_obs(obs)})
    return res


def short_obs(obs):
    return {"cfg": obs.get("cfg"), "error": obs.get("error"), "final_table": obs.get("final_table"),
            "steps": [[st["resp"], st["table"]] for st in obs.get("steps", [])][:80]}


def run(ctx, model_ok=True):
    res = vlib.Result()
    cases = vlib.load_corpus(PROP) + targeted() + gen_cases(ctx)
    execute(ctx, cases, model_ok, res)
    res.rule = ("seeded random client histories (open via generator / iterator class / list iterator / exposed property, next, close, "
                "next during a transport failure (request lost / reply lost / reset / cut reply), release, reconnect, next/close by id from another proxy, housekeeping, clock ticks) over 1-4 proxies and up to ~8 streams, "
                "item lists empty/long/raising midway/with repeated values, item values of every shape (ints incl. 0, None, False, '', [], (), {}, 0.0, "
                "StopIteration / GeneratorExit instances, 'StopIteration', [None], ...) in every position (also targeted: first/middle/last/only, per iterator kind), 12 fixed + random (streaming, lifetime, linger) settings and the "
                "library defaults; plus targeted histories for each clause of the property; non-trivial = at least one item delivered and "
                "three different kinds of answer; distinct = distinct case hash")
    res.samples = cases[-2:] + cases[:1]
    return res


def search(ctx, broken):
    res = vlib.Result()
    cases = [b["case"] for b in broken if b.get("case")] + targeted() + gen_cases(ctx)
    for case in cases:
        obs = run_impl(case)
        res.seen(case)
        for sig, what in oracle(case, obs):
            res.violations.append({"signature": sig, "what": what, "case": shrink(case, sig)})
            if len(res.violations) > 40:
                return res
    return res


def shrink(case, sig, budget=150):
    """greedy removal of operations while the same oracle signature persists (handles are renumbered by dropping
    dependent operations: an `open` is only removed when no later operation names a handle at or above it)"""
    def fails(c):
        try:
            return any(s == sig for s, _ in oracle(c, run_impl(c)))
        except Exception:
            return False
    cur = case
    i = len(cur["ops"]) - 1
    while i >= 0 and budget > 0:
        op = cur["ops"][i]
        if op[0] != "open":
            cand = dict(cur, ops=cur["ops"][:i] + cur["ops"][i + 1:])
            budget -= 1
            if fails(cand):
                cur = cand
        i -= 1
    return cur


def replay(ctx, case):
    obs = run_impl(case)
    bad = oracle(case, obs)
    if bad:
        return True, {"oracle": bad, "impl": short_obs(obs)}
    res = vlib.Result()
    execute(ctx, [case], True, res)
    if res.mismatches:
        model = ""
        if encodable(case, obs):
            model = vlib.eval_model(ctx, IMPORTS, "model_case (%s)" % c_case(case, obs))
        return True, {"mismatch": True, "impl": short_obs(obs), "model": model[-2500:]}
    return False, {"impl": short_obs(obs)}
