"""C11 — a batch behaves like the same calls made one after another.

A real Proxy/BatchProxy talks to a real Daemon through the in-process loopback transport
(tools/lib/loopback.py).  Two identical accumulator objects are registered: the batch is run on
one, the same calls one by one (stopping at the first exception) on the other; final totals,
execution logs and what the caller saw are compared (oracle) and both runs are compared with
Model/Batch.v evaluated inside Coq (correspondence).  DESIGN.md section 6 (C11)."""
import json, re
from tools.lib import vlib
from tools.lib.vlib import cZ, cbool, clist

PROP = "C11"
GEN = ["GenBatch"]
ASSUMPTIONS = [
    "the reference object is deterministic: its reaction to a call depends only on its state and the call (Section variable `step`)",
    "the exposure gate is a function of object state and member name (Section variable `gate`); for the accumulator it depends on the name only",
    "results and exception arguments are integers / short strings that every serializer carries unchanged (value fidelity is C01, exception fidelity C07)",
    "transport is the loopback of DESIGN 4.1 without faults: one request, one reply (loss and reordering are C03)",
]
IMPORTS = "From V Require Import Model.Batch Harness.Cmp Harness.H11."
SERIALIZERS = ["serpent", "json", "marshal", "msgpack"]
METH = {"add": "MAdd", "mul": "MMul", "get": "MGet", "sub": "MSub", "div": "MDiv", "boom": "MBoom",
        "hidden": "MHidden", "_secret": "MSecret", "__init__": "MDunder", "nosuch": "MNoSuch", "add.__call__": "MDotted",
        "__len__": "MLen", "__getitem__": "MGetItem", "gated": "MGated",
        "__secret": "MDSecret", "__hidden__": "MDHidden", "__del__": "MDDel", "lasterr": "MLastErr"}
EXPOSED = ["add", "mul", "get", "sub", "div", "boom", "__len__", "__getitem__", "gated", "lasterr"]
# how the daemon under test words the refusal of each refused name when it is called alone (probed per run; the wording
# and even the class are incidental: the model only knows "refused because private / unexposed / missing")
WHY = {"hidden": "WUnexposed", "_secret": "WPrivate", "__init__": "WPrivate", "nosuch": "WMissing", "add.__call__": "WMissing",
       "__secret": "WPrivate", "__hidden__": "WUnexposed", "__del__": "WPrivate"}
REFUSAL_SEEN = {}
EXC_SINGLE_ONLY = set()  # serializers that carry a returned exception object for a single call but not inside a batch's result list
CARRIES_EXC = set()      # serializers that can carry an exception OBJECT inside a list result (probed per run)
REFUSED = ["hidden", "_secret", "__init__", "nosuch", "add.__call__", "__secret", "__hidden__", "__del__"]
NOARG = ("get", "__init__", "__len__", "__secret", "__hidden__", "__del__")
import threading
GATE = threading.Event()
GATE.set()
MODULUS = 1000003


# ---------------------------------------------------------------- implementation side
class Env:
    """one daemon, two identical accumulators (A: batch, B: one by one), one proxy each per serializer"""
    def __init__(self):
        import Pyro5.api as api
        import Pyro5.client as client
        from Pyro5 import config
        from tools.lib import loopback
        self.api, self.client = api, client
        config.MAX_RETRIES = 0

        class Acc(object):
            def __init__(self):
                self.total = 0
                self.log = []

            @api.expose
            def add(self, k):
                self.log.append(["add", k])
                self.total += k
                return self.total

            @api.expose
            def mul(self, k):
                self.log.append(["mul", k])
                self.total = (self.total * k) % MODULUS
                return self.total

            @api.expose
            def get(self):
                self.log.append(["get", 0])
                return self.total

            @api.expose
            def sub(self, k):
                self.log.append(["sub", k])
                if self.total - k < 0:
                    raise ValueError("underflow", self.total, k)
                self.total -= k
                return self.total

            @api.expose
            def div(self, k):
                self.log.append(["div", k])
                self.total //= k
                return self.total

            @api.expose
            def boom(self, k):
                self.log.append(["boom", k])
                self.total += k
                raise RuntimeError("boom", self.total)

            @api.expose
            def __len__(self):              # exposed special method
                self.log.append(["__len__", 0])
                return abs(self.total) % 7 + 1

            @api.expose
            def __getitem__(self, k):       # exposed special method
                self.log.append(["__getitem__", k])
                return self.total + k

            @api.expose
            def gated(self, k):             # add, after a bounded wait on an event the harness controls
                self.log.append(["gated", k])
                GATE.wait(1.0)
                self.total += k
                return self.total

            @api.expose
            def lasterr(self, k):           # succeeds; its VALUE is an exception object (returned, not raised)
                self.log.append(["lasterr", k])
                return ValueError("underflow", self.total, k)

            @api.expose
            def errlist(self):              # probe only: can this serializer carry an exception object inside a list?
                return [ValueError("underflow", 1, 2), 3]

            def __hidden__(self):           # dunder-looking name, exists, not exposed
                self.log.append(["__hidden__", 0])
                self.total += 1000
                return self.total

            def hidden(self, k):            # not exposed
                self.log.append(["hidden", k])
                self.total += 1000
                return self.total

            def _secret(self, k):           # private
                self.log.append(["_secret", k])
                self.total += 1000
                return self.total

        self.daemon = loopback.make_daemon()
        self.a, self.b = Acc(), Acc()
        ua = self.daemon.register(self.a, "C11.batch")
        ub = self.daemon.register(self.b, "C11.seq")
        self.net = loopback.Loopback(self.daemon)
        self.net.__enter__()
        self.pa, self.pb = {}, {}
        for ser in SERIALIZERS:
            for d, u in ((self.pa, ua), (self.pb, ub)):
                p = api.Proxy(u)
                p._pyroSerializer = ser
                p._pyroTimeout = 2
                d[ser] = p

    def close(self):
        for d in (self.pa, self.pb):
            for p in d.values():
                try:
                    p._pyroRelease()
                except Exception:
                    pass
        self.net.__exit__(None, None, None)
        self.daemon.close()


_ENV = None


def env():
    global _ENV
    if _ENV is None:
        _ENV = Env()
    return _ENV


def close_env():
    global _ENV
    if _ENV is not None:
        try:
            _ENV.close()
        finally:
            _ENV = None


def jsonable(v):
    if isinstance(v, bool) or v is None or isinstance(v, (int, str)):
        return v
    if isinstance(v, (list, tuple)):
        return [jsonable(x) for x in v]
    if isinstance(v, BaseException):
        return {"excval": exc_canon(v)}
    return "<%s>" % type(v).__name__


def exc_canon(x):
    return {"cls": type(x).__name__, "args": jsonable(getattr(x, "args", ()))}


def call_args(name, arg, kw):
    if name in NOARG:
        return (), {}
    if kw and name in EXPOSED and not name.startswith("__"):
        # (the Proxy class implements __getitem__(index) itself: special methods are called positionally)
        return (), {"k": arg}
    return (arg,), {}


def run_batch(case):
    e = env()
    a = e.a
    a.total, a.log = case["s0"], []
    p = e.pa[case["ser"]]
    b = e.api.BatchProxy(p)
    qerr = []
    for i, (name, arg, kw) in enumerate(case["calls"]):
        x = queue_call(e, b, name, arg, kw)
        if x is not None:
            qerr.append([i, name, x])
    obs = {"queue_errors": qerr}
    try:
        if case.get("submit") == "invoke" and not case["oneway"]:
            g = b._pyroInvoke("ignored", (), {})
        elif case["oneway"]:
            g = b(oneway=True)
        else:
            g = b()
    except Exception as x:
        obs["view"] = ["raised", exc_canon(x)]
    else:
        if g is None:
            obs["view"] = ["nothing"]
        else:
            outs = []
            try:
                for v in g:
                    outs.append(["ok", jsonable(v)])
                    if len(outs) > len(case["calls"]) + 5:
                        break
            except Exception as x:
                outs.append(["exc", exc_canon(x)])
            obs["view"] = ["stream", outs]
    obs["state"] = a.total
    obs["log"] = [list(t) for t in a.log]
    settle()
    return obs


def run_seq(case):
    e = env()
    o = e.b
    o.total, o.log = case["s0"], []
    p = e.pb[case["ser"]]
    outs = []
    for name, arg, kw in case["calls"]:
        args, kwargs = call_args(name, arg, kw)
        try:
            if name in EXPOSED:
                v = getattr(p, name)(*args, **kwargs)
            else:
                # the proxy refuses unknown names before sending; go to the daemon's gate directly
                v = p._pyroInvoke(name, args, kwargs)
            outs.append(["ok", jsonable(v)])
        except Exception as x:
            outs.append(["exc", exc_canon(x)])
            break
    return {"outs": outs, "state": o.total, "log": [list(t) for t in o.log]}


def run_impl(case):
    return {"batch": run_batch(case), "seq": run_seq(case)}


def probe_submit(ser):
    """quirk probe: does submitting any batch with this serializer fail on the client before anything is sent?"""
    case = {"ser": ser, "oneway": False, "s0": 0, "calls": [["add", 1, False]]}
    ob = run_batch(case)
    return ob["view"][0] == "raised" and ob["log"] == [] and run_seq(case)["outs"] == [["ok", 1]]


# ---------------------------------------------------------------- the property, directly
def oracle(case, obs):
    ob, os_ = obs["batch"], obs["seq"]
    calls = [[n, (0 if n in NOARG else a)] for n, a, _ in case["calls"]]
    bad = []
    if ob.get("queue_errors"):
        i, name, x = ob["queue_errors"][0]
        return [("batch-queue-raised", "queueing call %d (%s) on the BatchProxy raised %s%r; made alone the call %s, and in a batch its outcome belongs at its position or at submission" % (
            i, name, x["cls"], tuple(x["args"]), "succeeds" if name in EXPOSED else "is refused by the daemon"))]
    n = len(os_["log"])
    seq_fail = os_["outs"][-1][1] if os_["outs"] and os_["outs"][-1][0] == "exc" else None
    view = ob["view"]
    returned_exc = [i for i, o in enumerate(os_["outs"]) if o[0] == "ok" and isinstance(o[1], dict) and "excval" in o[1]]
    if view[0] == "raised" and not case["oneway"] and returned_exc and view[1] != seq_fail \
            and ob["log"] == os_["log"] and ob["state"] == os_["state"]:
        # the right calls ran, but a member's VALUE (an exception object it returned) could not be put into the batch reply
        return [("batch-returned-exception-unserializable", "call %d succeeds and returns an exception object (made alone it yields %s%r as a plain result); the batch (serializer %s) "
                 "executed the same calls but its submission raised %s%r instead of yielding the results" % (
                     returned_exc[0], os_["outs"][returned_exc[0]][1]["excval"]["cls"], tuple(os_["outs"][returned_exc[0]][1]["excval"]["args"]),
                     case["ser"], view[1]["cls"], tuple(view[1]["args"])))]
    if view[0] == "raised" and not case["oneway"] and seq_fail is not None and view[1] != seq_fail \
            and ob["log"] == os_["log"] and ob["state"] == os_["state"] and len(os_["log"]) == len(os_["outs"]):
        # the right calls ran and a member raised, but what reaches the caller is not that member's exception
        return [("batch-wrong-exception", "call %d raises %s%r when made alone, but the batch (serializer %s) reported %s%r when submitted" % (
            len(os_["outs"]) - 1, seq_fail["cls"], tuple(seq_fail["args"]), case["ser"], view[1]["cls"], tuple(view[1]["args"])))]
    if view[0] == "raised" and (case["oneway"] or seq_fail is None or view[1] != seq_fail):
        # one root cause, one signature: the submission itself failed; state / log differences are its consequences
        return [("batch-submit-spurious-error", "submitting the %sbatch (serializer %s) raised %s%r, which is not the exception of its first failing call (%r); the batch executed %d call(s), the sequential run %d" % (
            "oneway " if case["oneway"] else "", case["ser"], view[1]["cls"], tuple(view[1]["args"]), seq_fail, len(ob["log"]), n))]
    if ob["state"] != os_["state"]:
        bad.append(("batch-state-differs", "after the batch the object's total is %r, after the same calls one by one %r" % (ob["state"], os_["state"])))
    if ob["log"] != os_["log"]:
        if len(ob["log"]) > n and ob["log"][:n] == os_["log"] and os_["outs"] and os_["outs"][-1][0] == "exc":
            bad.append(("batch-ran-past-failure", "the batch executed %d call(s) after the first failing call (sequential run executed %d)" % (len(ob["log"]) - n, n)))
        else:
            bad.append(("batch-executed-differs", "the batch executed %r, the sequential run %r" % (ob["log"][:6], os_["log"][:6])))
    if ob["log"] != calls[:len(ob["log"])]:
        bad.append(("batch-executed-not-a-prefix", "the executed calls are not a prefix of the batch in order"))
    if case["oneway"]:
        if view[0] != "nothing":
            bad.append(("oneway-batch-returned", "a oneway batch returned results"))
    else:
        if view[0] == "stream":
            outs = view[1]
            if outs != os_["outs"]:
                k = 0
                while k < min(len(outs), len(os_["outs"])) and outs[k] == os_["outs"][k]:
                    k += 1
                if seq_fail is not None and k == len(os_["outs"]) - 1 and k < len(outs) and outs[k][0] == "exc":
                    bad.append(("batch-wrong-exception", "call %d fails with %r when made alone but the batch raised %r" % (k, seq_fail, outs[k][1])))
                else:
                    bad.append(("batch-results-differ", "results differ from the sequential run at index %d: batch %r, sequential %r" % (k, outs[k:k + 2], os_["outs"][k:k + 2])))
        elif view[0] == "raised":
            pass     # the first failing call's own exception, at submission (checked above)
        else:
            bad.append(("batch-returned-nothing", "a normal batch returned nothing"))
    return bad


# ---------------------------------------------------------------- Gallina encodings
def c_call(name, arg):
    return "{| c_meth := %s; c_arg := %s |}" % (METH[name], cZ(arg))


def c_log(log):
    return clist([c_call(n, a) for n, a in log])


def c_exn(x):
    cls, args = x["cls"], x["args"]
    if cls == "ValueError" and len(args) == 3 and args[0] == "underflow" and all(isinstance(v, int) and not isinstance(v, bool) for v in args[1:]):
        return "(EValue %s %s)" % (cZ(args[1]), cZ(args[2]))
    if cls == "ZeroDivisionError":
        return "EZeroDiv"
    if cls == "RuntimeError" and len(args) == 2 and args[0] == "boom" and isinstance(args[1], int):
        return "(ERuntime %s)" % cZ(args[1])
    w = REFUSAL_SEEN.get((cls, json.dumps(args, sort_keys=True, default=repr)))
    if w is not None:
        return "(EAttr %s)" % w
    return "ESubmit"     # anything the model has no name for: compares unequal to every modelled outcome of a call


def c_out(o):
    if o[0] == "ok":
        if isinstance(o[1], int) and not isinstance(o[1], bool):
            return "(Ok (VInt %s))" % cZ(o[1])
        if isinstance(o[1], dict) and set(o[1]) == {"excval"}:
            return "(Ok (VExc %s))" % c_exn(o[1]["excval"])
        return None
    return "(Exc %s)" % c_exn(o[1])


def c_case(case, obs, broken):
    ob, os_ = obs["batch"], obs["seq"]
    if ob.get("queue_errors"):
        return None
    v = ob["view"]
    if v[0] == "nothing":
        view = "CNothing"
    elif v[0] == "raised":
        view = "(CRaised %s)" % c_exn(v[1])
    else:
        outs = [c_out(o) for o in v[1]]
        if any(o is None for o in outs):
            return None
        view = "(CStream %s)" % clist(outs)
    qouts = [c_out(o) for o in os_["outs"]]
    if any(o is None for o in qouts):
        return None
    for log in (ob["log"], os_["log"]):
        if any(n not in METH or not isinstance(a, int) for n, a in log):
            return None
    if not isinstance(ob["state"], int) or not isinstance(os_["state"], int):
        return None
    return ("One {| k_oneway := %s; k_submit_broken := %s; k_excval_breaks_reply := %s; k_s0 := %s; k_calls := %s; k_b_state := %s; k_b_log := %s; "
            "k_b_view := %s; k_q_state := %s; k_q_log := %s; k_q_outs := %s |}") % (
        cbool(case["oneway"]), cbool(broken), cbool(case["ser"] in EXC_SINGLE_ONLY), cZ(case["s0"]),
        clist([c_call(n, (0 if n in NOARG else a)) for n, a, _ in case["calls"]]),
        cZ(ob["state"]), c_log(ob["log"]), view, cZ(os_["state"]), c_log(os_["log"]), clist(qouts))


# ---------------------------------------------------------------- histories of a re-used BatchProxy
# case: {"kind": "hist", "ser", "s0", "events": [["q", name, arg, kw] | ["s", "call"|"invoke"|"oneway"] | ["i", k, n]]}
# ["i", k, n]: pull up to n items (n = -1: all) from the generator returned by the k-th submission of the history
ALL = 999


def queue_call(e, b, name, arg, kw):
    """queue one call the way a caller does: b.<name>(args).  Returns None, or the exception raised while queueing
    (the caller notes it and carries on).  Only a name that resolves locally on the BatchProxy object itself
    (__init__) has to be queued by hand."""
    args, kwargs = call_args(name, arg, kw)
    if hasattr(type(b), name):
        e.client._BatchedRemoteMethod(b._BatchProxy__calls, name)(*args, **kwargs)
        return None
    try:
        getattr(b, name)(*args, **kwargs)
    except Exception as x:
        return exc_canon(x)
    return None


def run_history(case):
    """one BatchProxy re-used for the whole history, on object A"""
    e = env()
    a = e.a
    a.total, a.log = case["s0"], []
    b = e.api.BatchProxy(e.pa[case["ser"]])
    gens, obs = [], []
    gated = bool(case.get("gate"))
    timer = None
    for ev in case["events"]:
        if ev[0] == "s" and gated:
            # the previous (oneway) submission has had its chance: the following request is about to be made.
            # A new oneway submission closes the gate again; a helper opens it after a short delay so that a
            # daemon running the oneway batch inline (before it reads the next request) is never stuck.
            if ev[1] == "oneway":
                GATE.clear()
                timer = threading.Timer(0.03, GATE.set)
                timer.daemon = True
                timer.start()
        if ev[0] == "q":
            x = queue_call(e, b, ev[1], ev[2], ev[3])
            obs.append(["q"] if x is None else ["q", x])
        elif ev[0] == "s":
            before = len(a.log)
            try:
                if ev[1] == "invoke":
                    g = b._pyroInvoke("ignored", (), {})
                elif ev[1] == "oneway":
                    g = b(oneway=True)
                else:
                    g = b()
            except Exception as x:
                kind, g = ["raised", exc_canon(x)], None
            else:
                kind = ["nothing"] if g is None else ["gen"]
            gens.append(g)
            obs.append(["s", a.total, [list(t) for t in a.log[before:]], kind])
            if gated and ev[1] != "oneway":
                settle()
        else:
            k, n = ev[1], ev[2]
            g = gens[k] if 0 <= k < len(gens) else None
            outs = []
            if g is not None:
                it = iter(g)
                while n < 0 or len(outs) < n:
                    try:
                        outs.append(["ok", jsonable(next(it))])
                    except StopIteration:
                        break
                    except Exception as x:
                        outs.append(["exc", exc_canon(x)])
                        break
                    if len(outs) > 200:
                        break
            obs.append(["i", outs])
    settle()
    return {"trace": obs, "final": a.total}


def settle():
    """open the gate and wait for any oneway work a daemon may have pushed into background threads"""
    GATE.set()
    for t in threading.enumerate():
        if t.name.startswith("oneway") and t is not threading.current_thread():
            t.join(3.0)


def probe_keep():
    """quirk probe: does the queue of a BatchProxy survive a submission that raised?"""
    case = {"kind": "hist", "ser": "serpent", "s0": 0,
            "events": [["q", "add", 1, False], ["q", "hidden", 1, False], ["s", "call"], ["q", "add", 5, False], ["s", "call"]]}
    t = run_history(case)["trace"]
    return t[2][3][0] == "raised" and t[4][2][:1] == [["add", 1]]


def oracle_history(case, obs):
    """each submission = exactly the calls queued since the previous submission, made one by one on an identical
    object in the state the earlier submissions left; pulled results = the first items of that sequential run"""
    pending, subs, bad = [], [], []
    state = case["s0"]
    failed_submit_before = False
    nsub = 0
    for ev, ob in zip(case["events"], obs["trace"]):
        if ev[0] == "q":
            if len(ob) > 1:
                return bad + [("batch-queue-raised", "queueing %s on the BatchProxy raised %s%r; made alone the call %s, and in a batch its outcome belongs at its position or at submission" % (
                    ev[1], ob[1]["cls"], tuple(ob[1]["args"]), "succeeds" if ev[1] in EXPOSED else "is refused by the daemon"))]
            pending.append([ev[1], ev[2], ev[3]])
            continue
        if ev[0] == "s":
            oneway = ev[1] == "oneway"
            one = {"ser": case["ser"], "oneway": oneway, "s0": state, "calls": pending}
            ref = run_seq(one)
            refused = bool(ref["outs"]) and ref["outs"][-1][0] == "exc" and len(ref["log"]) < len(ref["outs"])
            kind = ob[3]
            found = []
            if oneway and ob[2] != ref["log"] and ob[2] == ref["log"][:len(ob[2])]:
                found.append(("oneway-batch-not-in-effect", "oneway submission %d returned with only %d of its %d call(s) executed (total %r instead of %r): its calls do not take effect before "
                              "requests made afterwards on the same proxy" % (nsub, len(ob[2]), len(ref["log"]), ob[1], ref["state"])))
            elif ob[2] != ref["log"]:
                found.append(("reuse-batch-executed-differs", "submission %d of a re-used BatchProxy executed %r; the calls queued since the previous submission, made one by one, execute %r" % (
                    nsub, ob[2][:8], ref["log"][:8])))
            elif ob[1] != ref["state"]:
                found.append(("batch-state-differs", "after submission %d the object's total is %r, after the same calls one by one %r" % (nsub, ob[1], ref["state"])))
            if oneway:
                if kind[0] != "nothing":
                    found.append(("oneway-batch-returned" if kind[0] == "gen" else "batch-submit-spurious-error", "oneway submission %d did not return nothing: %r" % (nsub, kind)))
            elif refused:
                if kind[0] != "raised" or kind[1] != ref["outs"][-1][1]:
                    found.append(("batch-submit-spurious-error" if kind[0] == "raised" else "batch-failure-not-reported",
                                  "submission %d: the first failing call is refused with %r, the submission gave %r" % (nsub, ref["outs"][-1][1], kind)))
            elif kind[0] != "gen":
                found.append(("batch-submit-spurious-error" if kind[0] == "raised" else "batch-returned-nothing",
                              "submission %d should return its results, it gave %r" % (nsub, kind)))
            if found and failed_submit_before:
                # everything after a submission that raised is explained by the queue having survived it
                return [("reuse-after-failed-submit", "a BatchProxy whose previous submission raised was re-used: " + found[0][1])]
            bad.extend(found)
            if found:
                return bad      # later events are consequences
            subs.append([] if (oneway or refused) else ref["outs"])
            if kind[0] == "raised":
                failed_submit_before = True
            state = ob[1]
            pending = []
            nsub += 1
            continue
        k, n = ev[1], ev[2]
        exp = subs[k] if 0 <= k < len(subs) else []
        exp = exp if n < 0 else exp[:n]
        if ob[1] != exp:
            sig = ("reuse-results-differ", "pulling %s results of submission %d gave %r, the sequential run gives %r" % ("all" if n < 0 else n, k, ob[1][:6], exp[:6]))
            if failed_submit_before:
                return [("reuse-after-failed-submit", "a BatchProxy whose previous submission raised was re-used: " + sig[1])]
            return bad + [sig]
    return bad


def c_event(ev):
    if ev[0] == "q":
        return "EvQueue %s" % c_call(ev[1], 0 if ev[1] in NOARG else ev[2])
    if ev[0] == "s":
        return "EvSubmit %s" % cbool(ev[1] == "oneway")
    return "EvIterate %d%%nat %d%%nat" % (ev[1], ALL if ev[2] < 0 else ev[2])


def c_hist(case, obs, keep):
    items = []
    for ob in obs["trace"]:
        if ob[0] == "q":
            items.append("OQ" if len(ob) == 1 else "OQRaised")
        elif ob[0] == "s":
            if not isinstance(ob[1], int) or any(n not in METH or not isinstance(a, int) for n, a in ob[2]):
                return None
            k = ob[3]
            kind = "KNothing" if k[0] == "nothing" else ("KGen" if k[0] == "gen" else "(KRaised %s)" % c_exn(k[1]))
            items.append("OS %s %s %s" % (cZ(ob[1]), c_log(ob[2]), kind))
        else:
            outs = [c_out(o) for o in ob[1]]
            if any(o is None for o in outs):
                return None
            items.append("OI %s" % clist(outs))
    if not isinstance(obs["final"], int):
        return None
    return "Hist {| h_keep := %s; h_s0 := %s; h_events := %s; h_obs := %s; h_final := %s |}" % (
        cbool(keep), cZ(case["s0"]), clist([c_event(e) for e in case["events"]]), clist(items), cZ(obs["final"]))


def gen_history(rng, thorough):
    nsub = rng.choice([2, 2, 3, 3, 4]) if not thorough else rng.choice([2, 3, 3, 4, 5, 6])
    pfail = rng.choice([0.0, 0.0, 0.05, 0.15, 0.3])
    events, plans = [], []          # plans: (submission index, when, n)
    later = []
    for j in range(nsub):
        for _ in range(rng.choice([0, 1, 1, 2, 2, 3, 4])):
            c = gen_call(rng, pfail)
            events.append(["q", c[0], c[1], c[2]])
            # a late pull may land between two queued calls
            if later and rng.random() < 0.3:
                events.append(later.pop(rng.randrange(len(later))))
        mode = rng.choice(["call", "call", "call", "invoke", "oneway"])
        events.append(["s", mode])
        if mode != "oneway" or rng.random() < 0.2:
            n = rng.choice([-1, -1, -1, 1, 2, 0])
            when = rng.choice(["now", "now", "late", "late", "never"])
            if when == "now":
                events.append(["i", j, n])
            elif when == "late":
                later.append(["i", j, n])
        if later and rng.random() < 0.4:
            events.append(later.pop(rng.randrange(len(later))))
    for ev in later:
        if rng.random() < 0.7:
            events.append(ev)
    ser = rng.choice(SERIALIZERS)
    if ser in CARRIES_EXC and rng.random() < 0.15:
        qs = [i for i, e in enumerate(events) if e[0] == "q"]
        events.insert(rng.choice(qs) if qs else 0, ["q", "lasterr", rng.choice([1, 5, -2]), False])
    return {"kind": "hist", "ser": ser, "s0": rng.choice([0, 0, 1, 5, -3, rng.randint(-1000, 1000)]), "events": events}


def gen_gate_history(rng):
    """a oneway batch holding a gated call, then a normal call batch on the same proxy that depends on its effect"""
    ev = []
    for _ in range(rng.choice([0, 1, 2])):
        ev.append(["q", "add", rng.choice([1, 2, 5, -3]), False])
    ev.append(["q", "gated", rng.choice([10, 100, 7]), False])
    for _ in range(rng.choice([0, 1, 2])):
        c = gen_call(rng, 0.1)
        ev.append(["q", c[0], c[1], c[2]])
    ev.append(["s", "oneway"])
    for _ in range(rng.choice([1, 1, 2])):
        ev.append(["q", rng.choice(["get", "add", "mul", "__len__"]), rng.choice([0, 1, 3]), False])
    if ev[-1][1] in NOARG:
        ev[-1][2] = 0
    for e in ev:
        if e[0] == "q" and e[1] in NOARG:
            e[2] = 0
    ev.append(["s", rng.choice(["call", "invoke"])])
    ev.append(["i", 1, -1])
    return {"kind": "hist", "gate": True, "ser": rng.choice(SERIALIZERS), "s0": rng.choice([0, 1, 5]), "events": ev}


def gen_histories(ctx):
    out = [gen_history(ctx.rng, not ctx.quick) for _ in range(ctx.n(900, 12000))]
    out += [gen_gate_history(ctx.rng) for _ in range(ctx.n(24, 120))]
    return out


def targeted_histories():
    out = []
    Q = lambda n, a=1: ["q", n, a, False]
    for ser in SERIALIZERS:
        # results never pulled, then a second batch
        out.append({"kind": "hist", "ser": ser, "s0": 0, "events": [Q("add", 1), Q("add", 2), ["s", "call"], Q("add", 10), ["s", "call"], ["i", 1, -1]]})
        # results pulled only after new calls were queued
        out.append({"kind": "hist", "ser": ser, "s0": 0, "events": [Q("add", 1), Q("add", 2), ["s", "call"], Q("add", 10), Q("boom", 1), Q("add", 100),
                                                                    ["i", 0, -1], ["s", "call"], ["i", 1, -1]]})
        # partially pulled, via the adapter, oneway in between
        out.append({"kind": "hist", "ser": ser, "s0": 3, "events": [Q("add", 1), Q("mul", 2), ["s", "invoke"], ["i", 0, 1], Q("sub", 100), Q("add", 1), ["s", "oneway"],
                                                                    Q("get", 0), ["s", "call"], ["i", 2, -1]]})
        # a submission that raises, then re-use
        out.append({"kind": "hist", "ser": ser, "s0": 0, "events": [Q("add", 1), Q("hidden", 1), ["s", "call"], Q("add", 5), ["s", "call"], ["i", 1, -1]]})
        # a oneway batch must have taken effect before the next request on the same proxy is served
        out.append({"kind": "hist", "gate": True, "ser": ser, "s0": 0, "events": [Q("add", 1), Q("gated", 10), Q("add", 100), ["s", "oneway"], Q("get", 0), ["s", "call"], ["i", 1, -1]]})
        # double-underscore names: exposed special methods, private, unexposed and reserved ones
        out.append({"kind": "hist", "ser": ser, "s0": 2, "events": [Q("add", 1), Q("__len__", 0), Q("__getitem__", 5), ["s", "call"], ["i", 0, -1], Q("add", 1), Q("__secret", 0), Q("add", 5), ["s", "call"]]})
        out.append({"kind": "hist", "ser": ser, "s0": 2, "events": [Q("add", 1), Q("__hidden__", 0), Q("add", 5), ["s", "oneway"], Q("__del__", 0), ["s", "call"]]})
        # empty submissions
        out.append({"kind": "hist", "ser": ser, "s0": 0, "events": [["s", "call"], ["i", 0, -1], ["s", "oneway"], Q("add", 1), ["s", "call"], ["s", "call"], ["i", 2, -1], ["i", 3, -1]]})
    return out


# ---------------------------------------------------------------- generator
ARGS = [0, 0, 1, 1, 2, 3, 5, 7, -1, -2, -9, 10, 100, 1000, 10 ** 6, -10 ** 6, 2 ** 31, 10 ** 12, MODULUS, MODULUS - 1]


def gen_call(rng, pfail):
    r = rng.random()
    if r < pfail:
        k = rng.random()
        if k < 0.45:
            name = rng.choice(REFUSED)
            return [name, 0 if name in NOARG else rng.choice(ARGS), False]
        if k < 0.65:
            return ["boom", rng.choice(ARGS), rng.random() < 0.3]
        if k < 0.8:
            return ["div", 0, rng.random() < 0.3]
        return ["sub", rng.choice([10 ** 6, 10 ** 12, 2 ** 31, 10 ** 13]), rng.random() < 0.3]
    name = rng.choice(["add", "add", "add", "mul", "mul", "get", "sub", "sub", "div", "__len__", "__getitem__", "__len__", "gated"])
    arg = rng.choice(ARGS) if rng.random() < 0.7 else rng.randint(-50, 50)
    if name == "div" and arg == 0 and rng.random() < 0.7:
        arg = rng.choice([1, 2, 3, -2, 7])
    if name in NOARG:
        arg = 0
    return [name, arg, rng.random() < 0.3]


def gen_cases(ctx):
    rng = ctx.rng
    n = ctx.n(2600, 40000)
    maxlen = 12 if ctx.quick else 40
    cases = []
    for i in range(n):
        r = rng.random()
        if r < 0.75:
            ln = rng.choice([0, 1, 1, 2, 2, 3, 3, 4, 5, 6, 8, 10, 12])
        else:
            ln = rng.randint(0, maxlen)
        pfail = rng.choice([0.0, 0.05, 0.1, 0.2, 0.4])
        calls = [gen_call(rng, pfail) for _ in range(ln)]
        oneway = rng.random() < 0.35
        case = {"ser": rng.choice(SERIALIZERS), "oneway": oneway,
                "s0": rng.choice([0, 0, 1, 5, 100, -3, rng.randint(-10 ** 6, 10 ** 6)]), "calls": calls}
        if not oneway and rng.random() < 0.15:
            case["submit"] = "invoke"
        if (case["ser"] in CARRIES_EXC or case["ser"] in EXC_SINGLE_ONLY) and rng.random() < 0.15:
            # a member that succeeds and RETURNS an exception object, anywhere in the batch
            calls.insert(rng.randint(0, len(calls)), ["lasterr", rng.choice(ARGS), rng.random() < 0.3])
        cases.append(case)
    return cases


def targeted():
    """every kind of failing member at every position of a short batch, both modes, every serializer;
    the witness of the no-break refutation; empty batch"""
    out = []
    fails = [["sub", 10 ** 6, False], ["div", 0, False], ["boom", 4, False]] + [[n, 0 if n in NOARG else 1, False] for n in REFUSED]
    for ser in SERIALIZERS:
        for oneway in (False, True):
            out.append({"ser": ser, "oneway": oneway, "s0": 0, "calls": []})
            out.append({"ser": ser, "oneway": oneway, "s0": 0, "calls": [["add", 3, False], ["sub", 9, False], ["add", 1, False]]})
            for f in fails:
                for pos in range(3):
                    calls = [["add", 2, False], ["mul", 3, True], ["add", 5, False]]
                    calls.insert(pos, list(f))
                    out.append({"ser": ser, "oneway": oneway, "s0": 1, "calls": calls})
            out.append({"ser": ser, "oneway": oneway, "s0": 3, "calls": [["add", 1, False], ["add", 2, False], ["__len__", 0, False], ["__getitem__", 4, True], ["add", 3, False], ["__len__", 0, False]]})
            if ser in CARRIES_EXC or ser in EXC_SINGLE_ONLY:
                # returned is not raised: an exception object as a member's VALUE, at every position, with calls after it
                for pos in range(4):
                    calls = [["add", 2, False], ["mul", 3, True], ["add", 5, False]]
                    calls.insert(pos, ["lasterr", 7, False])
                    out.append({"ser": ser, "oneway": oneway, "s0": 1, "calls": calls})
                out.append({"ser": ser, "oneway": oneway, "s0": 1, "calls": [["lasterr", 1, False], ["lasterr", 2, True], ["sub", 10 ** 6, False], ["add", 1, False]]})
            # two failing members: only the first counts
            out.append({"ser": ser, "oneway": oneway, "s0": 2, "calls": [["add", 1, False], ["boom", 1, False], ["hidden", 1, False], ["add", 1, False]]})
            out.append({"ser": ser, "oneway": oneway, "s0": 2, "calls": [["add", 1, False], ["hidden", 1, False], ["boom", 1, False], ["add", 1, False]]})
    return out


def first_failure(obs):
    o = obs["seq"]["outs"]
    if o and o[-1][0] == "exc":
        executed = len(obs["seq"]["log"]) == len(o)
        return len(o) - 1, o[-1][1]["cls"], executed
    return None


def execute(ctx, cases, model_ok, res, broken_sers):
    lits, kept = [], []
    keep = res.quirks.get("queue_survives_failed_submit", False)
    for case in cases:
        if case.get("kind") == "hist":
            obs = run_history(case)
            nsub = sum(1 for e in case["events"] if e[0] == "s")
            res.seen(case, nontrivial=nsub >= 2)
            res.count("ser:" + case["ser"])
            res.count("history_submissions_%d" % min(nsub, 6))
            for e in case["events"]:
                if e[0] == "s":
                    res.count("history_submit:" + e[1])
                elif e[0] == "i":
                    res.count("history_pull:" + ("all" if e[2] < 0 else "none" if e[2] == 0 else "partial"))
            for sig, what in oracle_history(case, obs):
                res.violations.append({"signature": sig, "what": what, "case": case})
            lit = c_hist(case, obs, keep)
            if lit is None:
                res.mismatches.append({"component": "C11", "case": case, "impl": obs, "model": "value outside the model's vocabulary"})
                continue
            lits.append(lit)
            kept.append((case, obs))
            continue
        obs = run_impl(case)
        ff = first_failure(obs)
        res.seen(case, nontrivial=len(case["calls"]) >= 2)
        res.count("ser:" + case["ser"])
        res.count("mode:" + ("oneway" if case["oneway"] else case.get("submit", "call")))
        res.count("len_%s" % (len(case["calls"]) if len(case["calls"]) <= 6 else ("7-12" if len(case["calls"]) <= 12 else "13+")))
        res.count("first_failure:" + ("none" if ff is None else "%s@%s%s" % (ff[1], ff[0] if ff[0] < 4 else "4+", "" if ff[2] else ":refused")))
        res.count("batch_view:" + obs["batch"]["view"][0])
        for sig, what in oracle(case, obs):
            res.violations.append({"signature": sig, "what": what, "case": case})
        lit = c_case(case, obs, case["ser"] in broken_sers)
        if lit is None:
            res.mismatches.append({"component": "C11", "case": case, "impl": obs, "model": "value outside the model's vocabulary"})
            continue
        lits.append(lit)
        kept.append((case, obs))
    if model_ok:
        for idx in vlib.run_cases(ctx, "c", IMPORTS, "case", "check_case", lits):
            case, obs = kept[idx]
            res.mismatches.append({"component": "C11", "case": case, "impl": obs})
    return res


def probe_all(res):
    broken = set()
    for ser in SERIALIZERS:
        try:
            b = probe_submit(ser)
        except Exception:
            b = False
        res.quirks["batch_submit_fails:" + ser] = b
        if b:
            broken.add(ser)
    REFUSAL_SEEN.clear()
    for ser in SERIALIZERS:
        for name in REFUSED:
            args, kwargs = call_args(name, 1, False)
            e = env()
            e.b.total, e.b.log = 0, []
            try:
                e.pb[ser]._pyroInvoke(name, args, kwargs)
            except Exception as x:
                if not e.b.log:       # refused without running anything
                    c = exc_canon(x)
                    REFUSAL_SEEN[(c["cls"], json.dumps(c["args"], sort_keys=True, default=repr))] = WHY[name]
    CARRIES_EXC.clear()
    EXC_SINGLE_ONLY.clear()
    for ser in SERIALIZERS:
        try:
            v = env().pb[ser].errlist()
            ok = isinstance(v, (list, tuple)) and len(v) == 2 and isinstance(v[0], ValueError) and tuple(v[0].args) == ("underflow", 1, 2)
        except Exception:
            ok = False
        res.quirks["carries_exception_object_in_list:" + ser] = ok
        if ok:
            CARRIES_EXC.add(ser)
        else:
            try:
                v = env().pb[ser].lasterr(2)
                if isinstance(v, ValueError) and tuple(v.args)[:1] == ("underflow",):
                    EXC_SINGLE_ONLY.add(ser)
            except Exception:
                pass
        res.quirks["returned_exception_breaks_batch_reply:" + ser] = ser in EXC_SINGLE_ONLY
    try:
        res.quirks["queue_survives_failed_submit"] = probe_keep()
    except Exception:
        res.quirks["queue_survives_failed_submit"] = False
    return broken


def run(ctx, model_ok=True):
    res = vlib.Result()
    try:
        broken_sers = probe_all(res)
        cases = vlib.load_corpus(PROP) + targeted() + targeted_histories() + gen_cases(ctx) + gen_histories(ctx)
        execute(ctx, cases, model_ok, res, broken_sers)
    finally:
        close_env()
    res.rule = ("seeded random batches of length 0..12 (thorough 0..40) over an accumulator object: add/mul/get, state-dependent "
                "sub (ValueError), div (ZeroDivisionError), boom (mutates then raises), unexposed, private, reserved-dunder, missing and "
                "dotted names; arguments from a table of small/large/negative integers, positional or keyword; random initial total; "
                "normal (BatchProxy() or its _pyroInvoke adapter) and oneway mode; serpent/json/marshal/msgpack; each batch is also run "
                "one call at a time on a second identical object. Plus histories of ONE re-used BatchProxy: 2..4 (thorough ..6) submissions "
                "(normal / adapter / oneway), 0..4 calls queued before each, the result generator of each submission pulled immediately, late "
                "(after further calls were queued or after later submissions), partially (0, 1, 2 items) or never; every submission is compared "
                "with the calls queued since the previous submission made one by one from the object state reached so far. "
                "non-trivial = at least two calls / two submissions; distinct = distinct case hash")
    res.samples = cases[-3:] + cases[:2]
    return res


def search(ctx, broken):
    res = vlib.Result()
    try:
        probe_all(vlib.Result())
        cases = [b["case"] for b in broken if b.get("case")] + targeted() + targeted_histories() + gen_cases(ctx) + gen_histories(ctx)
        for case in cases:
            res.seen(case)
            if case.get("kind") == "hist":
                found = oracle_history(case, run_history(case))
            else:
                found = oracle(case, run_impl(case))
            for sig, what in found:
                res.violations.append({"signature": sig, "what": what, "case": case})
    finally:
        close_env()
    return res


def replay(ctx, case):
    try:
        if case.get("kind") == "hist":
            obs = run_history(case)
            bad = oracle_history(case, obs)
            if bad:
                return True, {"oracle": bad, "impl": obs}
            res = vlib.Result()
            broken_sers = probe_all(res)
            execute(ctx, [case], True, res, broken_sers)
            if res.mismatches:
                lit = c_hist(case, obs, res.quirks.get("queue_survives_failed_submit", False))
                model = vlib.eval_model(ctx, IMPORTS, "match %s with Hist c => model_history c | One _ => ([], 0%%Z) end" % lit) if lit else "unprintable"
                return True, {"mismatch": True, "impl": obs, "model": model[-1500:]}
            return False, {"impl": obs}
        obs = run_impl(case)
        bad = oracle(case, obs)
        if bad:
            return True, {"oracle": bad, "impl": obs}
        res = vlib.Result()
        broken_sers = probe_all(res)
        execute(ctx, [case], True, res, broken_sers)
        if res.mismatches:
            lit = c_case(case, obs, case["ser"] in broken_sers)
            model = vlib.eval_model(ctx, IMPORTS, "match %s with One c => Some (model_batch c, model_seq c) | Hist _ => None end" % lit) if lit else "unprintable"
            return True, {"mismatch": True, "impl": obs, "model": model[-1500:]}
        return False, {"impl": obs}
    finally:
        close_env()
