"""C12 — per-call context never leaks between calls or clients (DESIGN 6/C12).

Server half: histories of raw clients against a real Daemon running its real request loop
(tools/lib/rawdrv.py), both server types.  Every method call is `Target.run(steps, do_raise)`:
the steps make the method record the context it sees and set response annotations (by
assignment or by item update); the harness records which thread served which request
(instance-level wrappers around daemon._handshake / handleRequest), every reply's annotations
and every snapshot, and compares with Model/CallCtx.v run on the same event list.
Client half: a real Proxy in the harness thread against such a server; after each call the
client's current_context.response_annotations is compared with the model of _pyroInvoke.
The oracle states the property directly over these observations."""
import contextlib, threading, time, uuid, concurrent.futures
from tools.lib import vlib
from tools.lib import rawdrv as rd
from tools.lib.vlib import cN, cnat, cbool, clist, copt

PROP = "C12"
GEN = ["GenCallCtx"]
ASSUMPTIONS = [
    "serving a request is modelled as micro-steps (begin / user code reads or sets the context / reply) of the serving thread; "
    "which thread serves which request is observed and fed to the model, the theorems hold for every assignment",
    "user methods are arbitrary sequences of context reads and response-annotation writes followed by return or raise",
    "Daemon.annotations() is a constant of the daemon (it is overridable user code); in part of the histories the hook hands out one long-lived dict object, which the daemon must leave unchanged",
    "late scheduling of a oneway thread is forced by wrapping _OnewayCallThread.run in the harness process (the thread waits on an event before the original run())",
    "a request whose peer reset the connection while it was queued is fed to the model with the address field None iff getpeername() fails on that connection when handleRequest is entered",
    "in-place stores a method makes into its own request's annotations are subtracted from what later reads of the same request see before comparing with the request message's annotations",
    "a nested Proxy call made by a method from the serving thread shares the thread's context with the server side; not modelled",
    "the correlation id the handshake and PING code stores in the context is not modelled (every method call is preceded by the set-up that overwrites it)",
]
IMPORTS = "From V Require Import Model.CallCtx Harness.Cmp Harness.H12."

B36 = "0123456789ABCDEFGHIJKLMNOPQRSTUVWXYZ"
FIELD_NAMES = ["client", "client_sock_addr", "seq", "msg_flags", "serializer_id", "annotations", "correlation_id"]
SERIALIZERS = ["serpent", "json", "marshal"]
KINDS = ["KConnOk", "KConnFail", "KPing", "KResult", "KBatch", "KError"]
POOL_MAX = 3


def key(n):
    p, m = ("D", n - 40000) if n >= 40000 else ("R", n)
    return p + B36[(m // 1296) % 36] + B36[(m // 36) % 36] + B36[m % 36]


def unkey(k):
    try:
        m = B36.index(k[1]) * 1296 + B36.index(k[2]) * 36 + B36.index(k[3])
        if k[0] == "D":
            return 40000 + m
        if k[0] == "R":
            return m
    except (ValueError, IndexError):
        pass
    return 99999


def adict(ids):
    return {key(i): str(i).encode() for i in ids}


def ids_of(anns):
    return sorted(unkey(k) for k in anns)


def corr_uuid(tok):
    return uuid.UUID(int=(0xC12 << 64) + tok)


# ---------------------------------------------------------------- the world around one server
class World:
    def __init__(self):
        self.lock = threading.Lock()
        self.snaps = {}         # tok -> raw snapshot dict
        self.done = set()       # tokens of finished method invocations
        self.hs = []            # (peer port, thread, server-side connection object) per _handshake call
        self.reqs = []          # [connection object, thread, could the peer address be determined?] per handleRequest call
        self.gates = {}
        self.entered = {}
        self.gate_thread = {}   # gate token -> thread that waits / waited there
        self.threads = []       # strong references: index = model thread id

    def tid(self, th):
        with self.lock:
            for i, t in enumerate(self.threads):
                if t is th:
                    return i
            self.threads.append(th)
            return len(self.threads) - 1


def peer_port(conn):
    try:
        return conn.sock.getpeername()[1]
    except Exception:
        return None


def make_target(world):
    import Pyro5.api as api
    from Pyro5.callcontext import current_context as cc

    class Target:
        def _run(self, steps, do_raise, tok):
            try:
                for st in steps:
                    if st[0] == "snap":
                        world.snaps[st[1]] = {
                            "thread": threading.current_thread(), "client": cc.client, "client_sock_addr": cc.client_sock_addr,
                            "seq": cc.seq, "msg_flags": cc.msg_flags, "serializer_id": cc.serializer_id,
                            "annotations": {k: bytes(v) for k, v in dict(cc.annotations).items()},
                            "correlation_id": cc.correlation_id}
                    elif st[0] == "set":
                        if st[1] == "A":
                            cc.response_annotations = adict(st[2])
                        else:
                            for i in st[2]:
                                cc.response_annotations[key(i)] = str(i).encode()
                    elif st[0] == "tagreq":
                        # in-place store into the request annotations the method was handed
                        cc.annotations[key(st[1])] = b"tag"
                    elif st[0] == "gate":
                        world.gate_thread[st[1]] = threading.current_thread()
                        world.entered[st[1]].set()
                        world.gates[st[1]].wait(60)
                if do_raise:
                    raise ValueError("scripted failure %d" % tok)
                return tok
            finally:
                world.done.add(tok)

        @api.expose
        def run(self, steps, do_raise, tok):
            return self._run(steps, do_raise, tok)

        @api.expose
        @api.oneway
        def run_ow(self, steps, do_raise, tok):
            return self._run(steps, do_raise, tok)
    return Target()


class Stopper:
    """servers are shut down in the background: Daemon.shutdown()/Pool.close() mostly sleep"""
    def __init__(self):
        self.pool = concurrent.futures.ThreadPoolExecutor(max_workers=12)
        self.futs = []

    def stop(self, srv):
        self.futs.append(self.pool.submit(srv.stop))

    def finish(self):
        for f in self.futs:
            with contextlib.suppress(Exception):
                f.result(timeout=20)
        self.pool.shutdown(wait=True)


_STOPPER = None
_CONFIG_SAVED = None
_PARK = {"armed": False, "started": None, "release": None, "thread": None}
_ORIG_ONEWAY_RUN = None


def patch_oneway_thread():
    """scheduling control for `late` oneway calls: when armed, the next oneway thread is held at the very start of its
    run() (before it restores the context it was given) until the harness releases it; nothing else is altered"""
    global _ORIG_ONEWAY_RUN
    import Pyro5.server as ps
    if _ORIG_ONEWAY_RUN is not None:
        return
    _ORIG_ONEWAY_RUN = ps._OnewayCallThread.run
    orig = _ORIG_ONEWAY_RUN

    def run(self):
        if _PARK["armed"]:
            _PARK["armed"] = False
            _PARK["thread"] = threading.current_thread()
            release = _PARK["release"]
            _PARK["started"].set()
            release.wait(60)
        orig(self)
    ps._OnewayCallThread.run = run


def unpatch_oneway_thread():
    global _ORIG_ONEWAY_RUN
    if _ORIG_ONEWAY_RUN is not None:
        import Pyro5.server as ps
        ps._OnewayCallThread.run = _ORIG_ONEWAY_RUN
        _ORIG_ONEWAY_RUN = None


def setup_config():
    global _STOPPER, _CONFIG_SAVED
    from Pyro5 import config
    if _CONFIG_SAVED is None:
        _CONFIG_SAVED = {k: getattr(config, k) for k in ("SERVERTYPE", "COMMTIMEOUT", "THREADPOOL_SIZE", "THREADPOOL_SIZE_MIN", "POLLTIMEOUT", "MAX_RETRIES", "SERIALIZER")}
        config.THREADPOOL_SIZE_MIN = 1
        config.POLLTIMEOUT = 0.05
        config.COMMTIMEOUT = 0.0
        config.MAX_RETRIES = 0
    if _STOPPER is None:
        _STOPPER = Stopper()
    patch_oneway_thread()


def teardown_config():
    global _STOPPER, _CONFIG_SAVED
    from Pyro5 import config
    if _STOPPER is not None:
        _STOPPER.finish()
        _STOPPER = None
    unpatch_oneway_thread()
    if _CONFIG_SAVED is not None:
        for k, v in _CONFIG_SAVED.items():
            setattr(config, k, v)
        _CONFIG_SAVED = None


def start_server(case, world):
    from Pyro5 import config
    config.THREADPOOL_SIZE = case["pool"]
    srv = rd.Server(case["server"], commtimeout=None, pool_size=case["pool"], pool_min=1)
    srv.start()
    srv._saved = {}                      # configuration is managed by this harness, not restored per server
    config.THREADPOOL_SIZE = case["pool"]
    d = srv.daemon
    dmn = adict(case["dmn"])
    if case.get("dmn_keep"):
        # the hook returns the SAME dict object every time (an attribute / class constant: an ordinary way to write it);
        # the daemon must not accumulate anything in it
        d.annotations = lambda: dmn
    else:
        d.annotations = lambda: dict(dmn)
    orig_hs, orig_hr = d._handshake, d.handleRequest
    from Pyro5.callcontext import current_context as cc

    def hs(conn, denied_reason=None):
        world.hs.append((peer_port(conn), threading.current_thread(), conn))
        return orig_hs(conn, denied_reason)

    def hr(conn):
        world.reqs.append([conn, threading.current_thread(), peer_port(conn) is not None])
        return orig_hr(conn)
    d._handshake = hs
    d.handleRequest = hr
    srv.register(make_target(world), "obj")
    return srv


TMO = 20.0          # generous: only reached when something is actually missing (the machine may be heavily loaded)


def wait_for(pred, timeout=TMO):
    t0 = time.time()
    n = 0
    while not pred():
        if time.time() - t0 > timeout:
            return False
        n += 1
        time.sleep(0.0003 if n < 200 else 0.003)
    return True


def busy_count(srv):
    a = srv.accounting()
    return a.get("busy", a.get("registered"))


# ---------------------------------------------------------------- running one server history
def reply_kind(m):
    from Pyro5 import protocol
    if m["type"] == protocol.MSG_CONNECTOK:
        return "KConnOk"
    if m["type"] == protocol.MSG_CONNECTFAIL:
        return "KConnFail"
    if m["type"] == protocol.MSG_PING:
        return "KPing"
    if m["type"] == protocol.MSG_RESULT:
        if m["flags"] & protocol.FLAGS_EXCEPTION:
            return "KError"
        if m["flags"] & protocol.FLAGS_BATCH:
            return "KBatch"
        return "KResult"
    return "K?%d" % m["type"]


def build_invoke(op, method, vargs, extra_flags=0, payload=None):
    """-> (message bytes, header flags as sent)"""
    from Pyro5 import protocol
    from Pyro5.callcontext import current_context as cc
    cc.correlation_id = corr_uuid(op["tok"]) if op.get("corr") else None
    try:
        data = rd.invoke_msg("obj" if not op.get("noobj") else "nosuchobject", method, vargs, {}, seq=op["seq"], serializer=op.get("ser", "serpent"),
                             flags=extra_flags, annotations={"QREQ": str(op["tok"]).encode()} if op.get("qann", True) else {}, payload=payload)
    finally:
        cc.correlation_id = None
    hdr = protocol.ReceivingMessage(data[:rd.HEADER])
    return data, hdr.flags


def member_steps(steps):
    """model events of the user code of one method invocation on thread t (filled in later)"""
    out = []
    for st in steps:
        if st[0] == "snap":
            out.append(["N", None, st[1]])
        elif st[0] == "set":
            out.append(["S", None, "Assign" if st[1] == "A" else "Update", list(st[2])])
        elif st[0] == "gate":
            out.append(["gate", st[1]])
    return out


class ServerRun:
    def __init__(self, case):
        self.case = case
        self.world = World()
        self.clients = {}       # conn index -> RawClient
        self.ports = {}         # client port -> conn index
        self.events = []        # model events (JSON)
        self.outputs = []       # observed outputs in model-event order (JSON)
        self.facts = []         # for the oracle: one dict per reply / snapshot
        self.problems = []
        self.conn_thread = {}   # conn index -> model thread id
        self.conn_obj = {}      # conn index -> server-side SocketConnection
        self.req_tags = {}      # request (op index) -> annotation ids its own methods stored in place into the request annotations

    # -- helpers
    def thread_of_request(self, c, n_before=None):
        """model thread id serving connection c: the thread that did its handshake (a thread-pool worker keeps the
        connection for its whole life; the multiplex server has one thread); method snapshots record the thread they
        really ran in, so a wrong guess shows up as a disagreement"""
        return self.conn_thread.get(c, 900)

    def add_reply(self, c, m, op_index, allowed, expected=True):
        if isinstance(m, dict) and "type" in m:
            k = reply_kind(m)
            ids = ids_of(m["annotations"])
            if expected:
                self.outputs.append(["reply", c, k, ids])
            else:
                self.outputs.append(["extra"])
            self.facts.append({"what": "reply", "op": op_index, "c": c, "kind": k, "ids": ids, "allowed": sorted(allowed)})
        else:
            if expected:
                self.outputs.append(["missing"])
                self.problems.append("op %d: no reply (%r)" % (op_index, m))

    def canon_snapshot(self, raw, tok, own_tags=()):
        w = self.world
        t = w.tid(raw["thread"])
        client = 9000
        for ci, obj in self.conn_obj.items():
            if obj is raw["client"]:
                client = ci
        addr = raw["client_sock_addr"]
        addr = self.ports.get(addr[1], 9001) if isinstance(addr, tuple) and len(addr) >= 2 else 9001
        # what the method itself stored in place into its request's annotations before this read is its own doing
        anns = {k: v for k, v in raw["annotations"].items() if unkey(k) not in own_tags}
        if not anns:
            a = 0
        elif list(anns) == ["QREQ"] and anns["QREQ"].isdigit():
            a = int(anns["QREQ"])
        else:
            a = 9002
        corr = raw["correlation_id"]
        return t, [client, addr, raw["seq"], raw["msg_flags"], raw["serializer_id"], a, ("corr", corr)]

    def settle_corr(self):
        """correlation ids: a request that carried one is identified by it (its token); one generated by the server
        is 'fresh' (0) for the first request whose method sees it and stale (9003) for any other request"""
        own = {}
        for op in self.all_calls:
            if op.get("corr"):
                own[corr_uuid(op["tok"])] = op["tok"]
        first = {}
        for f in self.facts:
            if f["what"] == "ctx":
                o = f["out"]
                tag, corr = o[3][6]
                if corr in own:
                    o[3][6] = own[corr]
                elif corr is None:
                    o[3][6] = 9004
                elif first.setdefault(corr, f["op"]) == f["op"]:
                    o[3][6] = 0
                else:
                    o[3][6] = 9003
                f["seen"] = list(o[3])

    def expected_req(self, c, op, flags):
        from Pyro5 import serializers
        return [c, c, op["seq"], flags, serializers.serializers[op.get("ser", "serpent")].serializer_id,
                op["tok"] if op.get("qann", True) else 0, op["tok"] if op.get("corr") else 0]

    def user_code(self, t, steps, rq, op_index, stop_at_gate=False, start=0, addr_ok=None):
        """append the model events of a method body running on model thread t; returns index of the gate step or None"""
        for i in range(start, len(steps)):
            st = steps[i]
            if st[0] == "snap":
                self.events.append(["N", t, st[1]])
                raw = self.world.snaps.get(st[1])
                if raw is None:
                    self.outputs.append(["missing"])
                    self.problems.append("snapshot %d was never taken" % st[1])
                else:
                    t_obs, fields = self.canon_snapshot(raw, st[1], tuple(self.req_tags.setdefault(op_index, [])))
                    out = ["ctx", t_obs, st[1], fields]
                    self.outputs.append(out)
                    self.facts.append({"what": "ctx", "op": op_index, "tok": st[1], "expected": rq, "out": out,
                                       "addr_ok": addr_ok if addr_ok is not None else [rq[1]]})
            elif st[0] == "set":
                self.events.append(["S", t, "Assign" if st[1] == "A" else "Update", list(st[2])])
            elif st[0] == "tagreq":
                self.req_tags.setdefault(op_index, []).append(st[1])
            elif st[0] == "gate" and stop_at_gate:
                return i
        return None

    # -- operations
    def do_connect(self, i, op):
        c = op["c"]
        srv = self.srv
        n_hs = len(self.world.hs)
        try:
            cl = rd.RawClient(srv.port, timeout=TMO)
        except OSError as x:
            self.problems.append("connect failed: %r" % x)
            return
        self.clients[c] = cl
        self.ports[cl.port] = c
        how = op["how"]
        if how == "ok":
            cl.send(rd.connect_msg("obj", op.get("ser", "serpent")))
        elif how == "refused":
            cl.send(rd.connect_msg("nosuchobject", op.get("ser", "serpent")))
        else:
            cl.send(rd.ping_msg(seq=3))          # not a CONNECT message: recv_stub raises
        m = cl.recv_msg()
        wait_for(lambda: any(e[0] == cl.port for e in self.world.hs[n_hs:]))
        th = [e[1] for e in self.world.hs[n_hs:] if e[0] == cl.port]
        t = self.world.tid(th[0]) if th else 901
        for e in self.world.hs[n_hs:]:
            if e[0] == cl.port:
                self.conn_obj[c] = e[2]
        full = self.case["server"] == "thread" and self.busy_before >= self.case["pool"]
        h = {"ok": "HOk", "refused": "HRefused", "garbage": "HGarbage"}[how]
        if full and h == "HOk":
            h = "HRefused"                        # pool exhausted: the accept loop refuses
        self.events.append(["H", t, c, h])
        self.conn_thread[c] = t
        self.add_reply(c, m, i, [])
        if h != "HOk":
            cl.close()
            self.open.discard(c)
            if not wait_for(lambda: busy_count(srv) <= self.busy_before):
                self.problems.append("op %d: refused connection still accounted for" % i)
        else:
            self.open.add(c)
            if not wait_for(lambda: busy_count(srv) >= self.busy_before + 1):
                self.problems.append("op %d: accepted connection not accounted for" % i)

    def do_close(self, i, op):
        c = op["c"]
        before = busy_count(self.srv)
        self.clients[c].close()
        self.open.discard(c)
        if not wait_for(lambda: busy_count(self.srv) <= before - 1):
            self.problems.append("op %d: closed connection %d still accounted for (%s)" % (i, c, self.srv.accounting()))

    def do_ping(self, i, op):
        c = op["c"]
        cl = self.clients[c]
        n = len(self.world.reqs)
        cl.send(rd.ping_msg(seq=op["seq"], serializer=op.get("ser", "serpent")))
        m = cl.recv_msg()
        t = self.thread_of_request(c, n)
        self.events.append(["P", t, c])
        self.add_reply(c, m, i, [])

    def own_ids(self, steps):
        out = []
        for st in steps:
            if st[0] == "set":
                out.extend(st[2])
        return out

    def do_call(self, i, op, inner=None):
        """call / oneway / badcall / undecodable / overlap (inner = ops executed while the method waits at its gate)"""
        from Pyro5 import protocol
        c = op["c"]
        cl = self.clients[c]
        kind = op["op"]
        n = len(self.world.reqs)
        steps = op.get("steps", [])
        flags = 0
        method = "run"
        payload = None
        if kind == "oneway":
            flags |= protocol.FLAGS_ONEWAY
        if kind == "badcall":
            method = "no_such_method"
        if kind == "undecodable":
            payload = b"\x00\x01 this is not a serialized call \xff"
        for st in steps:
            if st[0] == "gate":
                self.world.gates[st[1]] = threading.Event()
                self.world.entered[st[1]] = threading.Event()
        data, hflags = build_invoke(op, method, (steps, bool(op.get("raise")), op["tok"]), flags, payload)
        self.all_calls.append(op)
        rq = self.expected_req(c, op, hflags)
        late = kind == "oneway" and op.get("late") is not None
        if late:
            _PARK.update(started=threading.Event(), release=threading.Event(), thread=None)
            _PARK["armed"] = True
        cl.send(data)
        gate = [st[1] for st in steps if st[0] == "gate"]
        if gate:
            if not self.world.entered[gate[0]].wait(TMO):
                self.problems.append("method never reached its gate")
        t = self.thread_of_request(c, n)
        if kind == "undecodable":
            self.events.append(["B", t, None])
            m = cl.recv_msg()
            self.events.append(["X", t, c])
            self.add_reply(c, m, i, [])
            return
        self.events.append(["B", t, rq])
        if kind == "badcall" or op.get("noobj"):
            m = cl.recv_msg()
            self.events.append(["X", t, c])
            self.add_reply(c, m, i, [])
            return
        if late:
            # the new thread is held before it runs; meanwhile the serving thread handles other requests completely
            park = dict(_PARK)
            if not park["started"].wait(TMO):
                self.problems.append("oneway thread of %d never started" % op["tok"])
            _PARK["armed"] = False
            o = self.world.tid(_PARK["thread"] if _PARK["thread"] is not None else object())
            self.events.append(["W", t, o])
            self.events.append(["D", t])
            m = cl.recv_msg(timeout=0.003)
            self.add_reply(c, m, i, [], expected=False)
            for j, sub in enumerate(op["late"]):
                self.do_op(2000 * (i + 1) + j, sub)
            park["release"].set()
            if not wait_for(lambda: op["tok"] in self.world.done):
                self.problems.append("oneway method %d did not finish" % op["tok"])
            self.user_code(o, steps, rq, i)
            return
        if kind == "oneway":
            ok = wait_for(lambda: op["tok"] in self.world.done)
            if not ok:
                self.problems.append("oneway method %d did not finish" % op["tok"])
            # the thread the method ran in: a fresh one per oneway call
            o = None
            for st in steps:
                if st[0] == "snap" and st[1] in self.world.snaps:
                    o = self.world.tid(self.world.snaps[st[1]]["thread"])
            if o is None:
                o = self.world.tid(object())
            self.events.append(["W", t, o])
            self.user_code(o, steps, rq, i)
            self.events.append(["D", t])
            m = cl.recv_msg(timeout=0.003)
            self.add_reply(c, m, i, [], expected=False)
            return
        # normal call, possibly waiting at a gate while other requests are served
        if gate:
            g = self.user_code(t, steps, rq, i, stop_at_gate=True)
            # snapshots after the gate are not taken yet: user_code above must only emit the part before the gate
            for j, sub in enumerate(inner or []):
                self.do_op(1000 * (i + 1) + j, sub)
            self.world.gates[gate[0]].set()
            m = cl.recv_msg()
            self.user_code(t, steps, rq, i, start=g + 1)
        else:
            m = cl.recv_msg()
            self.user_code(t, steps, rq, i)
        if op.get("raise"):
            self.events.append(["X", t, c])
            self.add_reply(c, m, i, [])
        else:
            self.events.append(["R", t, c, False])
            self.add_reply(c, m, i, self.own_ids(steps))

    def do_resetq(self, i, op):
        """connection b's oneway request is queued at the server while the thread that will serve it is held inside a
        method (holder); b then resets its connection; the holder is released and the thread serves the queued request of
        a connection whose peer address can no longer be determined"""
        from Pyro5 import protocol
        b, call, hold = op["c"], op["call"], op["holder"]
        clb = self.clients[b]
        g = [st[1] for st in (hold.get("steps") or [s for mem in hold.get("members", []) for s in mem["steps"]]) if st[0] == "gate"][0]
        self.world.gates[g] = threading.Event()
        self.world.entered[g] = threading.Event()
        hc = hold["c"]
        if hold["op"] == "call":
            data_h, hf = build_invoke(hold, "run", (hold["steps"], bool(hold.get("raise")), hold["tok"]), 0)
        else:
            calls = [("run", (mem["steps"], bool(mem.get("raise")), mem["tok"]), {}) for mem in hold["members"]]
            data_h, hf = build_invoke(hold, "<batch>", calls, protocol.FLAGS_BATCH | protocol.FLAGS_ONEWAY)
        self.all_calls.append(hold)
        rq_h = self.expected_req(hc, hold, hf)
        self.clients[hc].send(data_h)
        if not self.world.entered[g].wait(TMO):
            self.problems.append("holder never reached its gate")
        th = self.thread_of_request(hc)
        data_b, bf = build_invoke(call, "run", (call["steps"], False, call["tok"]), protocol.FLAGS_ONEWAY)
        self.all_calls.append(call)
        rq_b = self.expected_req(b, call, bf)
        before = busy_count(self.srv)
        clb.send(data_b)
        time.sleep(0.01)
        clb.reset()
        self.open.discard(b)
        time.sleep(0.03)                      # the reset reaches the server side socket
        n = len(self.world.reqs)
        self.world.gates[g].set()
        self.events.append(["B", th, rq_h])
        if hold["op"] == "call":
            m = self.clients[hc].recv_msg()
            self.user_code(th, hold["steps"], rq_h, i)
            if hold.get("raise"):
                self.events.append(["X", th, hc])
                self.add_reply(hc, m, i, [])
            else:
                self.events.append(["R", th, hc, False])
                self.add_reply(hc, m, i, self.own_ids(hold["steps"]))
        else:
            wait_for(lambda: hold["members"][-1]["tok"] in self.world.done)
            for mem in hold["members"]:
                self.user_code(th, mem["steps"], rq_h, i)
            self.events.append(["D", th])
        # was the queued request served at all (it is lost if the reset overtook it)?
        if wait_for(lambda: call["tok"] in self.world.done, 1.5):
            tb = self.thread_of_request(b)
            cobj = self.conn_obj.get(b)
            unknown = any(e[0] is cobj and not e[2] for e in self.world.reqs[n:])
            if unknown:
                rq_b[1] = 9001
            self.events.append(["B", tb, rq_b])
            o = None
            for st in call["steps"]:
                if st[0] == "snap" and st[1] in self.world.snaps:
                    o = self.world.tid(self.world.snaps[st[1]]["thread"])
            if o is None:
                o = self.world.tid(object())
            self.events.append(["W", tb, o])
            self.user_code(o, call["steps"], rq_b, 3000 * (i + 1), addr_ok=[b, 9001])
            self.events.append(["D", tb])
        if not wait_for(lambda: busy_count(self.srv) <= before - 1, 3.0):
            self.problems.append("op %d: reset connection %d still accounted for" % (i, b))

    def do_owstore(self, i, op):
        """a oneway method (own thread) waits at a gate and then stores response annotations while the thread that accepted
        it is in the middle of serving another request (between that request's begin and its reply)"""
        from Pyro5 import protocol
        ow, call = op["oneway"], op["call"]
        c, d = ow["c"], call["c"]
        for st in ow["steps"] + call["steps"]:
            if st[0] == "gate":
                self.world.gates[st[1]] = threading.Event()
                self.world.entered[st[1]] = threading.Event()
        g1 = [st[1] for st in ow["steps"] if st[0] == "gate"][0]
        g2 = [st[1] for st in call["steps"] if st[0] == "gate"][0]
        data_o, of = build_invoke(ow, "run", (ow["steps"], False, ow["tok"]), protocol.FLAGS_ONEWAY)
        self.all_calls.append(ow)
        rq_o = self.expected_req(c, ow, of)
        self.clients[c].send(data_o)
        if not self.world.entered[g1].wait(TMO):
            self.problems.append("oneway method never reached its gate")
        t = self.thread_of_request(c)
        o = self.world.tid(self.world.gate_thread.get(g1) or object())
        self.events.append(["B", t, rq_o])
        self.events.append(["W", t, o])
        k1 = self.user_code(o, ow["steps"], rq_o, i, stop_at_gate=True)
        self.events.append(["D", t])
        # the other request: begun, its method waits before the reply is built
        data_r, rf = build_invoke(call, "run", (call["steps"], bool(call.get("raise")), call["tok"]), 0)
        self.all_calls.append(call)
        rq_r = self.expected_req(d, call, rf)
        self.clients[d].send(data_r)
        if not self.world.entered[g2].wait(TMO):
            self.problems.append("method never reached its gate")
        t2 = self.thread_of_request(d)
        self.events.append(["B", t2, rq_r])
        k2 = self.user_code(t2, call["steps"], rq_r, 4000 * (i + 1), stop_at_gate=True)
        # now the oneway method stores its annotations and finishes
        self.world.gates[g1].set()
        if not wait_for(lambda: ow["tok"] in self.world.done):
            self.problems.append("oneway method %d did not finish" % ow["tok"])
        self.user_code(o, ow["steps"], rq_o, i, start=k1 + 1)
        self.world.gates[g2].set()
        m = self.clients[d].recv_msg()
        self.user_code(t2, call["steps"], rq_r, 4000 * (i + 1), start=k2 + 1)
        if call.get("raise"):
            self.events.append(["X", t2, d])
            self.add_reply(d, m, i, [])
        else:
            self.events.append(["R", t2, d, False])
            self.add_reply(d, m, i, self.own_ids(call["steps"]))

    def do_batch(self, i, op):
        from Pyro5 import protocol
        c = op["c"]
        cl = self.clients[c]
        n = len(self.world.reqs)
        flags = protocol.FLAGS_BATCH | (protocol.FLAGS_ONEWAY if op.get("oneway") else 0)
        calls = [("run", (mem["steps"], bool(mem.get("raise")), mem["tok"]), {}) for mem in op["members"]]
        data, hflags = build_invoke(op, "<batch>", calls, flags)
        self.all_calls.append(op)
        rq = self.expected_req(c, op, hflags)
        cl.send(data)
        executed = []
        for mem in op["members"]:
            executed.append(mem)
            if mem.get("raise"):
                break
        m = None
        if not op.get("oneway"):
            m = cl.recv_msg()
        else:
            wait_for(lambda: executed[-1]["tok"] in self.world.done)
        t = self.thread_of_request(c, n)
        self.events.append(["B", t, rq])
        own = []
        for mem in executed:
            self.user_code(t, mem["steps"], rq, i)
            own.extend(self.own_ids(mem["steps"]))
        if op.get("oneway"):
            self.events.append(["D", t])
            m = cl.recv_msg(timeout=0.003)
            self.add_reply(c, m, i, [], expected=False)
        else:
            self.events.append(["R", t, c, True])
            self.add_reply(c, m, i, own)

    def do_op(self, i, op):
        self.busy_before = busy_count(self.srv)
        k = op["op"]
        if k == "connect":
            self.do_connect(i, op)
        elif op["c"] not in self.open:
            return                                 # connection is gone (closed by an earlier step): skip
        elif k == "close":
            self.do_close(i, op)
        elif k == "ping":
            self.do_ping(i, op)
        elif k == "batch":
            self.do_batch(i, op)
        elif k == "overlap":
            self.do_call(i, dict(op["call"], op="call"), inner=op["inner"])
        elif k == "owstore":
            if op["call"]["c"] in self.open and op["oneway"]["c"] in self.open:
                self.do_owstore(i, op)
        elif k == "resetq":
            if op["holder"]["c"] in self.open:
                self.do_resetq(i, op)
        else:
            self.do_call(i, op)

    def run(self):
        setup_config()
        self.open = set()
        self.all_calls = []
        self.srv = start_server(self.case, self.world)
        try:
            for i, op in enumerate(self.case["ops"]):
                self.do_op(i, op)
            # fix up the snapshot part emitted before a gate: user_code(stop_at_gate) emitted nothing for later steps
            self.settle_corr()
        finally:
            for g in self.world.gates.values():
                g.set()
            for cl in self.clients.values():
                with contextlib.suppress(Exception):
                    cl.close()
            _STOPPER.stop(self.srv)
        return {"events": self.events, "outputs": self.outputs, "problems": self.problems, "facts": self.facts,
                "threads": len(self.world.threads)}


def run_server_case(case):
    return ServerRun(case).run()


# ---------------------------------------------------------------- client half
def run_client_case(case):
    """real Proxy objects in this thread against a real server; returns model events + observed annotations"""
    setup_config()
    import Pyro5.api as api
    import Pyro5.protocol as protocol
    import Pyro5.errors as errors
    from Pyro5 import config
    from Pyro5.callcontext import current_context as cc
    world = World()
    # a generous pool: proxies that are dropped free their worker asynchronously, a refused connection is not what is tested here
    srv = start_server({"server": case["server"], "pool": 12, "dmn": case["dmn"], "dmn_keep": case.get("dmn_keep")}, world)
    me = threading.get_ident()
    seen = []      # (msg type, annotation ids) of every message received by this thread
    orig_recv = protocol.recv_stub

    def recv_stub(connection, accepted=None):
        m = orig_recv(connection, accepted)
        if threading.get_ident() == me:
            seen.append((m.type, ids_of(m.annotations)))
        return m
    protocol.recv_stub = recv_stub
    orig_invoke = api.Proxy._pyroInvoke

    def marked_invoke(self, *a, **kw):
        if threading.get_ident() == me:
            seen.append(("invoke", []))
        return orig_invoke(self, *a, **kw)
    api.Proxy._pyroInvoke = marked_invoke
    proxies = {}
    events, obs, facts = [], [], []
    cc.correlation_id = None
    cc.annotations = {}
    config.SERIALIZER = "serpent"
    try:
        for i, op in enumerate(case["ops"]):
            del seen[:]
            k = op["op"]
            if k == "new":
                proxies[op["p"]] = api.Proxy("PYRO:obj@127.0.0.1:%d" % srv.port)
                proxies[op["p"]]._pyroTimeout = TMO
                events.append(["new"])
                obs.append(ids_of(cc.response_annotations))
                facts.append({"op": i, "kind": "new", "after": obs[-1], "hs": None, "reply": None, "own": []})
                continue
            p = proxies.get(op["p"])
            if p is None:
                continue
            if k == "release":
                p._pyroRelease()
                continue
            own = []
            try:
                if k == "call":
                    own = [x for st in op["steps"] if st[0] == "set" for x in st[2]]
                    p.run(op["steps"], bool(op.get("raise")), op["tok"])
                elif k == "oneway":
                    p.run_ow(op["steps"], bool(op.get("raise")), op["tok"])
                elif k == "batch":
                    b = api.BatchProxy(p)
                    for mem in op["members"]:
                        b.run(mem["steps"], bool(mem.get("raise")), mem["tok"])
                        own += [x for st in mem["steps"] if st[0] == "set" for x in st[2]]
                    list(b())
                elif k == "badcall":
                    p._pyroInvoke("no_such_method", (), {})
            except (ValueError, AttributeError, errors.PyroError):
                pass
            after = ids_of(cc.response_annotations)
            starts = [j for j, (t, a) in enumerate(seen) if t == "invoke"]
            if not starts:
                # the operation failed before _pyroInvoke was entered (e.g. the connection for the metadata could not be
                # made): no call took place, so there is nothing the property speaks about
                continue
            during = seen[starts[-1]:]                          # what the last _pyroInvoke of this operation received
            hs = [a for (t, a) in during if t == protocol.MSG_CONNECTOK]
            rep = [a for (t, a) in during if t == protocol.MSG_RESULT]
            if k == "batch" and len(rep) > 1:
                rep = rep[-1:]
            # the metadata fetch some versions do after connecting would show up as an extra RESULT: keep the last
            ev = ["call", hs[-1] if hs else None, rep[-1] if rep else None]
            events.append(ev)
            obs.append(after)
            facts.append({"op": i, "kind": k, "after": after, "hs": hs[-1] if hs else None, "reply": rep[-1] if rep else None,
                          "own": sorted(own), "n_results": len(rep)})
            if k == "oneway":
                wait_for(lambda: op["tok"] in world.done)
    finally:
        protocol.recv_stub = orig_recv
        api.Proxy._pyroInvoke = orig_invoke
        for p in proxies.values():
            with contextlib.suppress(Exception):
                p._pyroRelease()
        cc.response_annotations = {}
        _STOPPER.stop(srv)
    return {"events": events, "outputs": obs, "facts": facts, "problems": []}


# ---------------------------------------------------------------- oracle: the property, over the observations
def oracle(case, obs):
    bad = []
    if case["kind"] == "server":
        dmn = set(case["dmn"])
        for f in obs["facts"]:
            if f["what"] == "reply":
                stale = [x for x in f["ids"] if x not in dmn and x not in f["allowed"]]
                if stale:
                    bad.append(("stale-response-annotations",
                                "the %s reply to connection %d (operation %s) carries response annotation(s) %s that were not set while serving that request"
                                % (f["kind"][1:], f["c"], f["op"], [key(x) for x in stale])))
            else:
                seen, exp = f["seen"], f["expected"]
                wrong = [FIELD_NAMES[j] for j in range(7) if (seen[j] not in f["addr_ok"] if j == 1 else seen[j] != exp[j])]
                if wrong:
                    bad.append(("context-not-of-request",
                                "the method of operation %s (token %d) read context field(s) %s that are not those of the request being served (saw %s, request has %s)"
                                % (f["op"], f["tok"], wrong, seen, exp)))
    else:
        dmn = set(case["dmn"])
        for f in obs["facts"]:
            after = f["after"]
            if f["kind"] == "new":
                want = []
            elif f["reply"]:
                want = f["reply"]
            elif f["hs"]:
                want = f["hs"]
            else:
                want = []
            if sorted(after) != sorted(want):
                bad.append(("client-sees-foreign-annotations",
                            "after client operation %d (%s) current_context.response_annotations holds %s but that call's reply carried %s"
                            % (f["op"], f["kind"], [key(x) for x in after], [key(x) for x in want])))
            sent = set(f["reply"] or []) | set(f["hs"] or [])
            stale = sorted(x for x in sent if x not in dmn and x not in f["own"])
            if stale:
                bad.append(("stale-response-annotations",
                            "during client operation %d (%s) the server sent annotation(s) %s which that call did not set"
                            % (f["op"], f["kind"], [key(x) for x in stale])))
    return bad


# ---------------------------------------------------------------- Gallina
def c_req(r):
    if r[1] == 9001:
        return "(peer_unknown (mkreq %s))" % clist([cN(x) for x in r])
    return "(mkreq %s)" % clist([cN(x) for x in r])


def c_event(e):
    k = e[0]
    if k == "H":
        return "EHandshake %s %s %s" % (cnat(e[1]), cN(e[2]), e[3])
    if k == "P":
        return "EPing %s %s" % (cnat(e[1]), cN(e[2]))
    if k == "B":
        return "EBegin %s %s" % (cnat(e[1]), "None" if e[2] is None else "(Some %s)" % c_req(e[2]))
    if k == "S":
        return "ESet %s %s %s" % (cnat(e[1]), e[2], clist([cN(x) for x in e[3]]))
    if k == "N":
        return "ESnap %s %s" % (cnat(e[1]), cN(e[2]))
    if k == "R":
        return "EReturn %s %s %s" % (cnat(e[1]), cN(e[2]), cbool(e[3]))
    if k == "X":
        return "ERaise %s %s" % (cnat(e[1]), cN(e[2]))
    if k == "D":
        return "EDone %s" % cnat(e[1])
    if k == "W":
        return "ESpawn %s %s" % (cnat(e[1]), cnat(e[2]))
    raise ValueError(e)


def c_out(o):
    if o[0] == "reply":
        if o[2] not in KINDS:
            return "JExtra"
        return "JReply %s %s %s" % (cN(o[1]), o[2], clist([cN(x) for x in o[3]]))
    if o[0] == "ctx":
        f = [x if isinstance(x, int) and x >= 0 else 9005 for x in o[3]]
        return "JCtx %s %s %s" % (cnat(o[1]), cN(o[2]), clist([cN(x) for x in f]))
    if o[0] == "missing":
        return "JMissing"
    return "JExtra"


def c_cevent(e):
    ol = lambda x: "None" if x is None else "(Some %s)" % clist([cN(v) for v in x])
    if e[0] == "new":
        return "CNew"
    if e[0] == "bind":
        return "CCall %s None" % ol(e[1])
    return "CCall %s %s" % (ol(e[1]), ol(e[2]))


def c_case(case, obs):
    if case["kind"] == "server":
        return "SC {| k_dmn := %s; k_events := %s; k_obs := %s |}" % (
            clist([cN(x) for x in case["dmn"]]), clist([c_event(e) for e in obs["events"]]), clist([c_out(o) for o in obs["outputs"]]))
    return "CC {| c_events := %s; c_obs := %s |}" % (
        clist([c_cevent(e) for e in obs["events"]]), clist([clist([cN(x) for x in o]) for o in obs["outputs"]]))


# ---------------------------------------------------------------- generator
class Tok:
    def __init__(self):
        self.t = 0
        self.a = 0

    def tok(self):
        self.t += 1
        return self.t

    def ann(self):
        self.a += 1
        return self.a


def gen_steps(rng, tk, force_set=False):
    steps = []
    n = rng.choice([0, 1, 1, 2, 2, 3])
    for _ in range(n):
        r = rng.random()
        if r < 0.4:
            steps.append(["snap", tk.tok()])
        elif r < 0.52:
            steps.append(["tagreq", tk.ann()])
        else:
            steps.append(["set", rng.choice(["A", "U", "U"]), [tk.ann() for _ in range(rng.choice([1, 1, 2]))]])
    if force_set and not any(s[0] == "set" for s in steps):
        steps.append(["set", rng.choice(["A", "U"]), [tk.ann()]])
    if rng.random() < 0.5:
        steps.insert(rng.randrange(len(steps) + 1), ["snap", tk.tok()])
    return steps


def gen_callop(rng, tk, c, seqs, kind=None, force_set=False, raise_=None):
    seqs[c] = (seqs.get(c, 0) + rng.choice([1, 1, 1, 7])) & 0xffff
    op = {"op": kind or "call", "c": c, "seq": seqs[c], "tok": tk.tok(), "ser": rng.choice(SERIALIZERS),
          "corr": rng.random() < 0.5, "qann": rng.random() < 0.7}
    if op["op"] in ("call", "oneway"):
        op["steps"] = gen_steps(rng, tk, force_set)
        op["raise"] = (rng.random() < 0.4) if raise_ is None else raise_
    if op["op"] == "batch":
        op["ser"] = rng.choice(["serpent", "json"])    # marshal cannot carry the wrapped exception of a failing member
        op["oneway"] = rng.random() < 0.25
        op["members"] = []
        for _ in range(rng.choice([1, 2, 3])):
            op["members"].append({"steps": gen_steps(rng, tk), "raise": rng.random() < 0.25, "tok": tk.tok()})
    if op["op"] == "badcall":
        op["noobj"] = rng.random() < 0.4
    return op


def gen_server_case(rng, size=None):
    server = rng.choice(["thread", "multiplex"])
    pool = rng.choice([1, 1, 2, POOL_MAX]) if server == "thread" else 1
    case = {"kind": "server", "server": server, "pool": pool, "dmn": rng.choice([[], [], [40001], [40001, 40002]]), "ops": []}
    case["dmn_keep"] = rng.random() < 0.4
    tk = Tok()
    ops = case["ops"]
    open_, nextc, seqs = [], [0], {}
    cap = pool if server == "thread" else 4

    def connect(how="ok"):
        c = nextc[0]
        nextc[0] += 1
        ops.append({"op": "connect", "c": c, "how": how, "ser": rng.choice(SERIALIZERS)})
        will_open = how == "ok" and (server != "thread" or len(open_) < pool)
        if will_open:
            open_.append(c)
        return c if will_open else None
    connect()
    n = size if size is not None else rng.choice([3, 5, 8, 12, 16])
    while len(ops) < n:
        r = rng.random()
        c = rng.choice(open_) if open_ else None
        if c is None or r < 0.10:
            if len(open_) >= cap and rng.random() < 0.7 and open_:
                victim = rng.choice(open_)
                ops.append({"op": "close", "c": victim})
                open_.remove(victim)
            connect(rng.choice(["ok", "ok", "ok", "refused", "garbage"]))
        elif r < 0.16 and len(open_) > 0:
            ops.append({"op": "close", "c": c})
            open_.remove(c)
        elif r < 0.26:
            seqs[c] = (seqs.get(c, 0) + 1) & 0xffff
            ops.append({"op": "ping", "c": c, "seq": seqs[c], "ser": rng.choice(SERIALIZERS)})
        elif r < 0.62:
            ops.append(gen_callop(rng, tk, c, seqs))
        elif r < 0.72:
            ops.append(gen_callop(rng, tk, c, seqs, "oneway"))
        elif r < 0.82:
            ops.append(gen_callop(rng, tk, c, seqs, "batch"))
        elif r < 0.88:
            ops.append(gen_callop(rng, tk, c, seqs, rng.choice(["badcall", "undecodable"])))
        elif r < 0.97:
            # the pattern that exposes stale annotations: a call that sets annotations and raises, then something else on that thread
            ops.append(gen_callop(rng, tk, c, seqs, "call", force_set=True, raise_=True))
            follow = rng.choice(["ping", "close+connect", "close+garbage", "close+refused", "other", "oneway"])
            if follow == "ping":
                seqs[c] = (seqs.get(c, 0) + 1) & 0xffff
                ops.append({"op": "ping", "c": c, "seq": seqs[c]})
            elif follow.startswith("close+"):
                ops.append({"op": "close", "c": c})
                open_.remove(c)
                connect({"connect": "ok", "garbage": "garbage", "refused": "refused"}[follow[6:]])
            elif follow == "oneway":
                ops.append(gen_callop(rng, tk, c, seqs, "oneway"))
            else:
                others = [x for x in open_ if x != c]
                if others:
                    ops.append(gen_callop(rng, tk, rng.choice(others), seqs, "call", raise_=False))
        elif r < 0.985 and rng.random() < 0.75:
            # a oneway call whose thread gets to run only after the serving thread has completely served other requests
            call = gen_callop(rng, tk, c, seqs, "oneway")
            if not any(st[0] == "snap" for st in call["steps"]):
                call["steps"].append(["snap", tk.tok()])
            call["raise"] = False
            inner = []
            for k in range(rng.choice([1, 1, 2])):
                o = c if (server == "thread" or rng.random() < 0.3) else rng.choice(open_)
                kind = "call" if k == 0 else rng.choice(["call", "ping", "batch"])
                if kind == "ping":
                    seqs[o] = (seqs.get(o, 0) + 1) & 0xffff
                    inner.append({"op": "ping", "c": o, "seq": seqs[o]})
                else:
                    inner.append(gen_callop(rng, tk, o, seqs, kind))
            call["late"] = inner
            ops.append(call)
        elif r < 0.985 and rng.random() < 0.4:
            # a still running oneway method stores response annotations while its accepting thread is inside another request
            ow = gen_callop(rng, tk, c, seqs, "oneway")
            ow["raise"] = False
            ow["steps"] = ow["steps"] + [["gate", tk.tok()], ["set", "U", [tk.ann()]]] + ([["snap", tk.tok()]] if rng.random() < 0.5 else [])
            d = c if (server == "thread" or rng.random() < 0.3) else rng.choice(open_)
            call = gen_callop(rng, tk, d, seqs, "call")
            call["steps"].insert(rng.randrange(len(call["steps"]) + 1), ["gate", tk.tok()])
            ops.append({"op": "owstore", "c": c, "oneway": ow, "call": call})
        elif r < 0.985:
            # a queued oneway request of a client that resets its connection before the (held) thread gets to serve it
            others = [x for x in open_ if x != c]
            call = gen_callop(rng, tk, c, seqs, "oneway")
            call["steps"] = [["snap", tk.tok()]] + [st for st in call["steps"] if st[0] != "gate"]
            call["raise"] = False
            if server == "multiplex" and others:
                hold = gen_callop(rng, tk, rng.choice(others), seqs, "call")
                hold["steps"].insert(rng.randrange(len(hold["steps"]) + 1), ["gate", tk.tok()])
            elif server == "thread":
                hold = gen_callop(rng, tk, c, seqs, "batch")
                hold["oneway"] = True
                for mem in hold["members"]:
                    mem["raise"] = False
                hold["members"][0]["steps"].append(["gate", tk.tok()])
            else:
                hold = None
            if hold is not None:
                # the holder precedes the queued request on its connection
                if hold["c"] == c:
                    hold["seq"], call["seq"] = min(hold["seq"], call["seq"]), max(hold["seq"], call["seq"])
                ops.append({"op": "resetq", "c": c, "holder": hold, "call": call})
                open_.remove(c)
        else:
            # two calls in flight at once (thread server with a spare worker only)
            others = [x for x in open_ if x != c]
            if server == "thread" and others:
                call = gen_callop(rng, tk, c, seqs, "call")
                g = tk.tok()
                call["steps"].insert(rng.randrange(len(call["steps"]) + 1), ["gate", g])
                if rng.random() < 0.7:
                    call["steps"].append(["snap", tk.tok()])
                inner = []
                for _ in range(rng.choice([1, 2, 3])):
                    o = rng.choice(others)
                    kind = rng.choice(["call", "call", "ping", "oneway", "batch"])
                    if kind == "ping":
                        seqs[o] = (seqs.get(o, 0) + 1) & 0xffff
                        inner.append({"op": "ping", "c": o, "seq": seqs[o]})
                    else:
                        inner.append(gen_callop(rng, tk, o, seqs, kind))
                ops.append({"op": "overlap", "c": c, "call": call, "inner": inner})
    return case


def gen_client_case(rng):
    case = {"kind": "client", "server": rng.choice(["thread", "multiplex"]), "dmn": rng.choice([[], [], [40001]]), "ops": []}
    case["dmn_keep"] = rng.random() < 0.4
    tk = Tok()
    ops = case["ops"]
    nprox = rng.choice([1, 1, 2])
    for p in range(nprox):
        ops.append({"op": "new", "p": p})
    for _ in range(rng.choice([3, 5, 8, 12])):
        p = rng.randrange(nprox)
        r = rng.random()
        if r < 0.45:
            ops.append({"op": "call", "p": p, "tok": tk.tok(), "steps": gen_steps(rng, tk, force_set=rng.random() < 0.6), "raise": rng.random() < 0.4})
        elif r < 0.6:
            ops.append({"op": "oneway", "p": p, "tok": tk.tok(), "steps": gen_steps(rng, tk), "raise": rng.random() < 0.2})
        elif r < 0.72:
            ops.append({"op": "batch", "p": p, "members": [{"steps": gen_steps(rng, tk), "raise": rng.random() < 0.2, "tok": tk.tok()}
                                                           for _ in range(rng.choice([1, 2]))]})
        elif r < 0.8:
            ops.append({"op": "badcall", "p": p})
        elif r < 0.9:
            ops.append({"op": "release", "p": p})
        else:
            ops.append({"op": "new", "p": p})
    return case


def targeted():
    """the known witness family, both server types: raise with annotations, then every kind of next reply"""
    out = []
    for server, pool in (("multiplex", 1), ("thread", 1), ("thread", 2)):
        for dmn in ([], [40001]):
            for mode in ("A", "U"):
                base = [{"op": "connect", "c": 0, "how": "ok"},
                        {"op": "call", "c": 0, "seq": 1, "tok": 1, "ser": "serpent", "corr": True, "steps": [["snap", 2], ["set", mode, [7]]], "raise": True}]
                for how in ("ok", "refused", "garbage"):
                    out.append({"kind": "server", "server": server, "pool": pool, "dmn": dmn, "ops": base + [
                        {"op": "close", "c": 0}, {"op": "connect", "c": 1, "how": how},
                        {"op": "call", "c": 1, "seq": 1, "tok": 5, "ser": "marshal", "corr": True, "steps": [["snap", 6]], "raise": False}]})
                out.append({"kind": "server", "server": server, "pool": pool, "dmn": dmn, "ops": base + [
                    {"op": "call", "c": 0, "seq": 2, "tok": 3, "ser": "json", "corr": False, "steps": [["set", "U", [8]], ["snap", 4]], "raise": False}]})
                out.append({"kind": "server", "server": server, "pool": pool, "dmn": dmn, "ops": base + [{"op": "ping", "c": 0, "seq": 2}]})
                out.append({"kind": "server", "server": server, "pool": pool, "dmn": dmn, "ops": base + [
                    {"op": "batch", "c": 0, "seq": 2, "tok": 9, "ser": "serpent", "corr": False, "oneway": True,
                     "members": [{"steps": [["set", "U", [11]]], "raise": False, "tok": 10}]},
                    {"op": "ping", "c": 0, "seq": 3}]})
                out.append({"kind": "server", "server": server, "pool": pool, "dmn": dmn, "ops": base + [
                    {"op": "oneway", "c": 0, "seq": 2, "tok": 12, "ser": "serpent", "corr": True, "steps": [["snap", 13], ["set", mode, [14]]], "raise": False},
                    {"op": "call", "c": 0, "seq": 3, "tok": 15, "ser": "serpent", "corr": False, "steps": [["snap", 16]], "raise": False}]})
    # a oneway thread scheduled late, and a request whose peer reset its connection while it was queued
    out.append({"kind": "server", "server": "multiplex", "pool": 1, "dmn": [], "ops": [
        {"op": "connect", "c": 0, "how": "ok"}, {"op": "connect", "c": 1, "how": "ok"},
        {"op": "oneway", "c": 0, "seq": 41, "tok": 1, "ser": "serpent", "corr": True, "steps": [["snap", 2]], "raise": False,
         "late": [{"op": "call", "c": 1, "seq": 701, "tok": 3, "ser": "json", "corr": True, "steps": [["snap", 4]], "raise": False}]}]})
    out.append({"kind": "server", "server": "thread", "pool": 2, "dmn": [40001], "ops": [
        {"op": "connect", "c": 0, "how": "ok"},
        {"op": "oneway", "c": 0, "seq": 5, "tok": 1, "ser": "json", "corr": False, "steps": [["snap", 2], ["set", "U", [7]]], "raise": False,
         "late": [{"op": "call", "c": 0, "seq": 6, "tok": 3, "ser": "marshal", "corr": True, "qann": False, "steps": [["snap", 4]], "raise": False},
                  {"op": "ping", "c": 0, "seq": 7}]}]})
    out.append({"kind": "server", "server": "multiplex", "pool": 1, "dmn": [], "ops": [
        {"op": "connect", "c": 0, "how": "ok"}, {"op": "connect", "c": 1, "how": "ok"},
        {"op": "resetq", "c": 1,
         "holder": {"op": "call", "c": 0, "seq": 1, "tok": 1, "ser": "serpent", "corr": True, "steps": [["snap", 2], ["gate", 3]], "raise": False},
         "call": {"op": "oneway", "c": 1, "seq": 1, "tok": 4, "ser": "serpent", "corr": True, "steps": [["snap", 5]], "raise": False}},
        {"op": "call", "c": 0, "seq": 2, "tok": 6, "ser": "json", "corr": False, "steps": [["snap", 7]], "raise": False}]})
    out.append({"kind": "server", "server": "thread", "pool": 1, "dmn": [], "ops": [
        {"op": "connect", "c": 0, "how": "ok"},
        {"op": "call", "c": 0, "seq": 1, "tok": 1, "ser": "serpent", "corr": False, "steps": [["snap", 2]], "raise": False},
        {"op": "close", "c": 0},
        {"op": "connect", "c": 1, "how": "ok"},
        {"op": "resetq", "c": 1,
         "holder": {"op": "batch", "c": 1, "seq": 1, "tok": 3, "ser": "serpent", "corr": False, "oneway": True,
                    "members": [{"steps": [["snap", 4], ["gate", 5]], "raise": False, "tok": 6}]},
         "call": {"op": "oneway", "c": 1, "seq": 2, "tok": 7, "ser": "json", "corr": True, "steps": [["snap", 8]], "raise": False}}]})
    # a daemon whose annotations() hook hands out one long-lived dict: nothing a call sets may end up in it
    for server, pool in (("multiplex", 1), ("thread", 1)):
        for dmn in ([], [40001]):
            out.append({"kind": "server", "server": server, "pool": pool, "dmn": dmn, "dmn_keep": True, "ops": [
                {"op": "connect", "c": 0, "how": "ok"},
                {"op": "call", "c": 0, "seq": 1, "tok": 1, "ser": "serpent", "corr": True, "steps": [["set", "U", [7]], ["snap", 2]], "raise": False},
                {"op": "call", "c": 0, "seq": 2, "tok": 3, "ser": "json", "corr": False, "qann": False, "steps": [["snap", 4]], "raise": False},
                {"op": "ping", "c": 0, "seq": 3},
                {"op": "close", "c": 0}, {"op": "connect", "c": 1, "how": "ok"},
                {"op": "call", "c": 1, "seq": 1, "tok": 5, "ser": "marshal", "corr": False, "steps": [["set", "A", [8]], ["snap", 6]], "raise": False},
                {"op": "connect", "c": 2, "how": "refused"}]})
    # in-place stores: into the request annotations (then annotation-free requests of others), and by a running oneway method
    for server, pool in (("multiplex", 1), ("thread", 1)):
        out.append({"kind": "server", "server": server, "pool": pool, "dmn": [], "ops": [
            {"op": "connect", "c": 0, "how": "ok"},
            {"op": "call", "c": 0, "seq": 1, "tok": 1, "ser": "serpent", "corr": False, "qann": False, "steps": [["snap", 2], ["tagreq", 7], ["snap", 3]], "raise": False},
            {"op": "call", "c": 0, "seq": 2, "tok": 4, "ser": "json", "corr": True, "qann": False, "steps": [["snap", 5]], "raise": False},
            {"op": "close", "c": 0}, {"op": "connect", "c": 1, "how": "ok"},
            {"op": "call", "c": 1, "seq": 1, "tok": 6, "ser": "marshal", "corr": False, "qann": False, "steps": [["snap", 8]], "raise": False},
            {"op": "call", "c": 1, "seq": 2, "tok": 9, "ser": "serpent", "corr": False, "qann": True, "steps": [["tagreq", 11], ["snap", 10]], "raise": False}]})
        out.append({"kind": "server", "server": server, "pool": pool, "dmn": [], "ops": [
            {"op": "connect", "c": 0, "how": "ok"}] + ([{"op": "connect", "c": 1, "how": "ok"}] if server == "multiplex" else []) + [
            {"op": "owstore", "c": 0,
             "oneway": {"op": "oneway", "c": 0, "seq": 1, "tok": 1, "ser": "serpent", "corr": True, "steps": [["snap", 2], ["gate", 3], ["set", "U", [7]]], "raise": False},
             "call": {"op": "call", "c": 1 if server == "multiplex" else 0, "seq": 2, "tok": 4, "ser": "json", "corr": False,
                      "steps": [["set", "U", [8]], ["gate", 5], ["snap", 6]], "raise": False}}]})
    for server in ("thread", "multiplex"):
        for dmn in ([], [40001]):
            out.append({"kind": "client", "server": server, "dmn": dmn, "ops": [
                {"op": "new", "p": 0},
                {"op": "call", "p": 0, "tok": 1, "steps": [["set", "A", [7]]], "raise": False},
                {"op": "call", "p": 0, "tok": 2, "steps": [["set", "U", [8]]], "raise": True},
                {"op": "oneway", "p": 0, "tok": 3, "steps": [["set", "U", [9]]], "raise": False},
                {"op": "call", "p": 0, "tok": 4, "steps": [], "raise": False},
                {"op": "release", "p": 0},
                {"op": "call", "p": 0, "tok": 5, "steps": [["set", "A", [10]]], "raise": True},
                {"op": "badcall", "p": 0}]})
    return out


def gen_cases(ctx):
    rng = ctx.rng
    cases = []
    for _ in range(ctx.n(850, 8000)):
        cases.append(gen_server_case(rng))
    for _ in range(ctx.n(150, 1300)):
        cases.append(gen_client_case(rng))
    return cases


# ---------------------------------------------------------------- check.py interface
def run_impl(case):
    if case["kind"] == "server":
        return run_server_case(case)
    return run_client_case(case)


def nontrivial(case, obs):
    return len(obs["outputs"]) >= 3


def short_obs(obs):
    return {"events": obs["events"][:60], "outputs": obs["outputs"][:60], "problems": obs["problems"][:5]}


def execute(ctx, cases, model_ok, res):
    lits, kept = [], []
    try:
        for case in cases:
            obs = run_impl(case)
            res.seen(case, nontrivial(case, obs))
            res.count("%s:%s" % (case["kind"], case["server"]))
            if case["kind"] == "server":
                res.count("threads_%d" % min(obs["threads"], 6))
                for e in obs["events"]:
                    res.count("ev_" + e[0])
                for o in obs["outputs"]:
                    res.count("out_" + (o[2] if o[0] == "reply" else o[0]))
            for sig, what in oracle(case, obs):
                res.violations.append({"signature": sig, "what": what, "case": case})
            lits.append(c_case(case, obs))
            kept.append((case, obs))
    finally:
        teardown_config()
    if model_ok:
        for idx in vlib.run_cases(ctx, "c", IMPORTS, "case", "check_case", lits, shard=120):
            case, obs = kept[idx]
            res.mismatches.append({"component": "C12:" + case["kind"], "case": case, "impl": short_obs(obs)})
    return res


RULE = ("seeded random histories of 1-4 raw client connections against a real Daemon request loop (thread-pool server with "
        "THREADPOOL_SIZE 1/2/3 and THREADPOOL_SIZE_MIN 1, or multiplex): handshakes (accepted / unknown object / first message not CONNECT / "
        "refused because the pool is full), pings, calls that return or raise, oneway calls, batches (also oneway), unknown methods and objects, "
        "undecodable arguments, connection closes followed by new connections on the reused thread, and calls overlapping in time "
        "(a method waits at a gate while other connections are served), oneway calls whose thread is held at the start of run() until the "
        "serving thread has completely served other requests (late scheduling), and oneway requests queued behind a held method by a client "
        "that then resets its connection (peer address unknown when served), methods that store IN PLACE into the request annotations they "
        "were handed (followed by annotation-free and annotated requests of other clients), and a still running oneway method that stores "
        "response annotations in place while its accepting thread is between begin and reply of another request; every method records the context it reads and sets fresh annotation "
        "ids by assignment or item update; three serializers, with and without correlation id / request annotations; daemon annotations "
        "none/one/two.  Client half: real Proxy objects (call, raise, oneway, batch, unknown method, release + reconnect, new proxy).  "
        "non-trivial = at least three replies/snapshots observed; distinct = distinct case hash")


def run(ctx, model_ok=True):
    res = vlib.Result()
    cases = vlib.load_corpus(PROP) + targeted() + gen_cases(ctx)
    execute(ctx, cases, model_ok, res)
    res.rule = RULE
    res.samples = cases[-2:] + cases[:1]
    return res


def search(ctx, broken):
    """a tie broke: look for a concrete failing input with the oracle alone (time-boxed)"""
    res = vlib.Result()
    budget = 75 if ctx.quick else 400
    t0 = time.time()
    first = [b["case"] for b in broken if b.get("case")] + targeted()
    try:
        k = 0
        while True:
            if k < len(first):
                case = first[k]
            else:
                if time.time() - t0 > budget or k > 15000:
                    break
                case = gen_client_case(ctx.rng) if k % 6 == 5 else gen_server_case(ctx.rng)
            k += 1
            obs = run_impl(case)
            res.seen(case)
            for sig, what in oracle(case, obs):
                res.violations.append({"signature": sig, "what": what, "case": case})
            if len(res.violations) >= 25:
                break
    finally:
        teardown_config()
    return res


def replay(ctx, case):
    try:
        obs = run_impl(case)
    finally:
        teardown_config()
    bad = oracle(case, obs)
    if bad:
        return True, {"oracle": bad, "impl": short_obs(obs)}
    res = vlib.Result()
    execute(ctx, [case], True, res)
    if res.mismatches:
        expr = "match (%s) with SC s => inl (model_server s) | CC s => inr (model_client s) end" % c_case(case, obs)
        model = vlib.eval_model(ctx, IMPORTS, expr)
        return True, {"mismatch": True, "impl": short_obs(obs), "model": model[-1500:]}
    return False, {"impl": short_obs(obs)}
