#!/bin/bash
# tools/seed_intake.sh <Cxx> <k> [worktree]: confirm an independently written seeded change
# (/tmp/seed_<Cxx>/<k>/{patch.diff,demo.py,meta.json}) in the scratch worktree, run the check
# against it, and keep it as /verif/seeded/<Cxx>_<k>/ with the outcome in confirmed.json / detected.json.
pid="$1"; k="$2"; wt="${3:-/tmp/wt_$pid}"
src="${4:-/tmp/seed_$pid}/$k"; here="$(cd "$(dirname "$0")/.." && pwd)"
n=$k; while [ -e "$here/seeded/${pid}_$n" ]; do n=$((n+10)); done
dst="$here/seeded/${pid}_$n"
mkdir -p "$dst"; cp "$src/patch.diff" "$src/demo.py" "$src/meta.json" "$dst/"
"$here/tools/confirm_seed.sh" "$dst" "$wt"
out=$("$here/tools/mutant_run.sh" "$dst/patch.diff" "$pid" quick 2>&1); rc=$?
viol=$(echo "$out" | grep -c "^VIOLATION")
nofail=$(echo "$out" | grep "^VIOLATION" | grep -c "no-failing-input-found")
echo "$out" | grep -E "^(VIOLATION|KNOWN-FINDING|$pid )" | head -8
python3 - "$dst" "$rc" "$viol" "$nofail" <<PY
import json,sys
d,rc,v,nf=sys.argv[1],int(sys.argv[2]),int(sys.argv[3]),int(sys.argv[4])
json.dump({"check_cmd":"tools/mutant_run.sh seeded/%s/patch.diff %s quick"%(d.split('/')[-1],d.split('/')[-1].split('_')[0]),"exit":rc,"violation_lines":v,"with_concrete_replay":v-nf,"detected":rc!=0 and v>0},open(d+"/detected.json","w"),indent=1)
PY
cat "$dst/detected.json"
