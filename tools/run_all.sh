#!/bin/bash
# tools/run_all.sh [quick|thorough] [Cxx ...]: run the registered checks one after another, print one line each.
cd "$(dirname "$0")/.."
tier="${1:-quick}"; shift
props="$*"
[ -z "$props" ] && props=$(python3 -c "import json;print(' '.join(c['property_id'] for c in json.load(open('MANIFEST.json'))['checks']))")
rc=0
for p in $props; do
  out=$(./check "$p" --tier "$tier" 2>&1); r=$?
  echo "$out" | grep -E "^(VIOLATION|KNOWN-FINDING)" | sed "s/^/    /"
  echo "$out" | grep -E "^$p (OK|FAILED)" || echo "$p exit=$r (no summary line)"
  [ $r -ne 0 ] && rc=1
done
exit $rc
