#!/usr/bin/env python3
"""./check <Cxx> --tier quick|thorough [--replay FILE]      (DESIGN.md section 2)

exit 0: proofs re-checked against the tables regenerated from the current tree, model
and implementation agree on everything explored, no unlisted property violation.
exit 1: a line `VIOLATION property=<id> replay=<path>` was printed."""
import argparse, importlib, json, os, sys, time, traceback

HERE = os.path.dirname(os.path.abspath(__file__))
VERIF = os.path.dirname(HERE)
sys.path.insert(0, VERIF)

from tools.lib import vlib  # noqa: E402


def main():
    ap = argparse.ArgumentParser()
    ap.add_argument("prop")
    ap.add_argument("--tier", default="quick", choices=["quick", "thorough"])
    ap.add_argument("--replay")
    args = ap.parse_args()
    tier = os.environ.get("VERIF_TIER") or args.tier
    if tier not in ("quick", "thorough"):
        tier = args.tier
    try:
        seed = int(os.environ.get("VERIF_SEED", "0"))
    except ValueError:
        seed = 0
    tree = os.environ.get("PYRO5_TREE", "/repo")
    # the implementation under test is imported from the tree, never from site-packages
    sys.path.insert(0, tree)
    os.environ["PYTHONPATH"] = tree
    sys.dont_write_bytecode = True
    ctx = vlib.Ctx(args.prop, tier, seed, tree)
    mod = importlib.import_module("tools.harness." + args.prop)

    if args.replay:
        with open(args.replay, encoding="utf-8") as f:
            payload = json.load(f)
        sys.exit(replay(ctx, mod, payload))

    # 1. regenerate Gen tables from the tree
    from tools.gen import gen
    with vlib.build_lock():
        try:
            gstat = gen.regenerate_isolated(tree)      # all plugins, in a child process (see its docstring)
        except Exception as x:
            gstat = {k: {"ok": False, "error": "generator run failed: %s" % x, "changed": False, "info": {}} for k in getattr(mod, "GEN", [])}
    gen_needed = getattr(mod, "GEN", [])
    gen_fail = {k: v["error"] for k, v in gstat.items() if k in gen_needed and not v["ok"]}
    # 2. re-check the proofs
    proof = vlib.build_props(args.prop)
    broken = []
    for k, e in gen_fail.items():
        broken.append({"component": "extractor:" + k, "message": e})
    if not proof["ok"]:
        broken.append({"component": "theorem", **(proof["broken"] or {})})
    coqchk_summary = None
    if proof["ok"] and tier == "thorough":
        chk_ok, coqchk_summary = vlib.run_coqchk(args.prop)
        if not chk_ok:
            broken.append({"component": "theorem", "theorem": "Props/%s.v (coqchk)" % args.prop, "message": coqchk_summary})
    # 3/4. quirk probes + correspondence + oracle on the implementation
    res = None
    harness_error = None
    if proof["ok"] or getattr(mod, "RUN_WITHOUT_PROOFS", True):
        try:
            res = mod.run(ctx, model_ok=proof["ok"] and not gen_fail)
        except vlib.CoqRunError as x:
            harness_error = str(x)
            broken.append({"component": "correspondence-runner", "message": str(x)[-1500:]})
        except Exception:
            harness_error = traceback.format_exc()
            broken.append({"component": "harness", "message": harness_error[-2500:]})
    if res is None:
        res = vlib.Result()
    for m in res.mismatches[:50]:
        broken.append({"component": "correspondence:" + m.get("component", args.prop), "case": m.get("case"),
                       "impl": m.get("impl"), "model": m.get("model")})
    new_v, known_lines = classify(ctx, res.violations)
    # 6. a broken tie: search for a concrete failing input
    searched = False
    if broken and not new_v and hasattr(mod, "search"):
        searched = True
        ctx.scale = 10
        try:
            sres = mod.search(ctx, broken)
            nv, kl = classify(ctx, sres.violations)
            new_v.extend(nv)
            for l in kl:
                if l not in known_lines:
                    known_lines.append(l)
            res.extra["search_evaluations"] = sres.evaluations
        except Exception:
            ctx.notes.append("search failed: " + traceback.format_exc()[-800:])
    exit_code = 0
    lines = []
    if new_v:
        seen = set()
        for v in new_v:
            if v["signature"] in seen:
                continue
            seen.add(v["signature"])
            path = vlib.write_replay(ctx, {"property": ctx.prop, "kind": "input", "signature": v["signature"],
                                           "what": v["what"], "case": v["case"], "seed": ctx.seed,
                                           "broken": broken[:3]})
            lines.append("VIOLATION property=%s replay=%s" % (ctx.prop, path))
        exit_code = 1
    elif broken:
        b = broken[0]
        path = vlib.write_replay(ctx, {"property": ctx.prop, "kind": "theorem" if b["component"] in ("theorem",) or b["component"].startswith("extractor") else "correspondence",
                                       "broken": broken[:10], "seed": ctx.seed, "searched": searched,
                                       "note": "no concrete failing input found; the named theorem / correspondence component no longer checks"})
        lines.append("VIOLATION property=%s replay=%s no-failing-input-found" % (ctx.prop, path))
        exit_code = 1
    # evidence
    nthm = len(proof["theorems"])
    discharged = nthm if proof["ok"] else 0
    tb = ["kernel: coqc 8.16.1 (vm_compute used for computed table checks, _refuted witnesses and case evaluation; no native_compute)",
          "extractor tools/gen/gen.py (fail-closed ast reader)",
          "correspondence harness tools/harness/%s.py (differential testing; validates the model, not a proof)" % ctx.prop]
    if coqchk_summary:
        tb.append("coqchk -o (independent checker, thorough tier): " + coqchk_summary)
    for name, txt in proof["assumptions"].items():
        tb.append("Print Assumptions %s: %s" % (name, " ".join(txt.split())))
    cov = {"obligations": nthm, "discharged": discharged,
           "checker_cmd": "make -C coq Props/%s.vo && coqc -Q coq V coq/Props/%s.v" % (ctx.prop, ctx.prop),
           "trusted_base": tb, "theorems": proof["theorems"],
           "gen_tables": {k: {"ok": v["ok"], "sha": v.get("sha"), "error": v["error"], "reader": (v.get("info") or {}).get("mode")} for k, v in gstat.items() if k in gen_needed},
           "evaluations": res.evaluations, "distinct_nontrivial": len(res.keys), "rule": res.rule,
           "samples": res.samples[:6] if res.samples else [{"theorems": proof["theorems"]}],
           "input_distribution": res.dist, "disagreements_checked": len(res.mismatches),
           "quirks_observed": res.quirks, "known_findings_reproduced": known_lines,
           "broken": broken[:5], "notes": ctx.notes}
    cov.update(res.extra)
    vlib.write_evidence(ctx, cov, list(getattr(mod, "ASSUMPTIONS", [])) + res.assumptions, len(new_v) + (1 if (broken and not new_v) else 0))
    for l in known_lines:
        print(l)
    for l in lines:
        print(l)
    print("%s %s tier=%s seed=%d theorems=%d/%d cases=%d distinct=%d mismatches=%d wall=%.1fs" % (
        ctx.prop, "OK" if exit_code == 0 else "FAILED", tier, seed, discharged, nthm, res.evaluations, len(res.keys),
        len(res.mismatches), time.time() - ctx.t0))
    if broken and exit_code:
        print(json.dumps(broken[0], default=repr)[:2000])
    sys.exit(exit_code)


def classify(ctx, violations):
    known = [k for k in vlib.load_known() if k.get("property") == ctx.prop]
    open_sigs = {k["signature"]: k for k in known if k.get("status") == "open"}
    new_v, lines = [], []
    for v in violations:
        k = open_sigs.get(v["signature"])
        if k is not None:
            line = "KNOWN-FINDING: property=%s %s" % (ctx.prop, k.get("what_fails", v["what"]))
            if line not in lines:
                lines.append(line)
        else:
            new_v.append(v)
    return new_v, lines


def replay(ctx, mod, payload):
    if payload.get("kind") == "input" and hasattr(mod, "replay"):
        fails, detail = mod.replay(ctx, payload["case"])
        print(json.dumps({"still_fails": fails, "detail": detail}, default=repr)[:3000])
        if fails:
            print("VIOLATION property=%s replay=%s" % (ctx.prop, os.path.abspath(sys.argv[-1])))
        return 1 if fails else 0
    # theorem / correspondence replays: re-run the obligation that broke
    from tools.gen import gen
    gen.regenerate_isolated(ctx.tree)
    proof = vlib.build_props(ctx.prop)
    ok = proof["ok"]
    detail = proof["broken"]
    if ok and payload.get("kind") == "correspondence" and hasattr(mod, "replay"):
        fails = False
        for b in payload.get("broken", []):
            if b.get("case") is not None:
                f, d = mod.replay(ctx, b["case"])
                if f:
                    fails, detail = True, d
                    break
        ok = not fails
    print(json.dumps({"still_fails": not ok, "detail": detail}, default=repr)[:3000])
    if not ok:
        print("VIOLATION property=%s replay=%s no-failing-input-found" % (ctx.prop, os.path.abspath(sys.argv[-1])))
    return 0 if ok else 1


if __name__ == "__main__":
    main()
