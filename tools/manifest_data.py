"""Per-property manifest texts. A property appears in CLAIMED only when ./check <id> exists and is green."""
CLAIMED = {
 "C17": {
  "text": "Coq theorems over an executable model of receive_data/send_data (socket = arbitrary script of deliver-k/EOF/errno/timeout events, recursion on the script): a successful read is exactly the next n bytes, partialData is exactly the consumed prefix and short, the stream is never reordered or over-consumed, deleting retryable errors changes nothing, a send delivers the buffer exactly or a prefix. Proved for all sizes, scripts and streams; the retry list and chunk cap are regenerated from socketutil.py each run and the model is run against the real functions on scripted fake sockets.",
  "design_ref": "DESIGN.md section 6 (C17)",
  "note": "Trusted: Coq kernel; tools/gen extractor (ERRNO_RETRIES, cap); the hand-written model's control flow is tied to the code only by the correspondence run (differential testing on ~2.5k scripts quick); socket.sendall modelled as an error-raising send loop; a fatal errno raises ConnectionClosedError without partialData (stated, not hidden). No axioms (Print Assumptions: closed).",
  "technique": "Coq proof by induction over socket scripts + vm_compute correspondence against scripted fake sockets",
 },
}
NOT_YET = {}
