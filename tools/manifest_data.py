"""Per-property manifest texts. A property appears in CLAIMED only when ./check <id> exists and is green."""
CLAIMED = {
 "C17": {
  "text": "Coq theorems over an executable model of receive_data/send_data (socket = arbitrary script of deliver-k/EOF/errno/timeout events, recursion on the script): a successful read is exactly the next n bytes, partialData is exactly the consumed prefix and short, the stream is never reordered or over-consumed, deleting retryable errors changes nothing, a send delivers the buffer exactly or a prefix. Proved for all sizes, scripts and streams; the retry list and chunk cap are regenerated from socketutil.py each run and the model is run against the real functions on scripted fake sockets.",
  "design_ref": "DESIGN.md section 6 (C17)",
  "note": "Trusted: Coq kernel; tools/gen extractor (ERRNO_RETRIES, cap); the hand-written model's control flow is tied to the code only by the correspondence run (differential testing on ~2.5k scripts quick); socket.sendall modelled as an error-raising send loop; a fatal errno raises ConnectionClosedError without partialData (stated, not hidden). No axioms (Print Assumptions: closed).",
  "technique": "Coq proof by induction over socket scripts + vm_compute correspondence against scripted fake sockets",
 },
 "C06": {
  "text": "Coq theorems over an executable model of SendingMessage / ReceivingMessage / add_payload / recv_stub: every message the sender can build (all field values, payloads, annotation sets, correlation id, compression on or off) decodes to exactly its fields and payload and consumes exactly its bytes whatever follows in the stream (decode_encode, proved for all inputs with big-endian arithmetic proved by lia, annotation walk by induction); oversize is refused by the sender and by the receiver with at most the 40 header bytes consumed; acceptance implies a valid header, size within the limit and exact consumption (decode_sound_partial). Constants, flag values, header layout and compression threshold are regenerated from protocol.py every run; the model is run against the real codec through receive_data over a randomly fragmenting socket.",
  "design_ref": "DESIGN.md section 6 (C06)",
  "note": "Partial: that accepted annotation chunks tile exactly and that an accepted message re-encodes to an equivalent one is not yet a Coq theorem; it is checked on the implementation by the harness oracle (independent chunk walk, re-encode + re-decode) and by correspondence on mutated/handcrafted streams. Trusted: Coq kernel, tools/gen extractor, zlib as an oracle (its outputs are recorded per case), struct's C code, asserts enabled. Fragmentation independence is the composition with C17's theorems (recv(n) returns exactly the next n bytes) and is exercised by reading every case through the real receive_data. No axioms.",
  "technique": "Coq proof (round-trip theorem by induction + lia on big-endian arithmetic) + vm_compute correspondence against the real codec",
 },
}
NOT_YET = {}
