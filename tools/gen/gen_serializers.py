"""GenSerializers (C01): per serializer class and per travel path (positional argument, keyword
argument, result) which of Pyro5's own layers surround the third-party library call:
`default=` on the dump side, `convert_obj_into_marshallable`, `object_hook=` / `ext_hook=` on the
load side, `recreate_classes`; plus the msgpack ExtType codes used by `default` and by `ext_hook`."""
import ast
from tools.gen.gen import generator, parse, find_class, find_func, need, GenError, HEADER, cN, cbool, ast_sha, tree_module, try_sha

CLASSES = [("serpent", "SerpentSerializer"), ("marshal", "MarshalSerializer"), ("json", "JsonSerializer"),
           ("msgpack", "MsgpackSerializer")]


def self_calls(func, name):
    """Call nodes `self.<name>(...)` inside func"""
    return [n for n in ast.walk(func) if isinstance(n, ast.Call) and isinstance(n.func, ast.Attribute)
            and n.func.attr == name and isinstance(n.func.value, ast.Name) and n.func.value.id == "self"]


def keywords_passed(func):
    """names of keyword arguments passed to any call in func whose value is self.<same-or-other name>"""
    out = {}
    for n in ast.walk(func):
        if isinstance(n, ast.Call):
            for kw in n.keywords:
                if kw.arg in ("default", "object_hook", "ext_hook"):
                    v = kw.value
                    need(isinstance(v, ast.Attribute) and isinstance(v.value, ast.Name) and v.value.id == "self"
                         and v.attr == kw.arg, "%s: %s= is not self.%s" % (func.name, kw.arg, kw.arg))
                    out[kw.arg] = True
    return out


def mentions(node, names):
    for n in ast.walk(node):
        if isinstance(n, ast.Name) and n.id in names:
            return True
        if isinstance(n, ast.Constant) and n.value == "kwargs":
            return True
    return False


def kw_aliases(func):
    """names that (transitively) hold the keyword-argument dict inside func"""
    names = {"kwargs"}
    changed = True
    while changed:
        changed = False
        for st in ast.walk(func):
            if not isinstance(st, ast.Assign) or len(st.targets) != 1:
                continue
            t, v = st.targets[0], st.value
            pairs = []
            if isinstance(t, ast.Tuple) and isinstance(v, ast.Tuple) and len(t.elts) == len(v.elts):
                pairs = list(zip(t.elts, v.elts))
            elif isinstance(t, ast.Name):
                pairs = [(t, v)]
            for tt, vv in pairs:
                if isinstance(tt, ast.Name) and tt.id not in names and mentions(vv, names):
                    names.add(tt.id)
                    changed = True
    return names


def per_path(func, callee):
    """(applies to positional args?, applies to keyword args?) for a *Call method: a call of
    self.<callee> belongs to the kwargs path when its argument mentions the kwargs dict (or an alias of
    it), or when it sits in a comprehension that iterates over it; to the positional path otherwise."""
    names = kw_aliases(func)
    comps = [n for n in ast.walk(func) if isinstance(n, (ast.ListComp, ast.DictComp, ast.SetComp, ast.GeneratorExp))]
    arg = kw = False
    for c in self_calls(func, callee):
        is_kw = any(mentions(a, names) for a in c.args)
        if not is_kw:
            for comp in comps:
                if any(sub is c for sub in ast.walk(comp)) and any(mentions(g.iter, names) for g in comp.generators):
                    is_kw = True
        if is_kw:
            kw = True
        else:
            arg = True
    return arg, kw


# the encodings for which "ext_hook inverts default" is the assumption validated by correspondence; a different codec
# is a different assumption, so it makes the generated flag false and the obligation C01_source_hooks_complete fail
KNOWN_ENCODERS = {"complex": "struct.pack('dd', obj.real, obj.imag)", "long": "str(obj).encode('ascii')",
                  "datetime": "struct.pack('d', obj.timestamp())", "date": "struct.pack('l', obj.toordinal())"}
KNOWN_DECODERS = {"complex": "real, imag = struct.unpack('dd', data); return complex(real, imag)", "long": "return int(data)",
                  "datetime": "return datetime.datetime.fromtimestamp(struct.unpack('d', data)[0])",
                  "date": "return datetime.date.fromordinal(struct.unpack('l', data)[0])"}


def ext_codes_default(func, shapes):
    """{type name: code} from `if isinstance(obj, T): ... return msgpack.ExtType(<code>, <data>)` in default();
    shapes[type name] = source text of <data>"""
    out = {}
    for st in func.body:
        if not isinstance(st, ast.If):
            continue
        t = st.test
        if not (isinstance(t, ast.Call) and isinstance(t.func, ast.Name) and t.func.id == "isinstance" and len(t.args) == 2):
            continue
        tname = ast.unparse(t.args[1])
        for sub in ast.walk(st):
            if isinstance(sub, ast.Call) and isinstance(sub.func, ast.Attribute) and sub.func.attr == "ExtType":
                need(len(sub.args) == 2 and isinstance(sub.args[0], ast.Constant) and isinstance(sub.args[0].value, int),
                     "default(): ExtType code is not an integer literal")
                need(tname not in out, "default(): two ExtType encodings for " + tname)
                out[tname] = sub.args[0].value
                shapes[tname] = ast.unparse(sub.args[1])
    return out


def ext_codes_hook(func, shapes):
    """{code: constructor text}; shapes[code] = source text of the branch body; from `if code == <int>: ... return <ctor>(...)` in ext_hook()"""
    out = {}
    for st in func.body:
        if isinstance(st, ast.If):
            t = st.test
            need(isinstance(t, ast.Compare) and len(t.ops) == 1 and isinstance(t.ops[0], ast.Eq)
                 and isinstance(t.left, ast.Name) and t.left.id == "code" and isinstance(t.comparators[0], ast.Constant)
                 and isinstance(t.comparators[0].value, int) and not st.orelse, "ext_hook(): unrecognised branch")
            rets = [s for s in ast.walk(st) if isinstance(s, ast.Return)]
            need(len(rets) == 1 and isinstance(rets[0].value, ast.Call), "ext_hook(): branch does not return a constructor call")
            out[t.comparators[0].value] = ast.unparse(rets[0].value.func)
            shapes[t.comparators[0].value] = "; ".join(ast.unparse(b) for b in st.body)
        else:
            need(isinstance(st, (ast.Raise, ast.Expr)), "ext_hook(): unrecognised statement")
    return out


SHORTS = ("complex", "long", "datetime", "date")


def _ast_read(tree):
    """first-generation reader: the hook table, ext codes and codec shapes from the source text of the four classes"""
    mod, _ = parse(tree, "Pyro5/serializers.py")
    table, shas, ids = {}, {}, {}
    for sname, cname in CLASSES:
        cls = find_class(mod, cname)
        idn = [n.value for n in cls.body if isinstance(n, ast.Assign) and len(n.targets) == 1
               and isinstance(n.targets[0], ast.Name) and n.targets[0].id == "serializer_id"]
        need(len(idn) == 1 and isinstance(idn[0], ast.Constant) and isinstance(idn[0].value, int), cname + ".serializer_id not an int literal")
        ids[sname] = idn[0].value
        f = {m: find_func(mod, m, cname) for m in ("dumps", "dumpsCall", "loads", "loadsCall")}
        for m, fn in f.items():
            shas["%s.%s" % (cname, m)] = ast_sha(fn)
        kd, kdc, kl, klc = (keywords_passed(f[m]) for m in ("dumps", "dumpsCall", "loads", "loadsCall"))
        conv_arg, conv_kw = per_path(f["dumpsCall"], "convert_obj_into_marshallable")
        conv_res = bool(self_calls(f["dumps"], "convert_obj_into_marshallable"))
        rec_arg, rec_kw = per_path(f["loadsCall"], "recreate_classes")
        rec_res = bool(self_calls(f["loads"], "recreate_classes"))
        for p, enc, dec, conv, rec in (("arg", kdc, klc, conv_arg, rec_arg), ("kwarg", kdc, klc, conv_kw, rec_kw),
                                       ("result", kd, kl, conv_res, rec_res)):
            table[(sname, p)] = (bool(enc.get("default")), conv, bool(dec.get("object_hook")), bool(dec.get("ext_hook")), rec)
    dshapes, hshapes = {}, {}
    dcodes = ext_codes_default(find_func(mod, "default", "MsgpackSerializer"), dshapes)
    hcodes = ext_codes_hook(find_func(mod, "ext_hook", "MsgpackSerializer"), hshapes)
    want_d = {"complex": "complex", "numbers.Number": "long", "datetime.datetime": "datetime", "datetime.date": "date"}
    want_h = {"complex": "complex", "int": "long", "datetime.datetime.fromtimestamp": "datetime", "datetime.date.fromordinal": "date"}
    need(set(dcodes) == set(want_d), "default(): ExtType encodings are for %s, expected %s" % (sorted(dcodes), sorted(want_d)))
    need(set(hcodes.values()) == set(want_h) and len(hcodes) == 4, "ext_hook(): constructors %s, expected %s" % (sorted(hcodes.values()), sorted(want_h)))
    enc = {want_d[k]: v for k, v in dshapes.items()}
    dec = {want_h[hcodes[c]]: v for c, v in hshapes.items()}
    return {"table": table, "ids": ids, "ext": {want_d[k]: v for k, v in dcodes.items()},
            "hook": {want_h[v]: k for k, v in hcodes.items()},
            "known": {k: enc.get(k) == KNOWN_ENCODERS[k] and dec.get(k) == KNOWN_DECODERS[k] for k in SHORTS},
            "shapes": {k: "default() sends %s ; ext_hook() does %s" % (enc.get(k), dec.get(k)) for k in SHORTS}, "ast_sha": shas}


def ast_shas(tree):
    try:
        mod, _ = parse(tree, "Pyro5/serializers.py")
        return {"%s.%s" % (c, m): try_sha(lambda c=c, m=m: find_func(mod, m, c)) for _, c in CLASSES
                for m in ("dumps", "dumpsCall", "loads", "loadsCall")}
    except GenError:
        return {}


class _LibStub(object):
    """stands in for serpent / marshal / json / msgpack inside Pyro5.serializers while one method is probed: records the
    keyword arguments of every dump / load call (also through msgpack.Packer / Unpacker objects), delegates everything else"""
    def __init__(self, real, log, dump_result, load_result):
        self._real, self._log, self._dump_result, self._load_result = real, log, dump_result, load_result

    def __getattr__(self, name):
        return getattr(self._real, name)

    def dumps(self, obj, *a, **kw):
        self._log.append(("dump", kw))
        return self._dump_result

    def packb(self, obj, *a, **kw):
        self._log.append(("dump", kw))
        return self._dump_result

    def loads(self, data, *a, **kw):
        self._log.append(("load", kw))
        return self._load_result[0]

    def unpackb(self, data, *a, **kw):
        self._log.append(("load", kw))
        return self._load_result[0]

    def Packer(self, *a, **kw):
        stub = self

        class P(object):
            def pack(self, obj):
                stub._log.append(("dump", kw))
                return stub._dump_result
        return P()


def _probe_read(tree):
    """second reader: the module of the tree under test is imported and every dumps / dumpsCall / loads / loadsCall is
    run once with the third-party library replaced by a recording stub and recreate_classes /
    convert_obj_into_marshallable replaced by recorders — which hooks reach the library call and which Pyro5 layer is
    applied to the positional arguments, the keyword arguments and the result is then a fact about what the code does,
    independent of helper methods, local names or statement order.  The msgpack ExtType codes and byte codecs are read
    by running default() / ext_hook() on sample values."""
    import datetime, struct
    mod = tree_module(tree, "Pyro5.serializers")
    libs = ("serpent", "marshal", "json", "msgpack")
    real = {n: getattr(mod, n) for n in libs}
    need(all(real[n] is not None for n in libs), "a serializer library is not available")
    table, ids = {}, {}
    log = []
    load_result = [None]
    try:
        for n in libs:
            setattr(mod, n, _LibStub(real[n], log, "{}" if n == "json" else b"probe", load_result))
        for sname, cname in CLASSES:
            cls = getattr(mod, cname, None)
            need(isinstance(cls, type), "class %s not found" % cname)
            need(isinstance(cls.serializer_id, int), cname + ".serializer_id is not an int")
            ids[sname] = cls.serializer_id
            inst = cls()
            touched = {"recreate": [], "convert": []}
            inst.recreate_classes = lambda x, t=touched: (t["recreate"].append(repr(x)), x)[1]
            if hasattr(inst, "convert_obj_into_marshallable"):
                inst.convert_obj_into_marshallable = lambda x, t=touched: (t["convert"].append(repr(x)), x)[1]

            def run(fn):
                del log[:]
                touched["recreate"], touched["convert"] = [], []
                fn()
                return list(log), list(touched["recreate"]), list(touched["convert"])

            def passes(calls, kind, kwname):
                hook = getattr(inst, kwname, None)
                return any(k == kind and kwname in kw and kw[kwname] == hook and hook is not None for k, kw in calls)
            calls_dc, _, conv_dc = run(lambda: inst.dumpsCall("obj", "meth", ("A-MARK",), {"kw": "B-MARK"}))
            calls_d, _, conv_d = run(lambda: inst.dumps("C-MARK"))
            va, kw = ["A-MARK"], {"kw": "B-MARK"}
            load_result[0] = {"object": "obj", "method": "meth", "params": va, "kwargs": kw} if sname == "json" else ("obj", "meth", va, kw)
            calls_lc, rec_lc, _ = run(lambda: inst.loadsCall(b"__class__ probe"))
            load_result[0] = ["C-MARK"]
            calls_l, rec_l, _ = run(lambda: inst.loads(b"__class__ probe"))
            need(any(k == "dump" for k, _ in calls_dc) and any(k == "dump" for k, _ in calls_d)
                 and any(k == "load" for k, _ in calls_lc) and any(k == "load" for k, _ in calls_l),
                 "%s: a method did not reach the %s library through a recognised entry point" % (cname, sname))
            for p, mark, cd, cl, conv, rec in (("arg", "A-MARK", calls_dc, calls_lc, conv_dc, rec_lc),
                                               ("kwarg", "B-MARK", calls_dc, calls_lc, conv_dc, rec_lc),
                                               ("result", "C-MARK", calls_d, calls_l, conv_d, rec_l)):
                table[(sname, p)] = (passes(cd, "dump", "default"), any(mark in r for r in conv),
                                     passes(cl, "load", "object_hook"), passes(cl, "load", "ext_hook"), any(mark in r for r in rec))
    finally:
        for n in libs:
            setattr(mod, n, real[n])
    # ExtType codes and codecs, by running default() / ext_hook() of a fresh serializer on sample values
    mp = mod.MsgpackSerializer()
    D, d = datetime.datetime, datetime.date
    samples = {"complex": [1 + 2j, complex(-0.0, float("inf")), complex(-2.5, -0.0)],
               "long": [2 ** 70, -2 ** 70, 2 ** 64, -2 ** 63 - 1],
               "datetime": [D(1969, 12, 31, 23, 59, 58, 500000), D(2020, 2, 29, 12, 0, 0), D(2100, 12, 31, 23, 59, 59, 999999), D(1902, 1, 1, 0, 0, 0, 7)],
               "date": [d(1, 1, 1), d(2020, 2, 29), d(9999, 12, 31)]}
    known_enc = {"complex": lambda x: struct.pack("dd", x.real, x.imag), "long": lambda x: str(x).encode("ascii"),
                 "datetime": lambda x: struct.pack("d", x.timestamp()), "date": lambda x: struct.pack("l", x.toordinal())}
    same = lambda a, b: type(a) is type(b) and (struct.pack("dd", a.real, a.imag) == struct.pack("dd", b.real, b.imag) if type(a) is complex else a == b)
    ext, hook, known, shapes = {}, {}, {}, {}
    for k in SHORTS:
        outs = []
        for x in samples[k]:
            try:
                e = mp.default(x)
            except Exception as exc:
                raise GenError("default(%r) raises %s" % (x, type(exc).__name__))
            need(type(e).__name__ == "ExtType" and isinstance(e.code, int) and 0 <= e.code < 128, "default(%r) is not an ExtType" % (x,))
            outs.append(e)
        need(len({e.code for e in outs}) == 1, "default() uses several ExtType codes for %s values" % k)
        ext[k] = outs[0].code

        def decodes(code, datas):
            try:
                return all(same(mp.ext_hook(code, bytes(b)), x) for b, x in zip(datas, samples[k]))
            except Exception:
                return False
        own = [bytes(e.data) for e in outs]
        cands = [c for c in [ext[k]] + [c for c in range(128) if c != ext[k]] if decodes(c, own)]
        hook[k] = cands[0] if cands else 255
        kn = [known_enc[k](x) for x in samples[k]]
        known[k] = own == kn and decodes(hook[k], kn)
        shapes[k] = "default(%r).data = %s (validated codec gives %s)" % (samples[k][0], own[0].hex(), kn[0].hex())
    return {"table": table, "ids": ids, "ext": ext, "hook": hook, "known": known, "shapes": shapes}


@generator("GenSerializers", "Pyro5/serializers.py")
def gen_serializers(tree):
    errors_seen = {}
    r = None
    for mode, reader in (("probed", _probe_read), ("ast", _ast_read)):
        try:
            r = reader(tree)
            break
        except GenError as x:
            errors_seen[mode] = str(x)
        except Exception as x:
            errors_seen[mode] = "%s: %s" % (type(x).__name__, x)
    if r is None:
        raise GenError("; ".join("%s reader: %s" % kv for kv in errors_seen.items()))
    table, ids = r["table"], r["ids"]
    out = HEADER % "Pyro5/serializers.py"
    out += "(* per (serializer, path): (default= passed to the dump call, convert_obj_into_marshallable applied,\n"
    out += "   object_hook= passed to the load call, ext_hook= passed to the load call, recreate_classes applied) *)\n"
    for sname, _ in CLASSES:
        for p in ("arg", "kwarg", "result"):
            out += "Definition hk_%s_%s : bool * bool * bool * bool * bool := (%s).\n" % (sname, p, ", ".join(cbool(x) for x in table[(sname, p)]))
    out += "(* serializer ids *)\n"
    for sname, _ in CLASSES:
        out += "Definition id_%s : N := %s.\n" % (sname, cN(ids[sname]))
    out += "(* msgpack ExtType codes written by default() *)\n"
    for short in SHORTS:
        out += "Definition ext_%s : N := %s.\n" % (short, cN(r["ext"][short]))
    out += "(* ... and the codes ext_hook() decodes with the matching constructor *)\n"
    for short in SHORTS:
        out += "Definition hook_%s : N := %s.\n" % (short, cN(r["hook"][short]))
    out += "(* the byte codec of every ExtType payload, and whether it is the codec the model's assumption\n"
    out += "   `ext_hook inverts default` was validated for *)\n"
    clean = lambda t: str(t).replace("(*", "( *").replace("*)", "* )").replace("\n", " ")
    for short in SHORTS:
        out += "(* %s: %s *)\n" % (short, clean(r["shapes"][short]))
        out += "Definition codec_%s_known : bool := %s.\n" % (short, cbool(bool(r["known"][short])))
    out += "Definition ext_codecs_known : bool := %s.\n" % " && ".join("codec_%s_known" % k for k in SHORTS)
    return out, {"mode": mode, "reader_errors": errors_seen, "codecs": r["shapes"],
                 "table": {"%s/%s" % k: v for k, v in table.items()}, "ids": ids,
                 "ext_default": r["ext"], "ext_hook": r["hook"], "ast_sha": r.get("ast_sha") or ast_shas(tree)}
