"""GenSerializers (C01): per serializer class and per travel path (positional argument, keyword
argument, result) which of Pyro5's own layers surround the third-party library call:
`default=` on the dump side, `convert_obj_into_marshallable`, `object_hook=` / `ext_hook=` on the
load side, `recreate_classes`; plus the msgpack ExtType codes used by `default` and by `ext_hook`."""
import ast
from tools.gen.gen import generator, parse, find_class, find_func, need, GenError, HEADER, cN, cbool, ast_sha

CLASSES = [("serpent", "SerpentSerializer"), ("marshal", "MarshalSerializer"), ("json", "JsonSerializer"),
           ("msgpack", "MsgpackSerializer")]


def self_calls(func, name):
    """Call nodes `self.<name>(...)` inside func"""
    return [n for n in ast.walk(func) if isinstance(n, ast.Call) and isinstance(n.func, ast.Attribute)
            and n.func.attr == name and isinstance(n.func.value, ast.Name) and n.func.value.id == "self"]


def keywords_passed(func):
    """names of keyword arguments passed to any call in func whose value is self.<same-or-other name>"""
    out = {}
    for n in ast.walk(func):
        if isinstance(n, ast.Call):
            for kw in n.keywords:
                if kw.arg in ("default", "object_hook", "ext_hook"):
                    v = kw.value
                    need(isinstance(v, ast.Attribute) and isinstance(v.value, ast.Name) and v.value.id == "self"
                         and v.attr == kw.arg, "%s: %s= is not self.%s" % (func.name, kw.arg, kw.arg))
                    out[kw.arg] = True
    return out


def mentions(node, names):
    for n in ast.walk(node):
        if isinstance(n, ast.Name) and n.id in names:
            return True
        if isinstance(n, ast.Constant) and n.value == "kwargs":
            return True
    return False


def kw_aliases(func):
    """names that (transitively) hold the keyword-argument dict inside func"""
    names = {"kwargs"}
    changed = True
    while changed:
        changed = False
        for st in ast.walk(func):
            if not isinstance(st, ast.Assign) or len(st.targets) != 1:
                continue
            t, v = st.targets[0], st.value
            pairs = []
            if isinstance(t, ast.Tuple) and isinstance(v, ast.Tuple) and len(t.elts) == len(v.elts):
                pairs = list(zip(t.elts, v.elts))
            elif isinstance(t, ast.Name):
                pairs = [(t, v)]
            for tt, vv in pairs:
                if isinstance(tt, ast.Name) and tt.id not in names and mentions(vv, names):
                    names.add(tt.id)
                    changed = True
    return names


def per_path(func, callee):
    """(applies to positional args?, applies to keyword args?) for a *Call method: a call of
    self.<callee> belongs to the kwargs path when its argument mentions the kwargs dict (or an alias of
    it), or when it sits in a comprehension that iterates over it; to the positional path otherwise."""
    names = kw_aliases(func)
    comps = [n for n in ast.walk(func) if isinstance(n, (ast.ListComp, ast.DictComp, ast.SetComp, ast.GeneratorExp))]
    arg = kw = False
    for c in self_calls(func, callee):
        is_kw = any(mentions(a, names) for a in c.args)
        if not is_kw:
            for comp in comps:
                if any(sub is c for sub in ast.walk(comp)) and any(mentions(g.iter, names) for g in comp.generators):
                    is_kw = True
        if is_kw:
            kw = True
        else:
            arg = True
    return arg, kw


# the encodings for which "ext_hook inverts default" is the assumption validated by correspondence; a different codec
# is a different assumption, so it makes the generated flag false and the obligation C01_source_hooks_complete fail
KNOWN_ENCODERS = {"complex": "struct.pack('dd', obj.real, obj.imag)", "long": "str(obj).encode('ascii')",
                  "datetime": "struct.pack('d', obj.timestamp())", "date": "struct.pack('l', obj.toordinal())"}
KNOWN_DECODERS = {"complex": "real, imag = struct.unpack('dd', data); return complex(real, imag)", "long": "return int(data)",
                  "datetime": "return datetime.datetime.fromtimestamp(struct.unpack('d', data)[0])",
                  "date": "return datetime.date.fromordinal(struct.unpack('l', data)[0])"}


def ext_codes_default(func, shapes):
    """{type name: code} from `if isinstance(obj, T): ... return msgpack.ExtType(<code>, <data>)` in default();
    shapes[type name] = source text of <data>"""
    out = {}
    for st in func.body:
        if not isinstance(st, ast.If):
            continue
        t = st.test
        if not (isinstance(t, ast.Call) and isinstance(t.func, ast.Name) and t.func.id == "isinstance" and len(t.args) == 2):
            continue
        tname = ast.unparse(t.args[1])
        for sub in ast.walk(st):
            if isinstance(sub, ast.Call) and isinstance(sub.func, ast.Attribute) and sub.func.attr == "ExtType":
                need(len(sub.args) == 2 and isinstance(sub.args[0], ast.Constant) and isinstance(sub.args[0].value, int),
                     "default(): ExtType code is not an integer literal")
                need(tname not in out, "default(): two ExtType encodings for " + tname)
                out[tname] = sub.args[0].value
                shapes[tname] = ast.unparse(sub.args[1])
    return out


def ext_codes_hook(func, shapes):
    """{code: constructor text}; shapes[code] = source text of the branch body; from `if code == <int>: ... return <ctor>(...)` in ext_hook()"""
    out = {}
    for st in func.body:
        if isinstance(st, ast.If):
            t = st.test
            need(isinstance(t, ast.Compare) and len(t.ops) == 1 and isinstance(t.ops[0], ast.Eq)
                 and isinstance(t.left, ast.Name) and t.left.id == "code" and isinstance(t.comparators[0], ast.Constant)
                 and isinstance(t.comparators[0].value, int) and not st.orelse, "ext_hook(): unrecognised branch")
            rets = [s for s in ast.walk(st) if isinstance(s, ast.Return)]
            need(len(rets) == 1 and isinstance(rets[0].value, ast.Call), "ext_hook(): branch does not return a constructor call")
            out[t.comparators[0].value] = ast.unparse(rets[0].value.func)
            shapes[t.comparators[0].value] = "; ".join(ast.unparse(b) for b in st.body)
        else:
            need(isinstance(st, (ast.Raise, ast.Expr)), "ext_hook(): unrecognised statement")
    return out


@generator("GenSerializers", "Pyro5/serializers.py")
def gen_serializers(tree):
    mod, _ = parse(tree, "Pyro5/serializers.py")
    table, shas, ids = {}, {}, {}
    for sname, cname in CLASSES:
        cls = find_class(mod, cname)
        idn = [n.value for n in cls.body if isinstance(n, ast.Assign) and len(n.targets) == 1
               and isinstance(n.targets[0], ast.Name) and n.targets[0].id == "serializer_id"]
        need(len(idn) == 1 and isinstance(idn[0], ast.Constant) and isinstance(idn[0].value, int), cname + ".serializer_id not an int literal")
        ids[sname] = idn[0].value
        f = {m: find_func(mod, m, cname) for m in ("dumps", "dumpsCall", "loads", "loadsCall")}
        for m, fn in f.items():
            shas["%s.%s" % (cname, m)] = ast_sha(fn)
        kd, kdc, kl, klc = (keywords_passed(f[m]) for m in ("dumps", "dumpsCall", "loads", "loadsCall"))
        conv_arg, conv_kw = per_path(f["dumpsCall"], "convert_obj_into_marshallable")
        conv_res = bool(self_calls(f["dumps"], "convert_obj_into_marshallable"))
        rec_arg, rec_kw = per_path(f["loadsCall"], "recreate_classes")
        rec_res = bool(self_calls(f["loads"], "recreate_classes"))
        for p, enc, dec, conv, rec in (("arg", kdc, klc, conv_arg, rec_arg), ("kwarg", kdc, klc, conv_kw, rec_kw),
                                       ("result", kd, kl, conv_res, rec_res)):
            table[(sname, p)] = (bool(enc.get("default")), conv, bool(dec.get("object_hook")), bool(dec.get("ext_hook")), rec)
    mp = find_class(mod, "MsgpackSerializer")
    dshapes, hshapes = {}, {}
    dcodes = ext_codes_default(find_func(mod, "default", "MsgpackSerializer"), dshapes)
    hcodes = ext_codes_hook(find_func(mod, "ext_hook", "MsgpackSerializer"), hshapes)
    want_d = {"complex": "complex", "numbers.Number": "long", "datetime.datetime": "datetime", "datetime.date": "date"}
    want_h = {"complex": "complex", "int": "long", "datetime.datetime.fromtimestamp": "datetime", "datetime.date.fromordinal": "date"}
    need(set(dcodes) == set(want_d), "default(): ExtType encodings are for %s, expected %s" % (sorted(dcodes), sorted(want_d)))
    need(set(hcodes.values()) == set(want_h) and len(hcodes) == 4, "ext_hook(): constructors %s, expected %s" % (sorted(hcodes.values()), sorted(want_h)))
    out = HEADER % "Pyro5/serializers.py"
    out += "(* per (serializer, path): (default= passed to the dump call, convert_obj_into_marshallable applied,\n"
    out += "   object_hook= passed to the load call, ext_hook= passed to the load call, recreate_classes applied) *)\n"
    for (sname, p), t in table.items():
        out += "Definition hk_%s_%s : bool * bool * bool * bool * bool := (%s).\n" % (sname, p, ", ".join(cbool(x) for x in t))
    out += "(* serializer ids *)\n"
    for sname, _ in CLASSES:
        out += "Definition id_%s : N := %s.\n" % (sname, cN(ids[sname]))
    out += "(* msgpack ExtType codes written by default() *)\n"
    for tname, short in want_d.items():
        out += "Definition ext_%s : N := %s.\n" % (short, cN(dcodes[tname]))
    out += "(* ... and the codes ext_hook() decodes with the matching constructor *)\n"
    for code, ctor in sorted(hcodes.items()):
        out += "Definition hook_%s : N := %s.\n" % (want_h[ctor], cN(code))
    out += "(* the byte codec of every ExtType payload, as source text, and whether it is the codec the model's assumption\n"
    out += "   `ext_hook inverts default` was validated for *)\n"
    enc = {want_d[k]: v for k, v in dshapes.items()}
    dec = {want_h[hcodes[c]]: v for c, v in hshapes.items()}
    flags = []
    for short in ("complex", "long", "datetime", "date"):
        ok = enc.get(short) == KNOWN_ENCODERS[short] and dec.get(short) == KNOWN_DECODERS[short]
        clean = lambda t: str(t).replace("(*", "( *").replace("*)", "* )").replace("\n", " ")
        out += "(* %s: default() sends %s ; ext_hook() does %s *)\n" % (short, clean(enc.get(short)), clean(dec.get(short)))
        out += "Definition codec_%s_known : bool := %s.\n" % (short, cbool(ok))
        flags.append("codec_%s_known" % short)
    out += "Definition ext_codecs_known : bool := %s.\n" % " && ".join(flags)
    return out, {"codecs": {"encode": enc, "decode": dec}, "table": {"%s/%s" % k: v for k, v in table.items()}, "ids": ids,
                 "ext_default": {want_d[k]: v for k, v in dcodes.items()},
                 "ext_hook": {want_h[v]: k for k, v in hcodes.items()}, "ast_sha": shas}
